#!/bin/bash
# seed_verify.sh <seed dir>   (dir holds patch.diff and demo_test.go with a first line "// place in: <dir>")
# Confirms in a scratch worktree outside /repo and /verif that the seeded change (1) applies to HEAD,
# (2) keeps the repository's own test suite green, (3) makes the demonstration fail, and that the
# demonstration passes without it. Prints one line: SEED <dir> apply=.. suite=.. demo_with=.. demo_without=..
. "$(dirname "$0")/env.sh"
d="$(cd "$1" && pwd)"
wt="$(mktemp -d /tmp/seedverify.XXXXXX)"
trap 'git -C /repo worktree remove --force "$wt" >/dev/null 2>&1; rm -rf "$wt"' EXIT
git -C /repo worktree add --detach "$wt" HEAD >/dev/null 2>&1 || { echo "SEED $d worktree-failed"; exit 2; }
place="$(head -1 "$d/demo_test.go" | sed -n 's#^// place in: *##p' | tr -d '\r' | awk '{print $1}' | sed 's#/*$##')"
[ -z "$place" ] && place="."
race=""; grep -qi "race" "$d/meta.json" "$d/notes.md" 2>/dev/null && grep -qi -- "-race" "$d/notes.md" "$d/meta.json" 2>/dev/null && race="-race"
cd "$wt"
mkdir -p "$wt/$place"; cp "$d/demo_test.go" "$wt/$place/zz_seed_demo_test.go"
go test -vet=off -count=1 $race "./$place/" -run 'Seed|C[0-9][0-9]|Demo' >"$wt/.without.log" 2>&1; without=$?
rm -f "$wt/$place/zz_seed_demo_test.go"
if git apply "$d/patch.diff" 2>"$wt/.apply.log"; then apply=ok; else apply=FAIL; fi
go test -vet=off -count=1 ./... >"$wt/.suite.log" 2>&1; suite=$?
mkdir -p "$wt/$place"; cp "$d/demo_test.go" "$wt/$place/zz_seed_demo_test.go"
go test -vet=off -count=1 $race "./$place/" -run 'Seed|C[0-9][0-9]|Demo' >"$wt/.with.log" 2>&1; with=$?
echo "SEED $d apply=$apply suite_exit=$suite demo_with_exit=$with demo_without_exit=$without race=${race:-no}"
if [ "$apply" != ok ] || [ $suite -ne 0 ] || [ $with -eq 0 ] || [ $without -ne 0 ]; then
  echo "--- NOT CONFIRMED"; tail -5 "$wt/.apply.log" "$wt/.suite.log" "$wt/.with.log" "$wt/.without.log" 2>/dev/null | head -60
  exit 1
fi
exit 0
