package props

import (
	"encoding/json"
	"fmt"
	"strings"
	"time"

	"github.com/vektah/gqlparser/v2/ast"
	"github.com/vektah/gqlparser/v2/parser"

	"verif/mc/explore"
	"verif/mc/gen"
)

type famInput struct {
	Family string `json:"family"`
	N      int    `json:"n"`
	Limit  int    `json:"limit"`
}

func findFamily(fs []gen.Family, name string) *gen.Family {
	for i := range fs {
		if fs[i].Name == name {
			return &fs[i]
		}
	}
	return nil
}

func c01ReplayFamily(c *explore.Ctx, s *explore.SubStats, raw json.RawMessage) {
	var in famInput
	if json.Unmarshal(raw, &in) != nil {
		return
	}
	if f := findFamily(gen.ParseFamilies, in.Family); f != nil {
		c01FamilyCase(c, s, f, in.N, in.Limit)
	}
}

// Linear step bound for the parse families: measured maximum on the unchanged tree is
// below 12 steps per byte; the bound allows 20× that.
func famStepBound(bytes int) int64 { return 20000 + 240*int64(bytes) }

func c01FamilyCase(c *explore.Ctx, s *explore.SubStats, f *gen.Family, n, limit int) {
	text := f.Make(n)
	s.Executions++
	explore.Crumb(s.Name, fmt.Sprintf("family=%s n=%d limit=%d bytes=%d", f.Name, n, limit, len(text)))
	in := famInput{f.Name, n, limit}
	rendered := fmt.Sprintf("family=%s n=%d limit=%d bytes=%d", f.Name, n, limit, len(text))
	bad := func(key, detail string) {
		c.Report(s, explore.Violation{Key: key, Input: explore.J(in), Rendered: rendered, Detail: detail})
	}
	budget := famStepBound(len(text))
	var sm *srcMap
	for _, entry := range []string{"query", "schema"} {
		var err error
		var nilDoc bool
		t0 := time.Now()
		// under a (non-zero) limit the recursion depth is bounded by the limit, whatever the input
		// size (same bound as C16); a negative limit admits no token at all
		depthBound := 0
		if limit != 0 {
			lb := limit
			if lb < 0 {
				lb = 0
			}
			depthBound = c16DepthBound(lb)
		}
		r := guarded(budget, depthBound, func() {
			src := &ast.Source{Input: text, Name: "f"}
			if entry == "query" {
				var d *ast.QueryDocument
				d, err = parser.ParseQueryWithTokenLimit(src, limit)
				nilDoc = d == nil
			} else {
				var d *ast.SchemaDocument
				d, err = parser.ParseSchemaWithLimit(src, limit)
				nilDoc = d == nil
			}
		})
		wall := time.Since(t0)
		s.Validated++
		s.MaxOf("steps_per_byte_x100", r.Steps*100/int64(len(text)+1))
		s.MaxOf("depth", int64(r.MaxDepth))
		s.MaxOf("wall_ms", wall.Milliseconds())
		if r.Panicked {
			if r.Budget {
				bad("budget family="+f.Name+" entry="+entry, fmt.Sprintf("%s: %s; linear bound %d for %d bytes", entry, r.PanicVal, budget, len(text)))
			} else {
				bad("panic site="+r.Site+" msg="+normMsg(r.PanicVal), fmt.Sprintf("%s panicked: %s\n%s", entry, r.PanicVal, trimStack(r.Stack)))
			}
			continue
		}
		if wall > 60*time.Second {
			bad("time family="+f.Name+" entry="+entry, fmt.Sprintf("%s took %v for %d bytes (steps=%d)", entry, wall, len(text), r.Steps))
		}
		if err == nil && nilDoc {
			bad("result/nil-document entry="+entry, "nil document with nil error")
		}
		if ge, ok := errLocs(err); ok {
			for _, l := range ge.Locations {
				if sm == nil {
					sm = newSrcMap(text)
				}
				if !sm.inside(l.Line, l.Column) {
					bad("pos/error-outside-input entry="+entry+" msg="+normMsg(ge.Message), fmt.Sprintf("%s: error %q at %d:%d outside the input", entry, ge.Message, l.Line, l.Column))
				}
			}
		}
		o := "ok"
		if err != nil {
			o = "err"
		}
		s.Outcome(f.Name + ":" + entry + ":" + o)
	}
	s.Nontrivial++
	s.Sample(func() any { return rendered })
}

func c01Families(c *explore.Ctx) {
	s := c.Sub("families", fmt.Sprintf("%d adversarial size families × n = 2^0 … (unlimited: ≤ 64 KiB; limits {−1,1,16,1024,65536}: ≤ %s)", len(gen.ParseFamilies), map[bool]string{false: "1 MiB", true: "8 MiB"}[c.Thorough()]),
		"both parsers return normally (worker death = crash), error locations inside the input, steps ≤ 20000+240·bytes (linear), under a limit call depth ≤ 200+70·max(L,0), wall < 60 s",
		"every case (each is a distinct (family, n, limit))")
	if s == nil {
		return
	}
	t0 := time.Now()
	maxLimited := 1 << 20
	if c.Thorough() {
		maxLimited = 8 << 20
	}
	idx := 0
	for fi := range gen.ParseFamilies {
		f := &gen.ParseFamilies[fi]
		for _, limit := range []int{0, -1, 1, 16, 1024, 65536} {
			maxBytes := 64 << 10
			if limit != 0 {
				maxBytes = maxLimited
			}
			for n := 1; ; n *= 2 {
				if len(f.Make(1))*n > maxBytes*2 {
					break
				}
				if len(f.Make(n)) > maxBytes {
					break
				}
				idx++
				if idx%c.NShards != c.Shard {
					continue
				}
				if c.Expired() {
					s.Cap("deadline")
					return
				}
				s.States++
				s.Transitions++
				c01FamilyCase(c, s, f, n, limit)
			}
		}
	}
	s.WallS = time.Since(t0).Seconds()
	c01TwoSources(c)
}

// c01TwoSources: the limited multi-source entry point, a small leading source that uses part (or exactly all) of
// the limit followed by a deeply nested one: the limit bounds the recursion in every source.
func c01TwoSources(c *explore.Ctx) {
	leads := c01Leads
	maxBytes := c.Pick(1<<20, 8<<20)
	s := c.Sub("families-two-sources", fmt.Sprintf("ParseSchemasWithLimit(L, lead, nested) for %d leading sources × every nesting family of the type-system grammar at n = 2^k up to %d bytes × L = 1 … 14, 64", len(leads), maxBytes),
		"returns normally with call depth ≤ 200+70·L in every source (a later source is under the limit as the first one is), steps linear", "every case")
	if s == nil {
		return
	}
	t0 := time.Now()
	idx := 0
	for fi := range gen.ParseFamilies {
		f := &gen.ParseFamilies[fi]
		if !f.SDL || !(strings.Contains(f.Name, "nest") || strings.Contains(f.Name, "unclosed")) {
			continue
		}
		for li := range leads {
			for _, limit := range []int{1, 2, 3, 4, 5, 6, 7, 8, 9, 10, 11, 12, 13, 14, 64} {
				for n := 1 << 10; len(f.Make(n)) <= maxBytes; n *= 32 {
					idx++
					if idx%c.NShards != c.Shard {
						continue
					}
					if c.Expired() {
						s.Cap("deadline")
						return
					}
					s.States++
					s.Transitions++
					c01TwoCase(c, s, f, li, n, limit)
				}
			}
		}
	}
	s.WallS = time.Since(t0).Seconds()
}

var c01Leads = []string{"type A { a: Int }", "# c\nscalar A", "", "scalar A scalar B scalar C", `"d" enum E { V }`}

type twoInput struct {
	Lead   int    `json:"lead"`
	Family string `json:"family"`
	N      int    `json:"n"`
	Limit  int    `json:"limit"`
}

func c01ReplayTwo(c *explore.Ctx, s *explore.SubStats, raw json.RawMessage) {
	var in twoInput
	if json.Unmarshal(raw, &in) != nil || in.Lead < 0 || in.Lead >= len(c01Leads) {
		return
	}
	if f := findFamily(gen.ParseFamilies, in.Family); f != nil {
		c01TwoCase(c, s, f, in.Lead, in.N, in.Limit)
	}
}

func c01TwoCase(c *explore.Ctx, s *explore.SubStats, f *gen.Family, li, n, limit int) {
	lead := c01Leads[li]
	s.Executions++
	text := f.Make(n)
	rendered := fmt.Sprintf("lead=%q then family=%s n=%d limit=%d", lead, f.Name, n, limit)
	explore.Crumb(s.Name, rendered)
	var err error
	r := guarded(famStepBound(len(text)+len(lead)), c16DepthBound(limit), func() {
		_, err = parser.ParseSchemasWithLimit(limit, &ast.Source{Name: "lead", Input: lead}, &ast.Source{Name: "f", Input: text})
	})
	s.Validated++
	s.MaxOf("depth", int64(r.MaxDepth))
	if r.Panicked {
		key := "panic site=" + r.Site + " msg=" + normMsg(r.PanicVal)
		if r.Budget {
			key = "budget two-sources family=" + f.Name
		}
		c.Report(s, explore.Violation{Key: key, Input: explore.J(twoInput{li, f.Name, n, limit}), Rendered: rendered,
			Detail: fmt.Sprintf("ParseSchemasWithLimit: %s", r.PanicVal)})
		return
	}
	s.Nontrivial++
	s.Outcome(fmt.Sprintf("%s:err=%v", f.Name, err != nil))

}
