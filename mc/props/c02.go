package props

import (
	"encoding/json"
	"fmt"
	"github.com/vektah/gqlparser/v2/validator/rules"
	"os"
	"strings"
	"time"

	gqlparser "github.com/vektah/gqlparser/v2"
	"github.com/vektah/gqlparser/v2/ast"
	"github.com/vektah/gqlparser/v2/gqlerror"
	"github.com/vektah/gqlparser/v2/parser"
	"github.com/vektah/gqlparser/v2/validator"

	"verif/mc/explore"
	"verif/mc/gen"
)

// C02: schema loading and validation never crash and terminate on every document.

func init() {
	register(&Prop{ID: "C02", Run: runC02, Replay: func(c *explore.Ctx, s *explore.SubStats, v explore.Violation) {
		switch v.Sub {
		case "families", "schema-families":
			var in famInput
			if json.Unmarshal(v.Input, &in) == nil {
				if strings.HasPrefix(in.Family, "schema:") {
					if f := findFamily(gen.SchemaFamilies, strings.TrimPrefix(in.Family, "schema:")); f != nil {
						c02SchemaFamily(c, s, f, in.N)
					}
				} else if f := findFamily(gen.ValidFamilies, in.Family); f != nil {
					c02Family(c, s, f, in.N)
				}
			}
		case "schemas":
			var in kitInput
			if json.Unmarshal(v.Input, &in) == nil {
				c02Schema(c, s, in)
			}
		default:
			var in kitDoc
			if json.Unmarshal(v.Input, &in) == nil {
				c02Doc(c, s, in)
			}
		}
	}, Assumptions: []string{
		"running time is decided as a deterministic step count (function entries + loop iterations of the instrumented repository code): a cubic bound in the document size for the kit documents and for every size family; exponential behaviour exceeds it within n ≈ 20 without any clock",
		"documents are syntactically valid (they are parsed by the real parser first; texts that do not parse are skipped and counted)",
		"unbounded recursion is turned into a reported budget/depth violation by the instrumented call-depth gauge; a worker that still dies is reported with the input it was running",
	}})
}

// Validation step budget for the small kit documents (≤ ~400 bytes against the kit
// schemas): the measured maximum on the unchanged tree is below 40 000 steps.
const c02DocBudget = 1_500_000

func c02Doc(c *explore.Ctx, s *explore.SubStats, d kitDoc) {
	explore.Crumb(s.Name, d.Doc)
	s.Executions++
	bad := func(key, detail string) {
		c.Report(s, explore.Violation{Key: key, Input: explore.J(d), Rendered: d.Doc, Detail: detail})
	}
	schema := kitSchema(d.Schema)
	doc, perr := parser.ParseQuery(&ast.Source{Name: "q.graphql", Input: d.Doc})
	if perr != nil {
		s.Skipped++
		return
	}
	var errs gqlerror.List
	r := guarded(c02DocBudget, 5000, func() { errs = validator.Validate(schema, doc) })
	s.MaxOf("steps", r.Steps)
	s.MaxOf("depth", int64(r.MaxDepth))
	if r.Panicked {
		if r.Budget {
			bad("budget validate site="+r.Site+" profile="+d.Profile, fmt.Sprintf("Validate: %s on a %d-byte document", r.PanicVal, len(d.Doc)))
		} else {
			bad("panic site="+r.Site+" msg="+normMsg(r.PanicVal), "Validate panicked: "+r.PanicVal+"\n"+trimStack(r.Stack))
		}
		s.Outcome("panic")
		return
	}
	s.Validated++
	if len(errs) == 0 {
		s.Outcome("valid")
	} else {
		s.Nontrivial++
		s.Outcome("invalid " + errs[0].Rule)
	}
	// a second validation of the same tree must return normally too
	r = guarded(c02DocBudget, 5000, func() { _ = validator.Validate(schema, doc) })
	if r.Panicked {
		bad("panic-revalidate site="+r.Site+" msg="+normMsg(r.PanicVal), "Validate panicked when the same tree was validated again: "+r.PanicVal+"\n"+trimStack(r.Stack))
	}
	// the same tree against another loaded schema (a cached document after a schema reload) and back again
	for _, other := range []*ast.Schema{kitSchema(1 - d.Schema), schema} {
		r = guarded(c02DocBudget, 5000, func() { _ = validator.Validate(other, doc) })
		if r.Panicked {
			bad("panic-other-schema site="+r.Site+" msg="+normMsg(r.PanicVal), "Validate panicked when the tree, validated before against one kit schema, was validated against the other: "+r.PanicVal+"\n"+trimStack(r.Stack))
			break
		}
	}
	s.Sample(func() any { return d })
}

// c02Blind: documents validated against a freshly loaded kit type system.
var c02BlindDocs = []string{
	`{ q node { id ... on Pet { id } ... on Extra { x } } }`,
	`query Q($a: Filter, $b: Missing, $c: Extra) { q(x: $a) node(id: $b) { ...F } } fragment F on Node { id ...G } fragment G on Named { name(short: true, len: 1) ...F }`,
	`mutation { m } subscription { s } { __schema { types { name } } __type(name: "Pet") { fields { name } } }`,
	`{ node { ... on Result { __typename } ... on Kind { x } ... on Filter { k } } x: q x: node { id } }`,
	`{ q @tag(name: "a") @only(on: true) @nope node @skip(if: $u) { id @deprecated } }`,
	`{ __type(name: "Q") { origin origin kind kind o: origin o: kind } __schema { types { origin { x } origin } } e8: node { ... on E8 { x y x } } }`,
	`{ q q node { id id } node { id } r: node { ... on HasResult { r { __typename } r { ... on Pet { id } } } } }`,
}

func c02Schema(c *explore.Ctx, s *explore.SubStats, in kitInput) {
	text := strings.Join(in.defs(), "\n")
	explore.Crumb(s.Name, text)
	s.Executions++
	bad := func(key, detail string) {
		c.Report(s, explore.Violation{Key: key, Input: explore.J(in), Rendered: strings.Join(in.defs()[len(gen.KitBase):], "\n"), Detail: detail})
	}
	var sch *ast.Schema
	var err error
	r := guarded(3_000_000, 5000, func() { sch, err = gqlparser.LoadSchema(&ast.Source{Name: "kit.graphql", Input: text}) })
	s.MaxOf("load_steps", r.Steps)
	if r.Panicked {
		if r.Budget {
			bad("budget load site="+r.Site, "LoadSchema: "+r.PanicVal)
		} else {
			bad("panic site="+r.Site+" msg="+normMsg(r.PanicVal), "LoadSchema panicked: "+r.PanicVal+"\n"+trimStack(r.Stack))
		}
		return
	}
	s.Validated++
	if (err == nil) == (sch == nil) {
		bad("load/schema-xor-error", fmt.Sprintf("LoadSchema returned schema=%v error=%v", sch != nil, err))
		return
	}
	if err != nil {
		s.Outcome("rejected")
		return
	}
	s.Nontrivial++
	s.Outcome("loaded")
	for _, q := range c02BlindDocs {
		doc, perr := parser.ParseQuery(&ast.Source{Name: "q", Input: q})
		if perr != nil {
			continue
		}
		s.Transitions++
		r := guarded(c02DocBudget, 5000, func() { _ = validator.Validate(sch, doc) })
		if r.Panicked {
			if r.Budget {
				bad("budget validate-on-kit-schema site="+r.Site, "Validate: "+r.PanicVal+" on "+q)
			} else {
				bad("panic site="+r.Site+" msg="+normMsg(r.PanicVal), "Validate panicked on "+q+": "+r.PanicVal+"\n"+trimStack(r.Stack))
			}
		}
	}
}

// c02FamBound: polynomial step bound for the validation families in the family parameter n
// (every family has Θ(n) definitions / selections / nesting levels). Measured on the
// unchanged tree the worst families are cubic (fragment fan-out and chains: ≈ 0.72·n³
// steps, 1.2·10⁷ at n = 256); the bound allows 20× that. Exponential behaviour (2ⁿ)
// exceeds it at n ≈ 24.
func c02FamBound(n int) int64 {
	x := int64(n)
	return 2_000_000 + 100_000*x + 15*x*x*x
}

// c02Family reports whether the case stayed within its bounds.
func c02Family(c *explore.Ctx, s *explore.SubStats, f *gen.Family, n int) (ok bool) {
	text := f.Make(n)
	rendered := fmt.Sprintf("family=%s n=%d bytes=%d", f.Name, n, len(text))
	explore.Crumb(s.Name, rendered)
	s.Executions++
	in := famInput{f.Name, n, 0}
	bad := func(key, detail string) {
		c.Report(s, explore.Violation{Key: key, Input: explore.J(in), Rendered: rendered, Detail: detail})
	}
	doc, perr := parser.ParseQuery(&ast.Source{Name: "q.graphql", Input: text})
	if perr != nil {
		s.Skipped++
		s.Outcome(f.Name + ":does-not-parse")
		return true
	}
	budget := c02FamBound(n)
	var errs gqlerror.List
	t0 := time.Now()
	// call depth: polynomial as well (measured worst: fragment cycles, ≈ n²/2 frames)
	r := guarded(budget, 10000+4*n*n, func() { errs = validator.Validate(kitSchema(0), doc) })
	s.Validated++
	s.MaxOf("steps_per_byte", r.Steps/int64(len(text)+1))
	s.MaxOf("wall_ms", time.Since(t0).Milliseconds())
	if os.Getenv("VERIF_DEBUG") != "" {
		fmt.Fprintf(os.Stderr, "FAM %s n=%d bytes=%d steps=%d depth=%d\n", f.Name, n, len(text), r.Steps, r.MaxDepth)
	}
	if r.Panicked {
		if r.Budget {
			kind := "budget"
			if strings.Contains(r.PanicVal, "call depth") {
				kind = "depth"
			}
			bad(kind+" family="+f.Name, fmt.Sprintf("Validate: %s on a %d-byte document (n=%d); polynomial bound %d steps", r.PanicVal, len(text), n, budget))
		} else {
			bad("panic site="+r.Site+" msg="+normMsg(r.PanicVal)+" family="+f.Name, "Validate panicked: "+r.PanicVal+"\n"+trimStack(r.Stack))
		}
		s.Outcome(f.Name + ":violation")
		return false
	}
	s.Nontrivial++
	s.Outcome(fmt.Sprintf("%s:errors=%v", f.Name, len(errs) > 0))
	s.Sample(func() any { return rendered })
	return true
}

func runC02(c *explore.Ctx) {
	s := c.Sub("profiles", fmt.Sprintf("every document of the %d validation-kit profiles (%d documents: field selections, overlapping fields, arguments, literal × expected-type matrix, variables, fragments incl. cycles / unknown / unused, directives, operations, introspection, missing roots) against the kit schemas", len(gen.ValidProfiles), profileDocCount()),
		"Validate returns normally (no panic, call depth < 5000, steps < 1.5·10⁶), also when the same tree is validated again, then against the other kit schema, then against the first again", "documents with at least one error")
	if s != nil {
		t0 := time.Now()
		forEachProfileDoc(c, s, "", func(d kitDoc) { s.Transitions++; c02Doc(c, s, d) })
		s.WallS = time.Since(t0).Seconds()
	}
	n := c.Pick(7, 11)
	s = c.Sub("type-blind", fmt.Sprintf("every sentence of ≤ %d tokens of the executable grammar G¹ with every assignment of %d schema and non-schema names to its ≤ 4 name positions (semantically nonsense documents)", n, len(kitVocab)),
		"as above", "documents with at least one error")
	if s != nil {
		t0 := time.Now()
		forEachBlindDoc(c, s, n, func(d kitDoc) { s.Transitions++; c02Doc(c, s, d) })
		s.WallS = time.Since(t0).Seconds()
	}
	// a schema loaded through validator.LoadSchema, which does not prepend the prelude: it declares its own scalars and
	// loads, but the introspection types the loader's __schema / __type fields and the walker's __typename name are absent
	nb := c.Pick(6, 8)
	s = c.Sub("no-prelude", fmt.Sprintf("a self-contained type system loaded by validator.LoadSchema (no prelude: no __Schema, __Type, no built-in directives) × every profile document and every G¹ sentence of ≤ %d tokens with every assignment of {__typename, __schema, __type, types, name, q, Query, String, F, nope} to its name positions", nb),
		"Validate returns normally (no panic, bounded steps and depth), twice", "documents with at least one error")
	if s != nil {
		t0 := time.Now()
		bare, lerr := validator.LoadSchema(&ast.Source{Name: "bare.graphql", Input: `scalar Int scalar Float scalar String scalar Boolean scalar ID
directive @include(if: Boolean!) on FIELD | FRAGMENT_SPREAD | INLINE_FRAGMENT
type Query { q(a: Int): Int node: Node pet: Pet types: [Pet] name: String search: Result }
interface Node { id: ID! }
type Pet implements Node { id: ID! name: String kind: Kind }
union Result = Pet
enum Kind { DOG CAT }`})
		if lerr != nil {
			c.Report(s, explore.Violation{Key: "load/no-prelude-schema-rejected", Input: explore.J(map[string]string{"err": lerr.Error()}), Rendered: lerr.Error(), Detail: "validator.LoadSchema rejects a self-contained type system: " + lerr.Error()})
		} else {
			visit := func(d kitDoc) {
				s.Transitions++
				s.Executions++
				explore.Crumb(s.Name, d.Doc)
				doc, perr := parser.ParseQuery(&ast.Source{Name: "q.graphql", Input: d.Doc})
				if perr != nil {
					s.Skipped++
					return
				}
				for round := 0; round < 2; round++ {
					var errs gqlerror.List
					r := guarded(c02DocBudget, 5000, func() { errs = validator.Validate(bare, doc) })
					if r.Panicked {
						key := "panic-no-prelude site=" + r.Site + " msg=" + normMsg(r.PanicVal)
						if r.Budget {
							key = "budget validate no-prelude site=" + r.Site
						}
						c.Report(s, explore.Violation{Key: key, Input: explore.J(d), Rendered: d.Doc, Detail: "Validate against a schema loaded without the prelude: " + r.PanicVal + "\n" + trimStack(r.Stack)})
						s.Outcome("panic")
						return
					}
					if round == 0 {
						s.Validated++
						if len(errs) == 0 {
							s.Outcome("valid")
						} else {
							s.Nontrivial++
							s.Outcome("invalid " + errs[0].Rule)
						}
					}
				}
			}
			forEachProfileDoc(c, s, "", visit)
			saved := kitVocab
			kitVocab = []string{"__typename", "__schema", "__type", "types", "name", "q", "Query", "String", "F", "nope"}
			forEachBlindDoc(c, s, nb, visit)
			kitVocab = saved
		}
		s.WallS = time.Since(t0).Seconds()
	}
	// after the process-wide rule set was edited through its public API
	s = c.Sub("after-rule-edits", fmt.Sprintf("after ReplaceRule of every standard rule by itself, of one rule by its without-suggestions variant, and after RemoveRule + AddRule of a rule: %d documents validated under the default rule set, against both kit schemas", len(c02BlindDocs)+len(regDocs)),
		"Validate returns normally (no panic, bounded steps and depth)", "documents with at least one error")
	if s != nil && c.Shard == 0 {
		t0 := time.Now()
		edits := []struct {
			name string
			do   func()
		}{
			{"ReplaceRule(every rule, itself)", func() {
				for _, r := range c18Standard {
					if !replaceRuleBounded(r.Name, r.RuleFunc) {
						break
					}
				}
			}},
			{"ReplaceRule(KnownTypeNames, itself)", func() { replaceRuleBounded("KnownTypeNames", rules.KnownTypeNamesRule.RuleFunc) }},
			{"ReplaceRule(FieldsOnCorrectType, without suggestions)", func() {
				replaceRuleBounded("FieldsOnCorrectType", rules.FieldsOnCorrectTypeRuleWithoutSuggestions.RuleFunc)
			}},
			{"ReplaceRule(unregistered name)", func() { replaceRuleBounded("NoSuchRule", rules.ScalarLeafsRule.RuleFunc) }},
			{"RemoveRule + AddRule(ScalarLeafs)", func() {
				validator.RemoveRule("ScalarLeafs")
				validator.AddRule("ScalarLeafs", rules.ScalarLeafsRule.RuleFunc)
			}},
		}
		docs := append(append([]string{}, c02BlindDocs...), regDocs...)
		for _, e := range edits {
			regReset()
			e.do()
			for si := 0; si < 2; si++ {
				for _, text := range docs {
					s.States++
					s.Executions++
					s.Transitions++
					doc, perr := parser.ParseQuery(&ast.Source{Name: "q.graphql", Input: text})
					if perr != nil {
						s.Skipped++
						continue
					}
					var errs gqlerror.List
					r := guarded(c02DocBudget, 5000, func() { errs = validator.Validate(kitSchema(si), doc) })
					if r.Panicked {
						c.Report(s, explore.Violation{Key: "panic-after-rule-edit site=" + r.Site + " msg=" + normMsg(r.PanicVal), Input: explore.J(map[string]any{"edit": e.name, "doc": text, "schema": si}), Rendered: e.name + "\n" + text,
							Detail: "Validate panicked under the default rule set after " + e.name + ": " + r.PanicVal + "\n" + trimStack(r.Stack)})
						s.Outcome("panic")
						continue
					}
					s.Validated++
					if len(errs) > 0 {
						s.Nontrivial++
					}
					s.Outcome("returns after " + e.name)
				}
			}
			regReset()
		}
		s.WallS = time.Since(t0).Seconds()
	}
	k := c.Pick(2, 3)
	s = c.Sub("schemas", fmt.Sprintf("every type system of the schema kit with ≤ %d menu items: loaded; when it loads, %d type-blind documents are validated against it", k, len(c02BlindDocs)),
		"LoadSchema returns normally with schema xor error within its step budget; Validate against every loaded schema returns normally", "type systems that load")
	if s != nil {
		t0 := time.Now()
		idx := 0
		explore.Subsets(len(gen.KitMenu), k, func(items []int) {
			idx++
			if idx%c.NShards != c.Shard || !s.Exhaustive {
				return
			}
			if idx&255 == 0 && c.Expired() {
				s.Cap("deadline")
				return
			}
			s.States++
			c02Schema(c, s, kitInput{Items: append([]int{}, items...)})
		})
		s.WallS = time.Since(t0).Seconds()
	}
	maxN := c.Pick(256, 1024)
	s = c.Sub("families", fmt.Sprintf("%d adversarial size families (fragment fan-out plain / under __schema / under a subscription / under overlapping fields, fragment cycles, chains, deep and wide selections, alias floods, wide arguments / variables / directives / operations, nested values) × n = 1, 2, 3, …, 24 and 2^k up to %d", len(gen.ValidFamilies), maxN),
		"Validate returns normally within the polynomial step bound 2·10⁶ + 10⁵·n + 15·n³ and call depth < 10⁴ + 4·n² (a worker killed by stack exhaustion is a crash violation)", "every case")
	if s != nil {
		t0 := time.Now()
		idx := 0
		for fi := range gen.ValidFamilies {
			f := &gen.ValidFamilies[fi]
			var ns []int
			for n := 1; n <= 24; n++ {
				ns = append(ns, n)
			}
			for n := 32; n <= maxN; n *= 2 {
				ns = append(ns, n)
			}
			reported := false
			for _, n := range ns {
				idx++
				if idx%c.NShards != c.Shard {
					continue
				}
				if c.Expired() {
					s.Cap("deadline")
					break
				}
				if reported {
					// the cost of a family grows with n, and a case that exceeds its bound runs until the bound
					// (15·n³ steps) is used up: the larger members of a family this worker has reported are left out
					s.Skipped++
					continue
				}
				s.States++
				s.Transitions++
				if !c02Family(c, s, f, n) && n >= 24 {
					reported = true
				}
			}
		}
		s.WallS = time.Since(t0).Seconds()
	}
	maxS := c.Pick(64, 256)
	s = c.Sub("schema-families", fmt.Sprintf("%d size families of type systems (layered interface hierarchies, interface cliques and chains, input-object chains, wide unions, extension floods) × n = 1 … 16 and 2^k up to %d, loaded", len(gen.SchemaFamilies), maxS),
		"LoadSchema returns normally (schema or error) within the polynomial step bound 10⁶ + 2·10⁵·n + 600·n³ and call depth < 2000 + 40·n", "every case")
	if s != nil {
		t0 := time.Now()
		idx := 0
		for fi := range gen.SchemaFamilies {
			f := &gen.SchemaFamilies[fi]
			var ns []int
			for n := 1; n <= 16; n++ {
				ns = append(ns, n)
			}
			for n := 32; n <= maxS; n *= 2 {
				ns = append(ns, n)
			}
			for _, n := range ns {
				idx++
				if idx%c.NShards != c.Shard {
					continue
				}
				if c.Expired() {
					s.Cap("deadline")
					break
				}
				s.States++
				s.Transitions++
				c02SchemaFamily(c, s, f, n)
			}
		}
		s.WallS = time.Since(t0).Seconds()
	}
}

func c02SchemaFamBound(n int) int64 {
	return 1_000_000 + 200_000*int64(n) + 600*int64(n)*int64(n)*int64(n)
}

func c02SchemaFamily(c *explore.Ctx, s *explore.SubStats, f *gen.Family, n int) {
	text := f.Make(n)
	rendered := fmt.Sprintf("schema family=%s n=%d bytes=%d", f.Name, n, len(text))
	explore.Crumb(s.Name, rendered)
	s.Executions++
	in := famInput{"schema:" + f.Name, n, 0}
	var err error
	r := guarded(c02SchemaFamBound(n), 2000+40*n, func() { _, err = gqlparser.LoadSchema(&ast.Source{Name: "fam.graphql", Input: text}) })
	s.Validated++
	s.MaxOf("steps_per_n3_x100", r.Steps*100/int64(n*n*n+1))
	s.MaxOf("depth", int64(r.MaxDepth))
	if r.Panicked {
		if r.Budget {
			c.Report(s, explore.Violation{Key: "budget schema-family=" + f.Name, Input: explore.J(in), Rendered: rendered, Detail: fmt.Sprintf("LoadSchema: %s; bound %d steps, depth %d for n=%d (%d bytes)", r.PanicVal, c02SchemaFamBound(n), 2000+40*n, n, len(text))})
		} else {
			c.Report(s, explore.Violation{Key: "panic site=" + r.Site + " msg=" + normMsg(r.PanicVal), Input: explore.J(in), Rendered: rendered, Detail: r.PanicVal + "\n" + trimStack(r.Stack)})
		}
		return
	}
	o := "loaded"
	if err != nil {
		o = "rejected"
	}
	s.Outcome(f.Name + ":" + o)
	s.Nontrivial++
	s.Sample(func() any { return rendered })
}
