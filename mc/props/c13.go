package props

import (
	"bytes"
	"encoding/json"
	"fmt"
	"regexp"
	"strings"
	"time"

	gqlparser "github.com/vektah/gqlparser/v2"
	"github.com/vektah/gqlparser/v2/ast"
	"github.com/vektah/gqlparser/v2/formatter"
	"github.com/vektah/gqlparser/v2/parser"
	"github.com/vektah/gqlparser/v2/validator"
	"github.com/vektah/gqlparser/v2/verifhook"

	"verif/mc/explore"
	"verif/mc/gen"
)

// C13: formatting a schema (document or loaded) and loading it back preserves it.

func init() {
	register(&Prop{ID: "C13", Run: runC13, Replay: func(c *explore.Ctx, s *explore.SubStats, v explore.Violation) {
		var in c13Input
		if json.Unmarshal(v.Input, &in) == nil {
			if in.Loaded {
				c13Loaded(c, s, in.Text, []sfmtCfg{in.Cfg})
			} else {
				c13Doc(c, s, in.Text, []sfmtCfg{in.Cfg})
			}
		}
	}, Assumptions: []string{
		"schema documents are obtained by parsing enumerated texts with the real parser, loaded schemas by loading enumerated type systems with the real loader (C06 / C07 decide those)",
		"document round trip: the formatter prints all schema definitions as one block and all schema extensions as one block, so those are compared merged (directives and root operation types concatenated); everything else through the canonical projection, descriptions included unless switched off",
		"loaded-schema round trip: the canonical order-insensitive dump of C17 (types, fields, arguments, defaults, directive uses, relations, roots, descriptions); with WithBuiltin the text contains the built-in definitions and is therefore loaded without the prelude as a built-in source, and the built-in flag is not compared",
		"formatter configurations: indent ∈ {tab, empty, two spaces, space+tab} × comments × compacted × builtin × without-description (all 64)",
	}})
}

type sfmtCfg struct {
	Indent    string `json:"indent"`
	Comments  bool   `json:"comments"`
	Compacted bool   `json:"compacted"`
	Builtin   bool   `json:"builtin"`
	NoDesc    bool   `json:"without_description"`
}

func (f sfmtCfg) opts() []formatter.FormatterOption {
	o := []formatter.FormatterOption{formatter.WithIndent(f.Indent)}
	if f.Comments {
		o = append(o, formatter.WithComments())
	}
	if f.Compacted {
		o = append(o, formatter.WithCompacted())
	}
	if f.Builtin {
		o = append(o, formatter.WithBuiltin())
	}
	if f.NoDesc {
		o = append(o, formatter.WithoutDescription())
	}
	return o
}

func (f sfmtCfg) String() string {
	return fmt.Sprintf("indent=%q comments=%v compacted=%v builtin=%v nodesc=%v", f.Indent, f.Comments, f.Compacted, f.Builtin, f.NoDesc)
}

var allSfmtCfgs = func() []sfmtCfg {
	var out []sfmtCfg
	for _, ind := range []string{"\t", "", "  ", " \t"} {
		for m := 0; m < 16; m++ {
			out = append(out, sfmtCfg{ind, m&1 != 0, m&2 != 0, m&4 != 0, m&8 != 0})
		}
	}
	return out
}()

type c13Input struct {
	Text   string  `json:"text"`
	Cfg    sfmtCfg `json:"cfg"`
	Loaded bool    `json:"loaded"`
}

var descRe = regexp.MustCompile(`\{"(?:[^"\\]|\\.)*" `)
var descRe2 = regexp.MustCompile(`(def|ext)\{([A-Z_]+) "(?:[^"\\]|\\.)*" `)

// projSDLMerged: canonical projection with schema definitions / extensions merged and,
// optionally, descriptions blanked.
func projSDLMerged(d *ast.SchemaDocument, noDesc bool) string {
	cp := *d
	merge := func(l ast.SchemaDefinitionList) ast.SchemaDefinitionList {
		if len(l) == 0 {
			return nil
		}
		m := &ast.SchemaDefinition{}
		for _, x := range l {
			m.Description += x.Description
			m.Directives = append(m.Directives, x.Directives...)
			m.OperationTypes = append(m.OperationTypes, x.OperationTypes...)
		}
		return ast.SchemaDefinitionList{m}
	}
	cp.Schema = merge(d.Schema)
	cp.SchemaExtension = merge(d.SchemaExtension)
	p := projSDL(&cp)
	if noDesc {
		p = descRe2.ReplaceAllString(p, `$1{$2 "" `)
		p = descRe.ReplaceAllString(p, `{"" `)
	}
	return p
}

func formatSchemaDoc(d *ast.SchemaDocument, cfg sfmtCfg) string {
	var b bytes.Buffer
	formatter.NewFormatter(&b, cfg.opts()...).FormatSchemaDocument(d)
	return b.String()
}

func formatSchema(s *ast.Schema, cfg sfmtCfg) string {
	var b bytes.Buffer
	formatter.NewFormatter(&b, cfg.opts()...).FormatSchema(s)
	return b.String()
}

func c13Doc(c *explore.Ctx, s *explore.SubStats, text string, cfgs []sfmtCfg) {
	explore.Crumb(s.Name, text)
	d, err := parser.ParseSchema(&ast.Source{Input: text, Name: "in"})
	if err != nil {
		s.Skipped++
		return
	}
	for _, cfg := range cfgs {
		s.Executions++
		s.Transitions++
		in := c13Input{text, cfg, false}
		bad := func(key, detail, exp, obs string) {
			c.Report(s, explore.Violation{Key: key, Input: explore.J(in), Rendered: text + "   [" + cfg.String() + "]", Detail: detail, Expected: exp, Observed: obs})
		}
		cc := "cfg=" + cfgClass(cfg)
		p0 := normStr(projSDLMerged(d, cfg.NoDesc))
		var out string
		r := guarded(0, 0, func() { out = formatSchemaDoc(d, cfg) })
		if r.Panicked {
			bad("sfmt/panic site="+r.Site, r.PanicVal+"\n"+trimStack(r.Stack), "", "")
			continue
		}
		s.Validated++
		d2, err := parser.ParseSchema(&ast.Source{Input: out, Name: "formatted"})
		if err != nil {
			bad("sfmt/reparse-error "+cc+" msg="+normMsg(err.Error()), fmt.Sprintf("formatted schema document does not parse: %v\n--- formatted:\n%s", err, out), "parses", err.Error())
			s.Outcome("reparse-error")
			continue
		}
		if p2 := normStr(projSDLMerged(d2, cfg.NoDesc)); p2 != p0 {
			bad("sfmt/projection "+cc+" node="+treeClass(p0, p2), "the re-parsed schema document differs from the original\n--- formatted:\n"+out, p0, p2)
			s.Outcome("differs")
			continue
		}
		var out2 string
		r = guarded(0, 0, func() { out2 = formatSchemaDoc(d2, cfg) })
		if !r.Panicked && out2 != out {
			key := "sfmt/fixpoint " + cc
			if cfg.NoDesc && strings.ReplaceAll(out, ",", "") == strings.ReplaceAll(out2, ",", "") && descArgRe.MatchString(p0full(d)) {
				key = "sfmt/fixpoint described-argument-comma without-description"
			}
			bad(key, "formatting the re-parsed schema document gives a different text", out, out2)
			s.Outcome("not-fixpoint")
			continue
		}
		s.Outcome("ok")
	}
	s.Nontrivial++
	s.Sample(func() any { return text })
}

// cfgClass: only the option that changes how the text is loaded back enters cause keys.
func cfgClass(c sfmtCfg) string {
	if c.Builtin {
		return "builtin"
	}
	return "plain"
}

var builtinFlagRe = regexp.MustCompile(` builtin=(true|false) `)
var dumpDescRe = regexp.MustCompile(`desc="(?:[^"\\]|\\.)*"`)
var dumpFieldDescRe = regexp.MustCompile(` "(?:[^"\\]|\\.)*"([,;}\)])`)

func c13Loaded(c *explore.Ctx, s *explore.SubStats, text string, cfgs []sfmtCfg) {
	explore.Crumb(s.Name, text)
	sch, err := gqlparser.LoadSchema(&ast.Source{Input: text, Name: "in.graphql"})
	if err != nil {
		s.Skipped++
		return
	}
	dump0 := schemaDump(sch)
	for _, cfg := range cfgs {
		s.Executions++
		s.Transitions++
		in := c13Input{text, cfg, true}
		bad := func(key, detail, exp, obs string) {
			c.Report(s, explore.Violation{Key: key, Input: explore.J(in), Rendered: text + "   [" + cfg.String() + "]", Detail: detail, Expected: exp, Observed: obs})
		}
		cc := "cfg=" + cfgClass(cfg)
		var out string
		r := guarded(0, 0, func() { out = formatSchema(sch, cfg) })
		if r.Panicked {
			bad("sfmt/panic site="+r.Site, r.PanicVal+"\n"+trimStack(r.Stack), "", "")
			continue
		}
		s.Validated++
		// the text must not depend on map iteration order (the formatter collects type and
		// directive names from maps): descending and rotated key orders give the same text
		for _, pol := range []int{1, 3} {
			verifhook.OrderPolicy = pol
			var alt string
			ra := guarded(0, 0, func() { alt = formatSchema(sch, cfg) })
			verifhook.OrderPolicy = 0
			if !ra.Panicked && alt != out {
				bad("sfmt/map-order "+cc, fmt.Sprintf("FormatSchema prints a different text under another map iteration order (policy %d)", pol), out, alt)
				break
			}
		}
		load := func(t string) (*ast.Schema, error) {
			if cfg.Builtin {
				return validator.LoadSchema(&ast.Source{Input: t, Name: "formatted.graphql", BuiltIn: true})
			}
			return gqlparser.LoadSchema(&ast.Source{Input: t, Name: "formatted.graphql"})
		}
		norm := func(d string) string {
			d = normStr(d)
			if cfg.Builtin {
				d = builtinFlagRe.ReplaceAllString(d, " ")
			}
			if cfg.NoDesc {
				d = dumpDescRe.ReplaceAllString(d, `desc=""`)
				d = dumpFieldDescRe.ReplaceAllString(d, ` ""$1`)
			}
			return d
		}
		sch2, err := load(out)
		if err != nil {
			key := "sfmt/reload-error " + cc + " msg=" + normMsg(err.Error())
			if cfg.Builtin && (strings.Contains(err.Error(), `Name "__schema" must not begin with`) || strings.Contains(err.Error(), `Name "__type" must not begin with`)) {
				key = "sfmt/reload-error builtin-output-not-loadable"
			}
			bad(key, fmt.Sprintf("formatted schema does not load: %v\n--- formatted:\n%s", err, out), "loads", err.Error())
			s.Outcome("reload-error")
			continue
		}
		if a, b := norm(dump0), norm(schemaDump(sch2)); a != b {
			key := "sfmt/schema " + cc + " " + firstDiffLine(a, b)
			a2, b2 := schemaDescRe.ReplaceAllString(a, `${1}desc=""`), schemaDescRe.ReplaceAllString(b, `${1}desc=""`)
			if a2 == b2 {
				key = "sfmt/schema schema-description-lost"
			} else if onlyBuiltinLinesDiffer(a, b) {
				key = "sfmt/schema extension-of-built-in-type-not-printed"
			} else if onlyBuiltinLinesDiffer(a2, b2) {
				// both recorded findings at once (a described schema and an extended built-in type)
				bad("sfmt/schema schema-description-lost", "the re-loaded schema differs from the original\n--- formatted:\n"+out, a, b)
				key = "sfmt/schema extension-of-built-in-type-not-printed"
			}
			bad(key, "the re-loaded schema differs from the original\n--- formatted:\n"+out, a, b)
			s.Outcome("differs")
			continue
		}
		var out2 string
		r = guarded(0, 0, func() { out2 = formatSchema(sch2, cfg) })
		if !r.Panicked && out2 != out {
			key := "sfmt/fixpoint " + cc
			if cfg.NoDesc && strings.ReplaceAll(out, ",", "") == strings.ReplaceAll(out2, ",", "") {
				key = "sfmt/fixpoint described-argument-comma without-description"
			}
			bad(key, "formatting the re-loaded schema gives a different text", out, out2)
			s.Outcome("not-fixpoint")
			continue
		}
		s.Outcome("ok")
	}
	s.Nontrivial++
	s.Sample(func() any { return text })
}

var descArgRe = regexp.MustCompile(`argdef\{"[^"]`)
var schemaDescRe = regexp.MustCompile(`(?m)^(roots [^\n]*?)desc="(?:[^"\\]|\\.)*"`)

func p0full(d *ast.SchemaDocument) string { return projSDLMerged(d, false) }

// onlyBuiltinLinesDiffer: the dumps differ only in lines of built-in types.
func onlyBuiltinLinesDiffer(a, b string) bool {
	al, bl := strings.Split(a, "\n"), strings.Split(b, "\n")
	if len(al) != len(bl) {
		return false
	}
	diff := false
	for i := range al {
		if al[i] != bl[i] {
			if !strings.Contains(al[i], " builtin=true ") {
				return false
			}
			diff = true
		}
	}
	return diff
}

// description values placed on every describable element
var c13Descs = []string{"plain", "multi\nline", `say "hi"`, `ends with quote"`, `back\slash`, `has """ triple`, "  leading", "trailing  ", "\nleading newline", "trailing newline\n",
	"tab\there", "é😀", `\"""`, "a\n  indented\n    more", `""`, "#not a comment", "a\n  \nb", "a\n\t\nb", "code:\n    x\n    \n    y", "a\n\nb", "x\\", "np\U000e0001\u00ad\u2028", "\U0010fffd\"", "\u3000Overview", "\u00a0a\n\u00a0b", "\u2003x\n\u2003\u2003y", " a\n\n b", "\ta\n\n\tb\n\n\tc", "  code\n\n  more",
	// carriage returns (written as \r escapes): a block string would turn them into line feeds
	"a\rb", "a\r\nb", "a\r", "\ra\n b"}

// c13Described: a valid type system in which slot k carries the description; %d slots.
var c13DescTemplate = []string{
	`§ schema @tag(name: "s") { query: Q mutation: Mutation }`,
	`§ type Q implements I { § f(§ a: Int = 1 @tag(name: "a"), b: In): [Q!]! @tag(name: "f") g: Sc u: U e: E }`,
	`§ type Mutation { m: Int }`,
	`type Subscription { notARoot: Int }`,
	`§ interface I { § f(§ a: Int = 1, b: In): [I!]! }`,
	`§ union U @tag(name: "u") = Q | Mutation`,
	`§ enum E { § A @deprecated(reason: "r") § B }`,
	`§ input In @tag(name: "i") { § x: Int = 1 @tag(name: "x") § y: [In!] = [{x: 2}] }`,
	`§ scalar Sc @specifiedBy(url: "u")`,
	`§ directive @tag(§ name: String!, § opt: [Int] = [1, 2]) repeatable on SCHEMA | OBJECT | FIELD_DEFINITION | ARGUMENT_DEFINITION | UNION | INPUT_OBJECT | INPUT_FIELD_DEFINITION | ENUM_VALUE`,
	`extend type Q @tag(name: "ext") { § h: Int }`,
}

func c13DescSchema(slot int, desc string) (string, int) {
	text := strings.Join(c13DescTemplate, "\n")
	n := strings.Count(text, "§")
	i := 0
	var b strings.Builder
	for _, r := range text {
		if r == '§' {
			if i == slot {
				b.WriteString(gqlQuote(desc))
			}
			i++
			continue
		}
		b.WriteRune(r)
	}
	return b.String(), n
}

// default values (and directive argument values) written as quoted and block strings
var c13DefaultLits = []string{"\"np\U000e0001\u00ad\"", "[\"\U0010fffd\", {k: \"\u2028\U000e0001\"}]", `"x"`, `"""one line"""`, "\"\"\"first\n  second\n  third\"\"\"", "\"\"\"\n  a\n    b\n  c\n\"\"\"", `"""ends with backslash\\"""`, `"""has \\""" inside"""`, "\"\"\"tab\there\"\"\"",
	"[\"\"\"a\n b\"\"\", \"c\"]", "{k: \"\"\"x\n  y\"\"\"}", `"""  leading"""`, `""" """`, "\"\"\"é😀\n  é\"\"\"",
	"\"\"\"\n  a\n    b\n    c\n\"\"\"", "\"\"\"\n x\n   y\"\"\"", "\"\"\"\n\ta\n\t\tb\\\\\"\"\"", "{k: [\"\"\"\n  p\n    q\n\"\"\"]}",
	// values that are easily taken for "no value": null, empty list / object, null inside them
	`null`, `[]`, `{}`, `[null]`, `{k: null}`, `[[], {}]`}

const c13DefaultTemplate = `scalar Any
input In { x: String = § any: Any = § }
directive @d(a: String = §, any: Any) repeatable on FIELD_DEFINITION | OBJECT | ARGUMENT_DEFINITION
type Query @d(any: §) { f(a: String = § @d(any: §), any: Any = §): Int @d(any: §) }
`

func runC13(c *explore.Ctx) {
	// (a) schema documents
	n := c.Pick(5, 7)
	s := c.Sub("documents", fmt.Sprintf("every sentence of ≤ %d tokens of the type-system grammar (core alphabet) and the profile documents (plain and with a comment at every gap) × all 64 formatter configurations", n),
		"parse(format(d)) succeeds; projection equal (descriptions unless switched off; schema blocks merged); format(parse(format(d))) = format(d)", "every document")
	if s != nil {
		t0 := time.Now()
		ss := language(sdlSide, sdlSide.grammar(), "core", sdlSide.core, n, false)
		for i, se := range ss {
			if i%c.NShards != c.Shard {
				continue
			}
			if i&31 == 0 && c.Expired() {
				s.Cap("deadline")
				break
			}
			s.States++
			c13Doc(c, s, renderClasses(sdlSide.core, se.Classes, " "), allSfmtCfgs)
		}
		idx := 0
		for _, doc := range gen.SDLProfiles {
			toks := tokenTextsNoComments(doc)
			for gpos := -1; gpos <= len(toks); gpos++ {
				idx++
				if idx%c.NShards != c.Shard {
					continue
				}
				s.States++
				if gpos < 0 {
					c13Doc(c, s, strings.Join(toks, " "), allSfmtCfgs)
				} else {
					c13Doc(c, s, renderGapsSep(toks, map[int]string{gpos: " # c é\n"}), allSfmtCfgs)
				}
			}
		}
		s.WallS = time.Since(t0).Seconds()
	}

	// (b) loaded schemas from the kit
	k := c.Pick(1, 2)
	s = c.Sub("loaded-kit", fmt.Sprintf("every type system of the schema kit (base + ≤ %d menu items) that loads × all 64 configurations (custom root names, types named like default roots that are not roots, schema directives, repeatable directives, extensions of built-ins)", k),
		"FormatSchema output loads; the re-loaded schema has the same canonical dump (types, fields, arguments, defaults, directives, relations, roots, descriptions); formatting it again reproduces the text", "every schema")
	if s != nil {
		t0 := time.Now()
		idx := 0
		explore.Subsets(len(gen.KitMenu), k, func(items []int) {
			idx++
			if idx%c.NShards != c.Shard || !s.Exhaustive {
				return
			}
			if c.Expired() {
				s.Cap("deadline")
				return
			}
			s.States++
			c13Loaded(c, s, strings.Join(kitInput{Items: items}.defs(), "\n"), allSfmtCfgs)
		})
		s.WallS = time.Since(t0).Seconds()
	}

	// (d) default values and directive arguments written as (block) strings
	s = c.Sub("default-values", fmt.Sprintf("a type system with string-typed and custom-scalar defaults on an argument, an input field and a directive argument, and directive argument values on a type, a field and an argument; each of the 8 slots × each of %d literals (quoted strings, single- and multi-line block strings with hanging indentation, trailing backslash, escaped triple quote, nested in lists and objects) × all 64 configurations", len(c13DefaultLits)),
		"as loaded-kit and the document round trip (a block string and a quoted string of equal value are the same value)", "every case")
	if s != nil {
		t0 := time.Now()
		n := strings.Count(c13DefaultTemplate, "§")
		idx := 0
		for slot := 0; slot < n; slot++ {
			for _, lit := range c13DefaultLits {
				idx++
				if idx%c.NShards != c.Shard {
					continue
				}
				// string-typed slots only take string literals
				i := 0
				var b strings.Builder
				ok := true
				for _, r := range c13DefaultTemplate {
					if r == '§' {
						if i == slot {
							b.WriteString(lit)
						} else {
							b.WriteString(`"k"`)
						}
						i++
						continue
					}
					b.WriteRune(r)
				}
				if !ok {
					continue
				}
				s.States++
				c13Loaded(c, s, b.String(), allSfmtCfgs)
				c13Doc(c, s, b.String(), allSfmtCfgs)
			}
		}
		s.WallS = time.Since(t0).Seconds()
	}

	// (e) root operation types and types that merely carry a default root name
	s = c.Sub("root-names", "every choice of root operation types (query named Query or Q; mutation / subscription absent, default-named or custom-named; roots declared by a schema block or left to inference) × for every default root name that is not taken by a root: no such type, or a type of that name of each of the 6 kinds × formatter configurations (quick: 16, thorough: all 64)",
		"as loaded-kit: the formatted schema loads into a schema with the same roots and types", "type systems that load")
	if s != nil {
		t0 := time.Now()
		cfgs := allSfmtCfgs
		if !c.Thorough() {
			cfgs = nil
			for _, cf := range allSfmtCfgs {
				if cf.Indent == "\t" {
					cfgs = append(cfgs, cf)
				}
			}
			if len(cfgs) == 0 {
				cfgs = allSfmtCfgs
			}
		}
		extraKinds := []string{"", "type %s { x: Int }", "enum %s { A }", "scalar %s", "input %s { x: Int }", "interface %s { x: Int }", "union %s = %s"}
		idx := 0
		for _, q := range []string{"Query", "Q"} {
			for _, m := range []string{"", "Mutation", "M"} {
				for _, sub := range []string{"", "Subscription", "S"} {
					for _, explicit := range []bool{true, false} {
						var free []string
						for _, n := range []string{"Query", "Mutation", "Subscription"} {
							if n != q && n != m && n != sub {
								free = append(free, n)
							}
						}
						total := 1
						for range free {
							total *= len(extraKinds)
						}
						for code := 0; code < total; code++ {
							idx++
							if idx%c.NShards != c.Shard {
								continue
							}
							var b strings.Builder
							if explicit {
								b.WriteString("schema { query: " + q)
								if m != "" {
									b.WriteString(" mutation: " + m)
								}
								if sub != "" {
									b.WriteString(" subscription: " + sub)
								}
								b.WriteString(" }\n")
							}
							b.WriteString("type " + q + " { a: Int }\n")
							if m != "" {
								b.WriteString("type " + m + " { m: Int }\n")
							}
							if sub != "" {
								b.WriteString("type " + sub + " { s: Int }\n")
							}
							cd := code
							for _, n := range free {
								k := extraKinds[cd%len(extraKinds)]
								cd /= len(extraKinds)
								if k == "" {
									continue
								}
								if strings.Count(k, "%s") == 2 {
									b.WriteString(fmt.Sprintf(k, n, q) + "\n")
								} else {
									b.WriteString(fmt.Sprintf(k, n) + "\n")
								}
							}
							s.States++
							c13Loaded(c, s, b.String(), cfgs)
						}
					}
				}
			}
		}
		s.WallS = time.Since(t0).Seconds()
	}

	// (c) descriptions
	_, slots := c13DescSchema(-1, "")
	s = c.Sub("descriptions", fmt.Sprintf("a type system using every definition kind with custom roots, a type named Subscription that is not a root, schema / repeatable directives, defaults; each of %d describable elements (schema, types, fields, arguments, enum values, input fields, directive, directive arguments, extension field) × each of %d description values (quotes, trailing quote, backslash, triple quotes, leading / trailing blanks and newlines, indentation, tab, non-BMP, '#') × all 64 configurations", slots, len(c13Descs)),
		"as loaded-kit, and the document round trip of the same text", "every case")
	if s != nil {
		t0 := time.Now()
		idx := 0
		for slot := -1; slot < slots; slot++ {
			for di, d := range c13Descs {
				if slot < 0 && di > 0 {
					continue
				}
				idx++
				if idx%c.NShards != c.Shard {
					continue
				}
				s.States++
				text, _ := c13DescSchema(slot, d)
				c13Loaded(c, s, text, allSfmtCfgs)
				c13Doc(c, s, text, allSfmtCfgs)
			}
		}
		s.WallS = time.Since(t0).Seconds()
	}
}
