// Package refvalid is the reference semantics of GraphQL document validation
// (specification October 2021 §5, plus the introspection depth limit and root type
// existence, DESIGN.md Appendix A.1). It is written from the specification's formal
// algorithms (FieldsInSetCanMerge, SameResponseShape, IsVariableUsageAllowed,
// CollectFields …) as plain recursive functions: no walker, no observers, no memo tables.
// It reads only syntactic fields of a freshly parsed document (names, aliases, arguments,
// raw values, selection sets, type conditions, variable definitions) and structural
// fields of the schema (kinds, fields, arguments, types, defaults, members, interfaces,
// directive definitions) — never the links or relations the library computes.
package refvalid

import (
	"fmt"
	"sort"
	"strconv"
	"strings"

	"github.com/vektah/gqlparser/v2/ast"
)

type Result struct {
	Broken    map[string][]string // spec rule → instances
	Undecided []string
}

func (r *Result) Valid() bool { return len(r.Broken) == 0 }

func (r *Result) Rules() []string {
	var out []string
	for k := range r.Broken {
		out = append(out, k)
	}
	sort.Strings(out)
	return out
}

type checker struct {
	s     *ast.Schema
	doc   *ast.QueryDocument
	res   *Result
	frags map[string]*ast.FragmentDefinition
}

func (c *checker) bad(rule, f string, a ...any) {
	c.res.Broken[rule] = append(c.res.Broken[rule], fmt.Sprintf(f, a...))
}
func (c *checker) undecided(what string) { c.res.Undecided = append(c.res.Undecided, what) }

func Validate(s *ast.Schema, doc *ast.QueryDocument) *Result {
	c := &checker{s: s, doc: doc, res: &Result{Broken: map[string][]string{}}, frags: map[string]*ast.FragmentDefinition{}}
	for _, f := range doc.Fragments {
		if _, dup := c.frags[f.Name]; dup {
			c.bad("UniqueFragmentNames", "fragment %s", f.Name)
			continue
		}
		c.frags[f.Name] = f
		if len(f.VariableDefinition) > 0 {
			c.undecided("fragment variable definitions")
		}
	}
	c.operations()
	for _, op := range doc.Operations {
		root := c.root(op.Operation)
		c.directives(op.Directives, ast.DirectiveLocation(strings.ToUpper(string(op.Operation))), op)
		c.variableDefs(op)
		if root != nil {
			c.selectionSet(op.SelectionSet, root, op)
			c.merge(c.collect(op.SelectionSet, root, map[string]bool{}))
		} else {
			c.selectionSet(op.SelectionSet, nil, op)
		}
		c.variableUses(op)
		if op.Operation == ast.Subscription && root != nil {
			c.subscription(op, root)
		}
	}
	for _, f := range doc.Fragments {
		c.directives(f.Directives, ast.LocationFragmentDefinition, nil)
		td := c.typeCondition(f.TypeCondition, "fragment "+f.Name)
		c.selectionSet(f.SelectionSet, td, nil)
		if td != nil {
			c.merge(c.collect(f.SelectionSet, td, map[string]bool{f.Name: true}))
		}
	}
	c.fragmentGraph()
	c.introspectionDepth()
	return c.res
}

// ---- schema helpers ------------------------------------------------------------------------

func (c *checker) def(name string) *ast.Definition { return c.s.Types[name] }

func (c *checker) root(op ast.Operation) *ast.Definition {
	switch op {
	case ast.Query:
		return c.s.Query
	case ast.Mutation:
		return c.s.Mutation
	case ast.Subscription:
		return c.s.Subscription
	}
	return nil
}

func composite(d *ast.Definition) bool {
	return d != nil && (d.Kind == ast.Object || d.Kind == ast.Interface || d.Kind == ast.Union)
}
func leaf(d *ast.Definition) bool { return d != nil && (d.Kind == ast.Scalar || d.Kind == ast.Enum) }
func inputType(d *ast.Definition) bool {
	return d != nil && (d.Kind == ast.Scalar || d.Kind == ast.Enum || d.Kind == ast.InputObject)
}

// possible object types of a composite type, computed from the definitions.
func (c *checker) possible(d *ast.Definition) map[string]bool {
	out := map[string]bool{}
	switch d.Kind {
	case ast.Object:
		out[d.Name] = true
	case ast.Union:
		for _, m := range d.Types {
			out[m] = true
		}
	case ast.Interface:
		for _, t := range c.s.Types {
			if t.Kind == ast.Object {
				for _, i := range t.Interfaces {
					if i == d.Name {
						out[t.Name] = true
					}
				}
			}
		}
	}
	return out
}

func (c *checker) fieldDef(parent *ast.Definition, name string) *ast.FieldDefinition {
	if parent == nil {
		return nil
	}
	if name == "__typename" && composite(parent) {
		return &ast.FieldDefinition{Name: "__typename", Type: ast.NonNullNamedType("String", nil)}
	}
	if parent == c.s.Query && parent != nil {
		switch name {
		case "__schema":
			return &ast.FieldDefinition{Name: name, Type: ast.NonNullNamedType("__Schema", nil)}
		case "__type":
			return &ast.FieldDefinition{Name: name, Type: ast.NamedType("__Type", nil),
				Arguments: ast.ArgumentDefinitionList{{Name: "name", Type: ast.NonNullNamedType("String", nil)}}}
		}
	}
	if parent.Kind != ast.Object && parent.Kind != ast.Interface {
		return nil
	}
	for _, f := range parent.Fields {
		if f.Name == name && !strings.HasPrefix(name, "__") {
			return f
		}
	}
	return nil
}

// ---- operations ---------------------------------------------------------------------------

func (c *checker) operations() {
	names := map[string]int{}
	anon := 0
	for _, op := range c.doc.Operations {
		if op.Name == "" {
			anon++
		} else {
			names[op.Name]++
		}
		if c.root(op.Operation) == nil {
			c.bad("KnownRootType", "%s operation but the schema has no such root", op.Operation)
		}
	}
	for n, k := range names {
		if k > 1 {
			c.bad("UniqueOperationNames", "operation %s ×%d", n, k)
		}
	}
	if anon > 0 && len(c.doc.Operations) > 1 {
		c.bad("LoneAnonymousOperation", "%d anonymous among %d operations", anon, len(c.doc.Operations))
	}
}

func (c *checker) subscription(op *ast.OperationDefinition, root *ast.Definition) {
	keys := map[string]bool{}
	var order []string
	var collect func(ss ast.SelectionSet, visited map[string]bool)
	collect = func(ss ast.SelectionSet, visited map[string]bool) {
		for _, sel := range ss {
			switch x := sel.(type) {
			case *ast.Field:
				if hasSkipInclude(x.Directives) {
					c.undecided("@skip/@include on a subscription root selection")
				}
				if !keys[x.Alias] {
					keys[x.Alias] = true
					order = append(order, x.Alias+"="+x.Name)
				}
			case *ast.InlineFragment:
				if hasSkipInclude(x.Directives) {
					c.undecided("@skip/@include on a subscription root selection")
				}
				if x.TypeCondition == "" || c.applies(root, c.def(x.TypeCondition)) {
					collect(x.SelectionSet, visited)
				}
			case *ast.FragmentSpread:
				if hasSkipInclude(x.Directives) {
					c.undecided("@skip/@include on a subscription root selection")
				}
				if visited[x.Name] {
					continue
				}
				visited[x.Name] = true
				if f := c.frags[x.Name]; f != nil && c.applies(root, c.def(f.TypeCondition)) {
					collect(f.SelectionSet, visited)
				}
			}
		}
	}
	collect(op.SelectionSet, map[string]bool{})
	if len(order) != 1 {
		c.bad("SingleFieldSubscriptions", "subscription %q selects %d root fields", op.Name, len(order))
		return
	}
	if name := strings.SplitN(order[0], "=", 2)[1]; strings.HasPrefix(name, "__") {
		c.bad("SingleFieldSubscriptions", "subscription %q selects the introspection field %s", op.Name, name)
	}
}

func hasSkipInclude(ds ast.DirectiveList) bool {
	for _, d := range ds {
		if d.Name == "skip" || d.Name == "include" {
			return true
		}
	}
	return false
}

// DoesFragmentTypeApply(objectType, fragmentType)
func (c *checker) applies(obj, frag *ast.Definition) bool {
	if obj == nil || frag == nil {
		return false
	}
	return c.possible(frag)[obj.Name]
}

// ---- selection sets: fields, arguments, leafs, spreads ----------------------------------------

func (c *checker) typeCondition(name, where string) *ast.Definition {
	d := c.def(name)
	if d == nil {
		c.bad("KnownTypeNames", "%s: unknown type %s", where, name)
		return nil
	}
	if !composite(d) {
		c.bad("FragmentsOnCompositeTypes", "%s: %s is a %s", where, name, d.Kind)
		return nil
	}
	return d
}

func (c *checker) selectionSet(ss ast.SelectionSet, parent *ast.Definition, op *ast.OperationDefinition) {
	for _, sel := range ss {
		switch x := sel.(type) {
		case *ast.Field:
			c.directives(x.Directives, ast.LocationField, op)
			fd := c.fieldDef(parent, x.Name)
			if parent != nil && fd == nil {
				c.bad("FieldsOnCorrectType", "%s has no field %s", parent.Name, x.Name)
			}
			var ret *ast.Definition
			if fd != nil {
				c.arguments(x.Arguments, fd.Arguments, "field "+x.Name, op)
				ret = c.def(fd.Type.Name())
				if leaf(ret) && len(x.SelectionSet) > 0 {
					c.bad("ScalarLeafs", "leaf field %s has a selection", x.Name)
				}
				if composite(ret) && len(x.SelectionSet) == 0 {
					c.bad("ScalarLeafs", "composite field %s has no selection", x.Name)
				}
			} else {
				c.argumentsUnknown(x.Arguments)
			}
			if len(x.SelectionSet) > 0 {
				if !composite(ret) {
					ret = nil
				}
				c.selectionSet(x.SelectionSet, ret, op)
				if ret != nil {
					c.merge(c.collect(x.SelectionSet, ret, map[string]bool{}))
				}
			}
		case *ast.InlineFragment:
			c.directives(x.Directives, ast.LocationInlineFragment, op)
			td := parent
			if x.TypeCondition != "" {
				td = c.typeCondition(x.TypeCondition, "inline fragment")
				if td != nil && parent != nil && !c.overlap(parent, td) {
					c.bad("PossibleFragmentSpreads", "inline fragment on %s inside %s", td.Name, parent.Name)
				}
			}
			c.selectionSet(x.SelectionSet, td, op)
			if td != nil {
				c.merge(c.collect(x.SelectionSet, td, map[string]bool{}))
			}
		case *ast.FragmentSpread:
			c.directives(x.Directives, ast.LocationFragmentSpread, op)
			f := c.frags[x.Name]
			if f == nil {
				c.bad("KnownFragmentNames", "spread of undefined fragment %s", x.Name)
				continue
			}
			if td := c.def(f.TypeCondition); composite(td) && parent != nil && !c.overlap(parent, td) {
				c.bad("PossibleFragmentSpreads", "fragment %s on %s inside %s", x.Name, td.Name, parent.Name)
			}
		}
	}
}

func (c *checker) overlap(a, b *ast.Definition) bool {
	pa, pb := c.possible(a), c.possible(b)
	for n := range pa {
		if pb[n] {
			return true
		}
	}
	return false
}

func (c *checker) argumentsUnknown(args ast.ArgumentList) {
	seen := map[string]bool{}
	for _, a := range args {
		if seen[a.Name] {
			c.bad("UniqueArgumentNames", "argument %s", a.Name)
		}
		seen[a.Name] = true
		c.valueNoType(a.Value)
	}
}

func (c *checker) arguments(args ast.ArgumentList, defs ast.ArgumentDefinitionList, where string, op *ast.OperationDefinition) {
	seen := map[string]bool{}
	for _, a := range args {
		if seen[a.Name] {
			c.bad("UniqueArgumentNames", "%s: argument %s", where, a.Name)
		}
		seen[a.Name] = true
		d := defs.ForName(a.Name)
		if d == nil {
			c.bad("KnownArgumentNames", "%s: unknown argument %s", where, a.Name)
			c.valueNoType(a.Value)
			continue
		}
		c.value(a.Value, d.Type, where+"("+a.Name+")")
	}
	for _, d := range defs {
		if d.Type.NonNull && d.DefaultValue == nil && !seen[d.Name] {
			c.bad("ProvidedRequiredArguments", "%s: required argument %s missing", where, d.Name)
		}
	}
}

// ---- directives ---------------------------------------------------------------------------

func (c *checker) directives(ds ast.DirectiveList, loc ast.DirectiveLocation, op *ast.OperationDefinition) {
	count := map[string]int{}
	for _, d := range ds {
		def := c.s.Directives[d.Name]
		if def == nil {
			c.bad("KnownDirectives", "unknown directive @%s", d.Name)
			c.argumentsUnknown(d.Arguments)
			continue
		}
		ok := false
		for _, l := range def.Locations {
			if l == loc {
				ok = true
			}
		}
		if !ok {
			c.bad("KnownDirectives", "@%s is not allowed on %s", d.Name, loc)
		}
		count[d.Name]++
		if count[d.Name] == 2 && !def.IsRepeatable {
			c.bad("UniqueDirectivesPerLocation", "@%s used twice on one %s", d.Name, loc)
		}
		c.arguments(d.Arguments, def.Arguments, "@"+d.Name, op)
	}
}

// ---- values ------------------------------------------------------------------------------

func (c *checker) valueNoType(v *ast.Value) {
	if v == nil {
		return
	}
	switch v.Kind {
	case ast.ObjectValue:
		seen := map[string]bool{}
		for _, ch := range v.Children {
			if seen[ch.Name] {
				c.bad("UniqueInputFieldNames", "input field %s", ch.Name)
			}
			seen[ch.Name] = true
			c.valueNoType(ch.Value)
		}
	case ast.ListValue:
		for _, ch := range v.Children {
			c.valueNoType(ch.Value)
		}
	}
}

const rule56 = "ValuesOfCorrectType"

// value checks a literal against the expected type (input coercion of literals, §3).
// Variables are left to IsVariableUsageAllowed.
func (c *checker) value(v *ast.Value, t *ast.Type, where string) {
	if v == nil || t == nil {
		return
	}
	if v.Kind == ast.Variable {
		return
	}
	if v.Kind == ast.NullValue {
		if t.NonNull {
			c.bad(rule56, "%s: null for %s", where, t.String())
		}
		return
	}
	if t.Elem != nil {
		if v.Kind == ast.ListValue {
			for i, ch := range v.Children {
				c.value(ch.Value, t.Elem, fmt.Sprintf("%s[%d]", where, i))
			}
			return
		}
		// a single value is coerced to a list of one
		c.value(v, t.Elem, where)
		return
	}
	d := c.def(t.NamedType)
	if d == nil {
		c.valueNoType(v)
		return
	}
	mismatch := func() { c.bad(rule56, "%s: %s literal %s for %s", where, kindName(v.Kind), v.Raw, t.String()) }
	switch d.Kind {
	case ast.Scalar:
		switch d.Name {
		case "Int":
			if v.Kind != ast.IntValue {
				mismatch()
			} else if n, err := strconv.ParseInt(v.Raw, 10, 64); err != nil || n < -(1<<31) || n >= 1<<31 {
				c.bad(rule56, "%s: %s is not a 32-bit integer", where, v.Raw)
			}
		case "Float":
			if v.Kind != ast.IntValue && v.Kind != ast.FloatValue {
				mismatch()
			} else if _, err := strconv.ParseFloat(v.Raw, 64); err != nil {
				c.undecided("numeric literal beyond float64")
			} else if _, err := strconv.ParseInt(v.Raw, 10, 64); err != nil && v.Kind == ast.IntValue {
				c.undecided("integer literal beyond int64 for Float")
			}
		case "String":
			if v.Kind != ast.StringValue && v.Kind != ast.BlockValue {
				mismatch()
			}
		case "Boolean":
			if v.Kind != ast.BooleanValue {
				mismatch()
			}
		case "ID":
			if v.Kind != ast.StringValue && v.Kind != ast.BlockValue && v.Kind != ast.IntValue {
				mismatch()
			} else if v.Kind == ast.IntValue {
				if _, err := strconv.ParseInt(v.Raw, 10, 64); err != nil {
					c.undecided("integer literal beyond int64 for ID")
				}
			}
		default:
			// custom scalar: any literal; still an input-object literal inside must not repeat a field
			// (numbers of any magnitude included: a custom scalar accepts any literal)
			c.valueNoType(v)
		}
	case ast.Enum:
		if v.Kind != ast.EnumValue {
			mismatch()
		} else if d.EnumValues.ForName(v.Raw) == nil {
			c.bad(rule56, "%s: %s is not a value of %s", where, v.Raw, d.Name)
		}
	case ast.InputObject:
		if v.Kind != ast.ObjectValue {
			mismatch()
			c.valueNoType(v)
			return
		}
		seen := map[string]bool{}
		for _, ch := range v.Children {
			if seen[ch.Name] {
				c.bad("UniqueInputFieldNames", "%s: input field %s", where, ch.Name)
			}
			seen[ch.Name] = true
			f := d.Fields.ForName(ch.Name)
			if f == nil {
				c.bad(rule56, "%s: %s has no input field %s", where, d.Name, ch.Name)
				c.valueNoType(ch.Value)
				continue
			}
			c.value(ch.Value, f.Type, where+"."+ch.Name)
		}
		for _, f := range d.Fields {
			if f.Type.NonNull && f.DefaultValue == nil && !seen[f.Name] {
				c.bad(rule56, "%s: required input field %s.%s missing", where, d.Name, f.Name)
			}
		}
		if d.Directives.ForName("oneOf") != nil {
			if len(v.Children) != 1 {
				c.bad(rule56, "%s: oneOf input object %s needs exactly one field", where, d.Name)
			} else if ch := v.Children[0]; ch.Value != nil && ch.Value.Kind == ast.NullValue {
				c.bad(rule56, "%s: oneOf field %s is null", where, ch.Name)
			}
		}
	default:
		mismatch()
	}
}

func hasOutOfRangeNumber(v *ast.Value) bool {
	if v == nil {
		return false
	}
	switch v.Kind {
	case ast.IntValue:
		_, err := strconv.ParseInt(v.Raw, 10, 64)
		return err != nil
	case ast.FloatValue:
		_, err := strconv.ParseFloat(v.Raw, 64)
		return err != nil
	}
	for _, ch := range v.Children {
		if hasOutOfRangeNumber(ch.Value) {
			return true
		}
	}
	return false
}

func kindName(k ast.ValueKind) string {
	return [...]string{"variable", "int", "float", "string", "block-string", "boolean", "null", "enum", "list", "object"}[k]
}

// ---- variables ---------------------------------------------------------------------------

func (c *checker) variableDefs(op *ast.OperationDefinition) {
	seen := map[string]bool{}
	for _, v := range op.VariableDefinitions {
		if seen[v.Variable] {
			c.bad("UniqueVariableNames", "variable $%s", v.Variable)
		}
		seen[v.Variable] = true
		c.directives(v.Directives, ast.LocationVariableDefinition, op)
		d := c.def(v.Type.Name())
		if d == nil {
			c.bad("KnownTypeNames", "variable $%s: unknown type %s", v.Variable, v.Type.Name())
			c.valueNoType(v.DefaultValue)
			continue
		}
		if !inputType(d) {
			c.bad("VariablesAreInputTypes", "variable $%s: %s is a %s", v.Variable, d.Name, d.Kind)
			c.valueNoType(v.DefaultValue)
			continue
		}
		if v.DefaultValue != nil {
			c.value(v.DefaultValue, v.Type, "default of $"+v.Variable)
		}
	}
}

type usage struct {
	name       string
	loc        *ast.Type // expected type at the location (nil: no typed location, e.g. inside a custom scalar)
	locDefault bool      // the location (argument / input field) has a default value
	oneOf      string    // non-empty: the variable is the value of a field of this oneOf input object
}

// usagesInValue collects variable usages with their location types.
func (c *checker) usagesInValue(v *ast.Value, t *ast.Type, locDefault bool, out *[]usage) {
	if v == nil {
		return
	}
	switch v.Kind {
	case ast.Variable:
		*out = append(*out, usage{name: v.Raw, loc: t, locDefault: locDefault})
	case ast.ListValue:
		var et *ast.Type
		if t != nil && t.Elem != nil {
			et = t.Elem
		} else if t != nil && c.isCustomScalar(t) {
			et = nil
		} else if t != nil {
			et = nil // list literal where no list is expected: reported by the value rule
		}
		for _, ch := range v.Children {
			c.usagesInValue(ch.Value, et, false, out)
		}
	case ast.ObjectValue:
		var d *ast.Definition
		if t != nil {
			// an object literal given for a list type is coerced to a list of one
			tt := t
			for tt.Elem != nil {
				tt = tt.Elem
			}
			d = c.def(tt.NamedType)
		}
		for _, ch := range v.Children {
			var ft *ast.Type
			def := false
			if d != nil && d.Kind == ast.InputObject {
				if f := d.Fields.ForName(ch.Name); f != nil {
					ft, def = f.Type, f.DefaultValue != nil
				}
			}
			n := len(*out)
			c.usagesInValue(ch.Value, ft, def, out)
			if d != nil && d.Kind == ast.InputObject && d.Directives.ForName("oneOf") != nil && ch.Value != nil && ch.Value.Kind == ast.Variable && len(*out) == n+1 {
				(*out)[n].oneOf = d.Name
			}
		}
	}
}

func (c *checker) isCustomScalar(t *ast.Type) bool {
	d := c.def(t.Name())
	return d != nil && d.Kind == ast.Scalar && d.Name != "Int" && d.Name != "Float" && d.Name != "String" && d.Name != "Boolean" && d.Name != "ID"
}

// usagesInSelections walks the selections reachable from an operation (through fragments).
func (c *checker) usagesInSelections(ss ast.SelectionSet, parent *ast.Definition, visited map[string]bool, out *[]usage) {
	dirs := func(ds ast.DirectiveList) {
		for _, d := range ds {
			def := c.s.Directives[d.Name]
			for _, a := range d.Arguments {
				var t *ast.Type
				hasDef := false
				if def != nil {
					if ad := def.Arguments.ForName(a.Name); ad != nil {
						t, hasDef = ad.Type, ad.DefaultValue != nil
					}
				}
				c.usagesInValue(a.Value, t, hasDef, out)
			}
		}
	}
	for _, sel := range ss {
		switch x := sel.(type) {
		case *ast.Field:
			dirs(x.Directives)
			fd := c.fieldDef(parent, x.Name)
			for _, a := range x.Arguments {
				var t *ast.Type
				hasDef := false
				if fd != nil {
					if ad := fd.Arguments.ForName(a.Name); ad != nil {
						t, hasDef = ad.Type, ad.DefaultValue != nil
					}
				}
				c.usagesInValue(a.Value, t, hasDef, out)
			}
			var ret *ast.Definition
			if fd != nil {
				ret = c.def(fd.Type.Name())
			}
			c.usagesInSelections(x.SelectionSet, ret, visited, out)
		case *ast.InlineFragment:
			dirs(x.Directives)
			td := parent
			if x.TypeCondition != "" {
				td = c.def(x.TypeCondition)
			}
			c.usagesInSelections(x.SelectionSet, td, visited, out)
		case *ast.FragmentSpread:
			dirs(x.Directives)
			if visited[x.Name] {
				continue
			}
			visited[x.Name] = true
			if f := c.frags[x.Name]; f != nil {
				dirs(f.Directives)
				c.usagesInSelections(f.SelectionSet, c.def(f.TypeCondition), visited, out)
			}
		}
	}
}

func (c *checker) variableUses(op *ast.OperationDefinition) {
	var us []usage
	for _, d := range op.Directives {
		def := c.s.Directives[d.Name]
		for _, a := range d.Arguments {
			var t *ast.Type
			hasDef := false
			if def != nil {
				if ad := def.Arguments.ForName(a.Name); ad != nil {
					t, hasDef = ad.Type, ad.DefaultValue != nil
				}
			}
			c.usagesInValue(a.Value, t, hasDef, &us)
		}
	}
	c.usagesInSelections(op.SelectionSet, c.root(op.Operation), map[string]bool{}, &us)
	used := map[string]bool{}
	for _, u := range us {
		used[u.name] = true
		vd := op.VariableDefinitions.ForName(u.name)
		if vd == nil {
			c.bad("NoUndefinedVariables", "operation %q uses undefined $%s", op.Name, u.name)
			continue
		}
		if u.oneOf != "" && !vd.Type.NonNull {
			c.bad(rule56, "nullable $%s used as the field of oneOf input object %s", u.name, u.oneOf)
		}
		if u.loc == nil {
			continue
		}
		if d := c.def(vd.Type.Name()); d == nil || !inputType(d) {
			continue
		}
		if !usageAllowed(vd, u) {
			c.bad("VariablesInAllowedPosition", "$%s of type %s used where %s is expected", u.name, vd.Type.String(), u.loc.String())
		}
	}
	for _, vd := range op.VariableDefinitions {
		if !used[vd.Variable] {
			c.bad("NoUnusedVariables", "operation %q never uses $%s", op.Name, vd.Variable)
		}
	}
}

// IsVariableUsageAllowed(variableDefinition, variableUsage)
func usageAllowed(vd *ast.VariableDefinition, u usage) bool {
	if u.loc.NonNull && !vd.Type.NonNull {
		hasVarDefault := vd.DefaultValue != nil && vd.DefaultValue.Kind != ast.NullValue
		if !hasVarDefault && !u.locDefault {
			return false
		}
		nl := *u.loc
		nl.NonNull = false
		return typesCompatible(vd.Type, &nl)
	}
	return typesCompatible(vd.Type, u.loc)
}

// AreTypesCompatible(variableType, locationType)
func typesCompatible(v, l *ast.Type) bool {
	if l.NonNull {
		if !v.NonNull {
			return false
		}
		vv, ll := *v, *l
		vv.NonNull, ll.NonNull = false, false
		return typesCompatible(&vv, &ll)
	}
	if v.NonNull {
		vv := *v
		vv.NonNull = false
		return typesCompatible(&vv, l)
	}
	if l.Elem != nil {
		if v.Elem == nil {
			return false
		}
		return typesCompatible(v.Elem, l.Elem)
	}
	if v.Elem != nil {
		return false
	}
	return v.NamedType == l.NamedType
}

// ---- fragments ---------------------------------------------------------------------------

func (c *checker) spreadsOf(ss ast.SelectionSet, out *[]string) {
	for _, sel := range ss {
		switch x := sel.(type) {
		case *ast.Field:
			c.spreadsOf(x.SelectionSet, out)
		case *ast.InlineFragment:
			c.spreadsOf(x.SelectionSet, out)
		case *ast.FragmentSpread:
			*out = append(*out, x.Name)
		}
	}
}

func (c *checker) fragmentGraph() {
	edges := map[string][]string{}
	for n, f := range c.frags {
		var out []string
		c.spreadsOf(f.SelectionSet, &out)
		edges[n] = out
	}
	// cycles: a fragment that can reach itself
	for n := range c.frags {
		seen := map[string]bool{}
		var dfs func(x string) bool
		dfs = func(x string) bool {
			for _, y := range edges[x] {
				if y == n {
					return true
				}
				if !seen[y] && c.frags[y] != nil {
					seen[y] = true
					if dfs(y) {
						return true
					}
				}
			}
			return false
		}
		if dfs(n) {
			c.bad("NoFragmentCycles", "fragment %s spreads itself", n)
		}
	}
	// unused: not reachable from any operation
	reach := map[string]bool{}
	var mark func(names []string)
	mark = func(names []string) {
		for _, n := range names {
			if !reach[n] {
				reach[n] = true
				mark(edges[n])
			}
		}
	}
	for _, op := range c.doc.Operations {
		var out []string
		c.spreadsOf(op.SelectionSet, &out)
		mark(out)
	}
	for _, f := range c.doc.Fragments {
		if !reach[f.Name] {
			c.bad("NoUnusedFragments", "fragment %s is never used", f.Name)
		}
	}
}

// ---- field selection merging ---------------------------------------------------------------

type collected struct {
	f      *ast.Field
	parent *ast.Definition
}

// collect: the fields of a selection set with their parent types, visiting fragments.
func (c *checker) collect(ss ast.SelectionSet, parent *ast.Definition, visited map[string]bool) []collected {
	var out []collected
	for _, sel := range ss {
		switch x := sel.(type) {
		case *ast.Field:
			out = append(out, collected{x, parent})
		case *ast.InlineFragment:
			td := parent
			if x.TypeCondition != "" {
				td = c.def(x.TypeCondition)
			}
			out = append(out, c.collect(x.SelectionSet, td, visited)...)
		case *ast.FragmentSpread:
			if visited[x.Name] {
				continue
			}
			visited[x.Name] = true
			if f := c.frags[x.Name]; f != nil {
				out = append(out, c.collect(f.SelectionSet, c.def(f.TypeCondition), visited)...)
			}
		}
	}
	return out
}

func copyVisited(m map[string]bool) map[string]bool {
	o := map[string]bool{}
	for k, v := range m {
		o[k] = v
	}
	return o
}

// merge: FieldsInSetCanMerge(set)
func (c *checker) merge(set []collected) {
	c.mergeDepth(set, 0)
}

func (c *checker) mergeDepth(set []collected, depth int) {
	if depth > 12 {
		return
	}
	byName := map[string][]collected{}
	var order []string
	for _, x := range set {
		if _, ok := byName[x.f.Alias]; !ok {
			order = append(order, x.f.Alias)
		}
		byName[x.f.Alias] = append(byName[x.f.Alias], x)
	}
	for _, key := range order {
		fs := byName[key]
		for i := 0; i < len(fs); i++ {
			for j := i + 1; j < len(fs); j++ {
				a, b := fs[i], fs[j]
				if a.f == b.f {
					continue
				}
				if !c.sameShape(a, b, 0) {
					c.bad("OverlappingFieldsCanBeMerged", "%s: different response shapes", key)
					continue
				}
				sameParent := a.parent == b.parent || a.parent == nil || b.parent == nil || a.parent.Kind != ast.Object || b.parent.Kind != ast.Object
				if a.parent == nil || b.parent == nil {
					continue // unknown parent: another rule reports it
				}
				if sameParent {
					if a.f.Name != b.f.Name {
						c.bad("OverlappingFieldsCanBeMerged", "%s: %s and %s are different fields", key, a.f.Name, b.f.Name)
						continue
					}
					if !sameArguments(a.f.Arguments, b.f.Arguments) {
						c.bad("OverlappingFieldsCanBeMerged", "%s: differing arguments", key)
						continue
					}
					ra, rb := c.returnType(a), c.returnType(b)
					if ra != nil && rb != nil {
						merged := append(c.collect(a.f.SelectionSet, ra, map[string]bool{}), c.collect(b.f.SelectionSet, rb, map[string]bool{})...)
						c.mergeDepth(merged, depth+1)
					}
				}
			}
		}
	}
}

func (c *checker) returnType(x collected) *ast.Definition {
	fd := c.fieldDef(x.parent, x.f.Name)
	if fd == nil {
		return nil
	}
	return c.def(fd.Type.Name())
}

// sameShape: SameResponseShape(fieldA, fieldB)
func (c *checker) sameShape(a, b collected, depth int) bool {
	if depth > 12 {
		return true
	}
	fa, fb := c.fieldDef(a.parent, a.f.Name), c.fieldDef(b.parent, b.f.Name)
	if fa == nil || fb == nil {
		return true // unknown field: reported elsewhere
	}
	ta, tb := fa.Type, fb.Type
	for {
		if ta.NonNull || tb.NonNull {
			if !ta.NonNull || !tb.NonNull {
				return false
			}
		}
		if ta.Elem != nil || tb.Elem != nil {
			if ta.Elem == nil || tb.Elem == nil {
				return false
			}
			ta, tb = ta.Elem, tb.Elem
			continue
		}
		break
	}
	da, db := c.def(ta.NamedType), c.def(tb.NamedType)
	if da == nil || db == nil {
		return true
	}
	if leaf(da) || leaf(db) {
		return da == db
	}
	if !composite(da) || !composite(db) {
		return true
	}
	merged := append(c.collect(a.f.SelectionSet, da, map[string]bool{}), c.collect(b.f.SelectionSet, db, map[string]bool{})...)
	byName := map[string][]collected{}
	for _, x := range merged {
		byName[x.f.Alias] = append(byName[x.f.Alias], x)
	}
	for _, fs := range byName {
		for i := 0; i < len(fs); i++ {
			for j := i + 1; j < len(fs); j++ {
				if fs[i].f != fs[j].f && !c.sameShape(fs[i], fs[j], depth+1) {
					return false
				}
			}
		}
	}
	return true
}

func sameArguments(a, b ast.ArgumentList) bool {
	if len(a) != len(b) {
		return false
	}
	for _, x := range a {
		y := b.ForName(x.Name)
		if y == nil || !sameValue(x.Value, y.Value) {
			return false
		}
	}
	return true
}

func sameValue(a, b *ast.Value) bool {
	if a == nil || b == nil {
		return a == b
	}
	if a.Kind != b.Kind {
		return false
	}
	switch a.Kind {
	case ast.ListValue:
		if len(a.Children) != len(b.Children) {
			return false
		}
		for i := range a.Children {
			if !sameValue(a.Children[i].Value, b.Children[i].Value) {
				return false
			}
		}
		return true
	case ast.ObjectValue:
		if len(a.Children) != len(b.Children) {
			return false
		}
		for _, x := range a.Children {
			var y *ast.ChildValue
			for _, c := range b.Children {
				if c.Name == x.Name {
					y = c
				}
			}
			if y == nil || !sameValue(x.Value, y.Value) {
				return false
			}
		}
		return true
	}
	return a.Raw == b.Raw
}

// ---- introspection depth ---------------------------------------------------------------------

func (c *checker) introspectionDepth() {
	var depthOf func(ss ast.SelectionSet, depth int, visited map[string]bool) bool
	depthOf = func(ss ast.SelectionSet, depth int, visited map[string]bool) bool {
		for _, sel := range ss {
			switch x := sel.(type) {
			case *ast.Field:
				d := depth
				if x.Name == "fields" || x.Name == "interfaces" || x.Name == "possibleTypes" || x.Name == "inputFields" {
					d++
					if d >= 3 {
						return true
					}
				}
				if depthOf(x.SelectionSet, d, visited) {
					return true
				}
			case *ast.InlineFragment:
				if depthOf(x.SelectionSet, depth, visited) {
					return true
				}
			case *ast.FragmentSpread:
				if visited[x.Name] {
					continue
				}
				if f := c.frags[x.Name]; f != nil {
					v := copyVisited(visited)
					v[x.Name] = true
					if depthOf(f.SelectionSet, depth, v) {
						return true
					}
				}
			}
		}
		return false
	}
	var find func(ss ast.SelectionSet, visited map[string]bool)
	find = func(ss ast.SelectionSet, visited map[string]bool) {
		for _, sel := range ss {
			switch x := sel.(type) {
			case *ast.Field:
				if x.Name == "__schema" || x.Name == "__type" {
					if depthOf(x.SelectionSet, 0, map[string]bool{}) {
						c.bad("MaxIntrospectionDepth", "introspection nests list fields three deep under %s", x.Name)
					}
					continue
				}
				find(x.SelectionSet, visited)
			case *ast.InlineFragment:
				find(x.SelectionSet, visited)
			}
		}
	}
	for _, op := range c.doc.Operations {
		find(op.SelectionSet, map[string]bool{})
	}
	for _, f := range c.doc.Fragments {
		find(f.SelectionSet, map[string]bool{})
	}
}
