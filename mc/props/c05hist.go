package props

import (
	"fmt"
	"strings"
	"time"

	"github.com/vektah/gqlparser/v2/ast"
	"github.com/vektah/gqlparser/v2/parser"

	"verif/mc/explore"
)

// call-histories: the parser entry points keep no state between calls. Every sequence of ≤ 3
// calls over a small alphabet of (entry point, document, limit); each call must return what the
// same call returns on its own (outcome, error text, tree).

type parseCall struct {
	Entry string `json:"entry"` // ParseQuery | ParseQueryWithTokenLimit | ParseSchema | ParseSchemaWithLimit | ParseSchemas
	Doc   int    `json:"doc"`
	Limit int    `json:"limit"`
}

var histExecDocs = []string{"{ a }", "{ a }\n# trailing comment", "query Q ( $v : Int = 1 ) { a ( x : [ $v , 2 ] ) @d ... F } fragment F on T { b }", "{ a ( }", "# c\n{ a b c d e f }"}
var histSDLDocs = []string{"scalar A", "scalar A\n# trailing comment", "type A implements I & J @d { f ( a : Int = 1 ) : [ A ! ] } extend type A { g : Int }", "type A {", "# c\nenum E { A B C D }"}

func (pc parseCall) String() string {
	switch pc.Entry {
	case "ParseQueryWithTokenLimit", "ParseSchemaWithLimit":
		return fmt.Sprintf("%s(doc%d, %d)", pc.Entry, pc.Doc, pc.Limit)
	}
	return fmt.Sprintf("%s(doc%d)", pc.Entry, pc.Doc)
}

func (pc parseCall) run() string {
	var out string
	r := guarded(0, 0, func() {
		switch pc.Entry {
		case "ParseQuery":
			d, err := parser.ParseQuery(&ast.Source{Name: "q", Input: histExecDocs[pc.Doc]})
			if err != nil {
				out = "error: " + err.Error()
			} else {
				out = projExec(d) + "\n" + ast.Dump(d) // the dump also holds the comments attached to the nodes
			}
		case "ParseQueryWithTokenLimit":
			d, err := parser.ParseQueryWithTokenLimit(&ast.Source{Name: "q", Input: histExecDocs[pc.Doc]}, pc.Limit)
			if err != nil {
				out = "error: " + err.Error()
			} else {
				out = projExec(d) + "\n" + ast.Dump(d) // the dump also holds the comments attached to the nodes
			}
		case "ParseSchema":
			d, err := parser.ParseSchema(&ast.Source{Name: "s", Input: histSDLDocs[pc.Doc]})
			if err != nil {
				out = "error: " + err.Error()
			} else {
				out = projSDL(d) + "\n" + ast.Dump(d)
			}
		case "ParseSchemaWithLimit":
			d, err := parser.ParseSchemaWithLimit(&ast.Source{Name: "s", Input: histSDLDocs[pc.Doc]}, pc.Limit)
			if err != nil {
				out = "error: " + err.Error()
			} else {
				out = projSDL(d) + "\n" + ast.Dump(d)
			}
		case "ParseSchemas":
			d, err := parser.ParseSchemas(&ast.Source{Name: "s", Input: histSDLDocs[pc.Doc], BuiltIn: pc.Limit == 1}, &ast.Source{Name: "t", Input: histSDLDocs[0]})
			if err != nil {
				out = "error: " + err.Error()
			} else {
				out = projSDL(d) + builtinSig(d)
			}
		}
	})
	if r.Panicked {
		return "panic: " + r.PanicVal
	}
	return out
}

func histAlphabet() []parseCall {
	var ops []parseCall
	for d := range histExecDocs {
		ops = append(ops, parseCall{"ParseQuery", d, 0})
		for _, l := range []int{1, 3, 1000} {
			ops = append(ops, parseCall{"ParseQueryWithTokenLimit", d, l})
		}
	}
	for d := range histSDLDocs {
		ops = append(ops, parseCall{"ParseSchema", d, 0})
		for _, l := range []int{1, 3, 1000} {
			ops = append(ops, parseCall{"ParseSchemaWithLimit", d, l})
		}
		ops = append(ops, parseCall{"ParseSchemas", d, 0}, parseCall{"ParseSchemas", d, 1})
	}
	return ops
}

type histInput struct {
	Calls []parseCall `json:"calls"`
}

func histCase(c *explore.Ctx, s *explore.SubStats, alone map[parseCall]string, calls []parseCall) {
	s.Executions++
	var names []string
	for i, pc := range calls {
		names = append(names, pc.String())
		got := pc.run()
		s.Transitions++
		want, ok := alone[pc]
		if !ok {
			want = pc.run() // replay: no table; the call repeated is the best available reference
		}
		if got != want {
			c.Report(s, explore.Violation{Key: "history/result-depends-on-earlier-calls entry=" + pc.Entry, Input: explore.J(histInput{calls}), Rendered: strings.Join(names, "; "),
				Detail: fmt.Sprintf("call %d of the sequence returns something else than the same call on its own", i+1), Expected: want, Observed: got})
			return
		}
	}
	s.Validated++
	s.Nontrivial++
}

func histSub(c *explore.Ctx) {
	depth := c.Pick(3, 4)
	ops := histAlphabet()
	s := c.Sub("call-histories", fmt.Sprintf("every sequence of ≤ %d calls over %d (entry point, document, limit) combinations: ParseQuery / ParseQueryWithTokenLimit / ParseSchema / ParseSchemaWithLimit / ParseSchemas on 5 documents each (short, ending in a comment, long, invalid, starting with a comment) with limits {1, 3, 1000}", depth, len(ops)),
		"every call returns what the same call returns on its own (outcome, error text, tree): the parser keeps no state between calls", "every sequence")
	if s == nil {
		return
	}
	t0 := time.Now()
	alone := map[parseCall]string{}
	for _, pc := range ops {
		alone[pc] = pc.run()
	}
	st, tr, complete := explore.Seqs(len(ops), depth, c.Shard, c.NShards, c.Expired, func(sym []int) bool {
		calls := make([]parseCall, len(sym))
		for i, x := range sym {
			calls[i] = ops[x]
		}
		histCase(c, s, alone, calls)
		return true
	})
	s.States, _ = st, tr
	if !complete {
		s.Cap("deadline")
	}
	s.WallS = time.Since(t0).Seconds()
}
