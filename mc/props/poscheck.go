package props

import (
	"fmt"
	"reflect"
	"regexp"
	"sort"

	"github.com/vektah/gqlparser/v2/ast"
	"github.com/vektah/gqlparser/v2/gqlerror"

	"verif/mc/ref/reflex"
)

// posChecker validates positions against the sources they claim to come from.
type posChecker struct {
	srcs  []*ast.Source
	lexed map[*ast.Source]*lexedSrc
}

type lexedSrc struct {
	res      reflex.Result
	startAt  map[int]int // token start offset → token index
	lineCol  map[[2]int]bool
	stringAt map[[2]int]bool
	lineOfAt []int
	colOfAt  []int
	sm       *srcMap
}

func newPosChecker(srcs ...*ast.Source) *posChecker {
	return &posChecker{srcs: srcs, lexed: map[*ast.Source]*lexedSrc{}}
}

func (pc *posChecker) lex(s *ast.Source) *lexedSrc {
	if l, ok := pc.lexed[s]; ok {
		return l
	}
	im := lexImpl(s.Input)
	ref, sameTokens := positionReference(s.Input, im)
	l := &lexedSrc{res: ref, startAt: map[int]int{}, lineCol: map[[2]int]bool{}, stringAt: map[[2]int]bool{}, sm: newSrcMap(s.Input)}
	if !sameTokens {
		// the lexer and the grammar disagree on this source's tokens (C03's business):
		// positions cannot be judged against the grammar's tokens
		l.res.Undecided = true
	}
	for i, t := range l.res.Tokens {
		l.startAt[t.Start] = i
		l.lineCol[[2]int{t.Line, t.Col}] = true
		if t.Kind == "String" {
			l.stringAt[[2]int{t.Line, t.Col}] = true
		}
	}
	pc.lexed[s] = l
	return l
}

func (pc *posChecker) known(s *ast.Source) *ast.Source {
	for _, k := range pc.srcs {
		if k == s {
			return k
		}
	}
	for _, k := range pc.srcs {
		if s != nil && k.Name == s.Name && k.Input == s.Input {
			return k
		}
	}
	return nil
}

// checkPos returns "" if the position is truthful, else (class, detail).
func (pc *posChecker) checkPos(p *ast.Position, where string) (string, string) {
	if p == nil {
		return "", ""
	}
	src := pc.known(p.Src)
	if src == nil {
		name := "<nil>"
		if p.Src != nil {
			name = p.Src.Name
		}
		return "src", fmt.Sprintf("%s: position names source %q which is not one of the sources given", where, name)
	}
	l := pc.lex(src)
	if l.res.Undecided {
		return "", ""
	}
	if p.Start < 0 || p.Start > l.res.NChars || p.End < p.Start || p.End > l.res.NChars {
		return "offset", fmt.Sprintf("%s: offsets [%d,%d) outside the source (%d characters)", where, p.Start, p.End, l.res.NChars)
	}
	// line/column must describe the offset
	if p.Start < len(l.sm.lineOf) {
		if el, ec := l.sm.lineOf[p.Start], l.sm.colOf[p.Start]; el != p.Line || ec != p.Column {
			what := "column"
			if el != p.Line {
				what = "line"
			} else if i, ok := l.startAt[p.Start]; ok && l.res.Tokens[i].Kind == "String" && p.Column == ec+1 {
				return "string-column-plus-one", fmt.Sprintf("%s: string token at offset %d is at line %d column %d, position says column %d", where, p.Start, el, ec, p.Column)
			}
			return what, fmt.Sprintf("%s: offset %d is line %d column %d of %q, position says line %d column %d", where, p.Start, el, ec, src.Name, p.Line, p.Column)
		}
	}
	if _, ok := l.startAt[p.Start]; !ok {
		if !(p.Start == l.res.EOFPos && l.res.FailAt < 0) && l.res.FailAt < 0 {
			return "not-token-start", fmt.Sprintf("%s: offset %d of %q is not the start of a token", where, p.Start, src.Name)
		}
	}
	return "", ""
}

// checkLoc validates an error location (line, column) against a source: it must denote a
// token start or the end-of-input position; on lexically invalid sources it must lie inside
// the input, at or after the start of the inadmissible token.
func (pc *posChecker) checkLoc(src *ast.Source, loc gqlerror.Location, where string) (string, string) {
	l := pc.lex(src)
	if l.res.Undecided {
		return "", ""
	}
	if !l.sm.inside(loc.Line, loc.Column) {
		return "outside", fmt.Sprintf("%s: location %d:%d lies outside source %q", where, loc.Line, loc.Column, src.Name)
	}
	if l.lineCol[[2]int{loc.Line, loc.Column}] {
		return "", ""
	}
	if l.stringAt[[2]int{loc.Line, loc.Column - 1}] {
		return "string-column-plus-one", fmt.Sprintf("%s: location %d:%d is one column to the right of the string token starting at %d:%d", where, loc.Line, loc.Column, loc.Line, loc.Column-1)
	}
	eofL, eofC := l.sm.lineOf[len(l.sm.lineOf)-1], l.sm.colOf[len(l.sm.colOf)-1]
	if l.res.FailAt < 0 {
		if loc.Line == eofL && loc.Column == eofC {
			return "", ""
		}
		return "not-token-start", fmt.Sprintf("%s: location %d:%d of %q is neither a token start nor the end of input", where, loc.Line, loc.Column, src.Name)
	}
	// lexically invalid: at or after the failing token's start
	fl, fc := l.sm.lineOf[l.res.FailPos], l.sm.colOf[l.res.FailPos]
	if loc.Line < fl || (loc.Line == fl && loc.Column < fc) {
		return "before-lex-error", fmt.Sprintf("%s: location %d:%d of %q is neither a token start nor inside the token the lexer fails on (starts at %d:%d)", where, loc.Line, loc.Column, src.Name, fl, fc)
	}
	return "", ""
}

// walkPositions calls f for every *ast.Position reachable from v.
func walkPositions(v any, f func(p *ast.Position, path string)) int {
	return walkPositionsSkip(v, nil, f)
}

// linkFields are the "require validation" links from a document into the schema.
var linkFields = map[string]bool{"Definition": true, "ObjectDefinition": true, "ParentDefinition": true}

func walkPositionsSkip(v any, skip map[string]bool, f func(p *ast.Position, path string)) int {
	seen := map[uintptr]bool{}
	n := 0
	var rec func(rv reflect.Value, path string, depth int)
	posT := reflect.TypeOf(&ast.Position{})
	srcT := reflect.TypeOf(&ast.Source{})
	rec = func(rv reflect.Value, path string, depth int) {
		if depth > 200 {
			return
		}
		switch rv.Kind() {
		case reflect.Ptr:
			if rv.IsNil() {
				return
			}
			if rv.Type() == srcT {
				return
			}
			if rv.Type() == posT {
				n++
				f(rv.Interface().(*ast.Position), path)
				return
			}
			if seen[rv.Pointer()] {
				return
			}
			seen[rv.Pointer()] = true
			rec(rv.Elem(), path, depth+1)
		case reflect.Interface:
			if !rv.IsNil() {
				rec(rv.Elem(), path, depth+1)
			}
		case reflect.Struct:
			t := rv.Type()
			for i := 0; i < rv.NumField(); i++ {
				if !t.Field(i).IsExported() || skip[t.Field(i).Name] {
					continue
				}
				rec(rv.Field(i), path+"."+t.Field(i).Name, depth+1)
			}
		case reflect.Slice, reflect.Array:
			for i := 0; i < rv.Len(); i++ {
				rec(rv.Index(i), fmt.Sprintf("%s[%d]", path, i), depth+1)
			}
		case reflect.Map:
			keys := rv.MapKeys()
			sort.Slice(keys, func(i, j int) bool { return fmt.Sprint(keys[i]) < fmt.Sprint(keys[j]) })
			for _, k := range keys {
				rec(rv.MapIndex(k), fmt.Sprintf("%s[%v]", path, k), depth+1)
			}
		}
	}
	rec(reflect.ValueOf(v), reflect.TypeOf(v).String(), 0)
	return n
}

var idxRe = regexp.MustCompile(`\[[^\]]*\]`)

// pathClass drops indices from a reflection path so it names a kind of node.
func pathClass(p string) string { return idxRe.ReplaceAllString(p, "[]") }
