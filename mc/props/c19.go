package props

import (
	"encoding/json"
	"fmt"
	"github.com/vektah/gqlparser/v2/formatter"
	"github.com/vektah/gqlparser/v2/validator"
	"strconv"
	"strings"
	"time"

	"github.com/vektah/gqlparser/v2/ast"
	"github.com/vektah/gqlparser/v2/parser"

	"verif/mc/explore"
	"verif/mc/gen"
)

// C19: executable documents survive a JSON encode/decode round trip.

func init() {
	register(&Prop{ID: "C19", Run: runC19, Replay: func(c *explore.Ctx, s *explore.SubStats, v explore.Violation) {
		var in gramInput
		if json.Unmarshal(v.Input, &in) == nil {
			c19Case(c, s, in.Text)
		}
	}, Assumptions: []string{
		"documents are obtained by parsing enumerated source texts with the real parser; the decoded document is compared with the original through the canonical projection (positions are not encoded and not compared)",
		"encoding/json of the Go standard library is trusted",
	}})
}

// c19Respell: also decode the indented and the generically re-encoded JSON (set for the
// sub-checks whose documents are few).
var c19Respell bool

// c19Validate: when non-nil, the parsed document is validated against this schema first (a
// validated document holds pointers into the schema).
var c19Validate *ast.Schema

func c19Case(c *explore.Ctx, s *explore.SubStats, text string) {
	explore.Crumb(s.Name, text)
	d, err := parser.ParseQuery(&ast.Source{Input: text, Name: "in"})
	if err != nil {
		s.Skipped++
		return
	}
	if c19Validate != nil {
		if errs := validator.Validate(c19Validate, d); len(errs) > 0 {
			s.Skipped++
			return
		}
	}
	s.Executions++
	s.Transitions++
	bad := func(key, detail, exp, obs string) {
		c.Report(s, explore.Violation{Key: key, Input: explore.J(gramInput{Text: text}), Rendered: text, Detail: detail, Expected: exp, Observed: obs})
	}
	p0 := projExec(d)
	var p2 string
	var stage string
	r := guarded(0, 0, func() {
		b, err := json.Marshal(d)
		if err != nil {
			stage = "marshal: " + err.Error()
			return
		}
		var d2 ast.QueryDocument
		if err := json.Unmarshal(b, &d2); err != nil {
			stage = "unmarshal: " + err.Error()
			return
		}
		p2 = projExec(&d2)
	})
	if r.Panicked {
		bad("json/panic site="+r.Site, r.PanicVal+"\n"+trimStack(r.Stack), "", "")
		return
	}
	s.Validated++
	if stage != "" {
		bad("json/error "+strings.SplitN(stage, ":", 2)[0], stage, p0, "")
		s.Outcome("error")
		return
	}
	if p2 != p0 {
		bad("json/"+c19Class(p0, p2), "the decoded document differs from the encoded one", p0, p2)
		s.Outcome("differs")
		return
	}
	// the same JSON value in other spellings: indented, and re-encoded by a generic JSON
	// processor (object keys in another order) — what a store or a proxy does to it
	if c19Respell {
		for _, form := range []string{"indented", "generic", "generic-nulls-dropped", "into-used-target"} {
			var p3, st string
			r := guarded(0, 0, func() {
				var b []byte
				var err error
				if form == "indented" {
					b, err = json.MarshalIndent(d, "", "  ")
				} else if form == "into-used-target" {
					b, err = json.Marshal(d)
				} else {
					b, err = json.Marshal(d)
					if err == nil {
						var generic any
						dec := json.NewDecoder(strings.NewReader(string(b)))
						dec.UseNumber()
						if err = dec.Decode(&generic); err == nil {
							if form == "generic-nulls-dropped" {
								generic = dropNulls(generic)
							}
							b, err = json.Marshal(generic)
						}
					}
				}
				if err != nil {
					st = "marshal: " + err.Error()
					return
				}
				var d3 ast.QueryDocument
				if form == "into-used-target" {
					// a target that held another document before (decoders reuse what they are given)
					prev, _ := parser.ParseQuery(&ast.Source{Name: "prev", Input: c19UsedTarget})
					pb, _ := json.Marshal(prev)
					if e := json.Unmarshal(pb, &d3); e != nil {
						st = "unmarshal (previous document): " + e.Error()
						return
					}
				}
				if err := json.Unmarshal(b, &d3); err != nil {
					st = "unmarshal: " + err.Error()
					return
				}
				p3 = projExec(&d3)
			})
			s.Transitions++
			switch {
			case r.Panicked:
				bad("json/panic form="+form+" site="+r.Site, r.PanicVal, "", "")
			case st != "":
				bad("json/error form="+form+" "+strings.SplitN(st, ":", 2)[0], st, p0, "")
			case p3 != p0:
				bad("json/form="+form+" "+c19Class(p0, p3), "the document decoded from the "+form+" spelling of its JSON encoding differs from the encoded one", p0, p3)
			}
		}
	}
	s.Outcome("same")
	if strings.Contains(p0, "spread{") || strings.Contains(p0, "inline{") {
		s.Nontrivial++
	}
	s.Sample(func() any { return text })
}

// c19Class: what kind of node the first difference sits in, and what it was decoded as.
func c19Class(want, got string) string {
	n := 0
	for n < len(want) && n < len(got) && want[n] == got[n] {
		n++
	}
	tagAt := func(s string) string {
		i := strings.LastIndexAny(s[:n], "[,")
		j := i + 1
		k := j
		for k < len(s) && (s[k] >= 'a' && s[k] <= 'z') {
			k++
		}
		return s[j:k]
	}
	depth := strings.Count(want[:n], "sel[") - strings.Count(want[:n], "]}")
	if depth < 0 {
		depth = 0
	}
	if depth > 3 {
		depth = 3
	}
	return fmt.Sprintf("%s decoded-as %s depth~%d", tagAt(want), tagAt(got), depth)
}

// selection trees: every selection list of length ≤ width over {field, spread, field with
// sub-selection, inline fragment with / without type condition}, nested to the given depth.
func c19Selections(depth, width int) []string {
	var prev []string
	for d := 1; d <= depth; d++ {
		items := []string{"a", "... F"}
		for _, p := range prev {
			items = append(items, "b { "+p+" }", "... on T { "+p+" }", "... { "+p+" }")
		}
		var lists []string
		var rec func(cur []string)
		rec = func(cur []string) {
			if len(cur) > 0 {
				lists = append(lists, strings.Join(cur, " "))
			}
			if len(cur) == width {
				return
			}
			for _, it := range items {
				rec(append(cur, it))
			}
		}
		w := width
		if d == depth && depth >= 3 {
			// the outermost level of the deepest profile: lists of one item (quick) are enough to
			// place every shape at depth 3; wider lists are covered one level down
			width = c19TopWidth
		}
		rec(nil)
		width = w
		prev = lists
	}
	return prev
}

var c19TopWidth = 1

var c19Items = []string{
	"a", "x : a", "a ( p : 1 )", `b ( q : "s" , p : 2 )`, "a @d", "b @e ( r : [ 1 , { k : $v } ] )", "c { d }", "c ( p : 3 ) @d { d ( q : 4 ) }",
	"... F", "... F @d", "... G @e ( r : 5 )", "... on T { a }", "... on U @d { b ( p : 6 ) }", "... { a }", "... @e ( r : 7 ) { a ( p : 8 ) }",
	// meta fields decorated like any other field
	"__typename", "__typename @include ( if : $v )", "t : __typename @d @e ( r : 9 )", `__type ( name : "T" ) @d { name @e ( r : 10 ) }`, "__schema @d { types { name } }",
}

func runC19(c *explore.Ctx) {
	lang := func(name string, n int, restrict bool) {
		what := "full-name grammar"
		if restrict {
			what = "grammar G¹"
		}
		s := c.Sub(name, fmt.Sprintf("every sentence of ≤ %d tokens of the executable %s, parsed by the real parser", n, what),
			"json.Unmarshal(json.Marshal(d)) has the same canonical projection as d (selection kinds, names, arguments, values, directives, type conditions, variable definitions)", "documents containing a fragment spread or an inline fragment")
		if s == nil {
			return
		}
		t0 := time.Now()
		ss := language(execSide, execSide.grammar(), "full", execSide.alpha, n, restrict)
		for i, se := range ss {
			if i%c.NShards != c.Shard {
				continue
			}
			if i&63 == 0 && c.Expired() {
				s.Cap("deadline")
				break
			}
			s.States++
			c19Case(c, s, renderClasses(execSide.alpha, se.Classes, " "))
		}
		s.WallS = time.Since(t0).Seconds()
	}
	lang("sentences-full", c.Pick(7, 8), false)
	lang("sentences-g1", c.Pick(11, 13), true)

	depth, width := 3, 2
	c19TopWidth = c.Pick(1, 2)
	s := c.Sub("nesting", fmt.Sprintf("every selection tree of depth ≤ %d whose selection lists have ≤ %d items drawn from {field, fragment spread, field with sub-selection, inline fragment with and without type condition} (all orders), in an operation and in a fragment definition; every ordered triple of %d decorated selections (distinct arguments, directives, aliases, sub-selections) as siblings; plus the profile documents", depth, width, len(c19Items)),
		"as above: fields stay fields, spreads stay spreads, inline fragments stay inline fragments at every depth", "every tree")
	if s != nil {
		t0 := time.Now()
		sels := c19Selections(depth, width)
		if c.Shard == 0 {
			s.Extra["selection_trees"] = float64(len(sels))
		}
		for i, sel := range sels {
			if i%c.NShards != c.Shard {
				continue
			}
			if i&63 == 0 && c.Expired() {
				s.Cap("deadline")
				break
			}
			s.States++
			c19Case(c, s, "{ "+sel+" }")
			c19Case(c, s, "fragment F on T { "+sel+" } query Q { ... F }")
		}
		// siblings: every ordered triple of decorated selections (distinct arguments, directives,
		// aliases, sub-selections on each kind) in one selection set, at the top level and nested
		for i, a := range c19Items {
			for j, b := range c19Items {
				for k, d := range c19Items {
					if (i*len(c19Items)*len(c19Items)+j*len(c19Items)+k)%c.NShards != c.Shard {
						continue
					}
					s.States++
					c19Case(c, s, "query ( $v : Int ) { "+a+" "+b+" "+d+" }")
					c19Case(c, s, "query ( $v : Int ) { w { "+a+" "+b+" "+d+" } }")
				}
			}
		}
		if c.Shard == 0 {
			for _, doc := range gen.ExecProfiles {
				s.States++
				c19Case(c, s, doc)
			}
		}
		s.WallS = time.Since(t0).Seconds()
	}
	// deep nesting: a chain of n selection sets with one selection of every kind at the bottom
	s = c.Sub("depth", "chains of 1 … 48 nested fields (and the same through inline fragments and through fragment spreads) with a field, a fragment spread and both kinds of inline fragment at the bottom; compact, indented and generically re-encoded JSON", "as above, at every nesting depth", "every chain")
	if s != nil {
		t0 := time.Now()
		c19Respell = true
		for n := 1; n <= 48; n++ {
			if n%c.NShards != c.Shard {
				continue
			}
			bottom := "x ( p : 1 ) @d ... F ... on T { y } ... @e ( r : 2 ) { z }"
			s.States += 3
			c19Case(c, s, "{ "+strings.Repeat("a { ", n)+bottom+strings.Repeat(" }", n)+" } fragment F on T { f }")
			c19Case(c, s, "{ "+strings.Repeat("... on T { a { ", n)+bottom+strings.Repeat(" } }", n)+" } fragment F on T { f }")
			var b strings.Builder
			b.WriteString("{ ... F0 }")
			for i := 0; i < n; i++ {
				fmt.Fprintf(&b, " fragment F%d on T { a { ... F%d } }", i, i+1)
			}
			fmt.Fprintf(&b, " fragment F%d on T { %s } fragment F on T { f }", n, bottom)
			c19Case(c, s, b.String())
		}
		c19Respell = false
		s.WallS = time.Since(t0).Seconds()
	}
	// validated documents (what a server caches): the links into the schema must not get in the way
	s = c.Sub("validated", "every document of the validation-kit profiles operations, arguments and shapes (untyped inline fragments, object literals with keys out of name order; thorough: also links, values, directives, fragments, variables) that validates against the rich kit schema (types, scalars, enums and input objects of which carry type-level directives), validated first", "as above", "documents that validate")
	if s != nil {
		t0 := time.Now()
		c19Validate = kitSchema(0)
		profs := []string{"operations", "arguments", "shapes"}
		if c.Thorough() {
			profs = append(profs, "links", "values", "directives", "fragments", "variables")
		}
		for _, prof := range profs {
			forEachProfileDoc(c, s, prof, func(d kitDoc) {
				if d.Schema == 0 {
					s.States++
					c19Case(c, s, d.Doc)
				}
			})
		}
		c19Validate = nil
		s.WallS = time.Since(t0).Seconds()
	}
	// string values of every awkward character
	s = c.Sub("strings", fmt.Sprintf("every string value of ≤ 2 symbols over the %d awkward characters of C12 (control characters, DEL, non-printable astral runes, quotes, backslashes, U+2028, U+FFFD …) as a quoted and as a block string, in an argument, a list and an object", len(c12Chars)), "as above: values intact", "every value")
	if s != nil {
		t0 := time.Now()
		st, _, _ := explore.Seqs(len(c12Chars), 2, c.Shard, c.NShards, c.Expired, func(sym []int) bool {
			v := gen.RenderStrs(c12Chars, sym)
			q := strconv.Quote(v)
			// strconv.Quote is Go syntax; the GraphQL text is built by the formatter from a tree instead
			doc := &ast.QueryDocument{Operations: ast.OperationList{{Operation: ast.Query, SelectionSet: ast.SelectionSet{&ast.Field{Alias: "f", Name: "f", Arguments: ast.ArgumentList{
				{Name: "a", Value: &ast.Value{Kind: ast.StringValue, Raw: v}},
				{Name: "b", Value: &ast.Value{Kind: ast.ListValue, Children: ast.ChildValueList{{Value: &ast.Value{Kind: ast.BlockValue, Raw: v}}}}},
				{Name: "c", Value: &ast.Value{Kind: ast.ObjectValue, Children: ast.ChildValueList{{Name: "k", Value: &ast.Value{Kind: ast.StringValue, Raw: v}}}}},
			}}}}}}
			var b strings.Builder
			formatter.NewFormatter(&b).FormatQueryDocument(doc)
			_ = q
			c19Case(c, s, b.String())
			return true
		})
		s.States += st
		s.WallS = time.Since(t0).Seconds()
	}
	// comments are kept in the tree (Comment fields): a comment in front of any token must not
	// change what the document decodes to
	// decoding is a function of the bytes: the thousandth decode in a process returns what the first returned
	s = c.Sub("repeated-decodes", "a fragments-only document, a document with one small operation and many fragments, and a bare selection set (through ast.UnmarshalSelectionSet) decoded 1000 times in one process",
		"every decode succeeds and has the projection of the first", "every case")
	if s != nil && c.Shard == 0 {
		t0 := time.Now()
		frags := ""
		for i := 0; i < 12; i++ {
			frags += fmt.Sprintf(" fragment F%d on T { a b { c ... on U { d } ...F%d } e @d(x: %d) }", i, (i+1)%12, i)
		}
		for _, text := range []string{frags, "{ x }" + frags, "query Q { a { b } ...F0 }" + frags} {
			doc, perr := parser.ParseQuery(&ast.Source{Input: text})
			if perr != nil {
				panic("C19 repeated-decodes: " + perr.Error())
			}
			want := projExec(doc)
			b, _ := json.Marshal(doc)
			for round := 0; round < 1000; round++ {
				s.Executions++
				s.Transitions++
				var back ast.QueryDocument
				if err := json.Unmarshal(b, &back); err != nil || projExec(&back) != want {
					obs := "differs"
					if err != nil {
						obs = err.Error()
					}
					c.Report(s, explore.Violation{Key: "json/repeated-decode document", Input: explore.J(map[string]any{"doc": text, "round": round}), Rendered: text, Detail: fmt.Sprintf("decode number %d of the same bytes in this process fails or differs from the first: %s", round+1, obs)})
					break
				}
			}
			s.States++
			s.Validated++
			// the selection set of the first fragment on its own
			if len(doc.Fragments) > 0 {
				sb, _ := json.Marshal(doc.Fragments[0].SelectionSet)
				if first, err := ast.UnmarshalSelectionSet(sb); err == nil {
					fb, _ := json.Marshal(first)
					for round := 0; round < 1000; round++ {
						s.Executions++
						again, err := ast.UnmarshalSelectionSet(sb)
						ab, _ := json.Marshal(again)
						if err != nil || string(ab) != string(fb) {
							c.Report(s, explore.Violation{Key: "json/repeated-decode selection-set", Input: explore.J(map[string]any{"doc": text, "round": round}), Rendered: string(sb), Detail: fmt.Sprintf("UnmarshalSelectionSet call number %d on the same bytes fails or differs from the first: %v", round+1, err)})
							break
						}
					}
				}
			}
		}
		s.Outcome("stable")
		s.WallS = time.Since(t0).Seconds()
	}
	s = c.Sub("comments", fmt.Sprintf("the %d profile documents and the %d decorated selections (alone and after a plain field) with a comment at every gap, one gap at a time and at every gap at once", len(gen.ExecProfiles), len(c19Items)),
		"as above", "every rendering")
	if s != nil {
		t0 := time.Now()
		c19Respell = true
		defer func() { c19Respell = false }()
		var docs []string
		docs = append(docs, gen.ExecProfiles...)
		for _, a := range c19Items {
			docs = append(docs, "query ( $v : Int = 1 @d ) { "+a+" }", "{ w { z "+a+" } } fragment F ( $fv : Int ) on T @d { "+a+" }")
		}
		idx := 0
		for _, doc := range docs {
			toks := tokenTextsNoComments(doc)
			all := map[int]string{}
			for g := 0; g <= len(toks); g++ {
				all[g] = " #c\n "
				idx++
				if idx%c.NShards != c.Shard {
					continue
				}
				text := renderGapsSep(toks, map[int]string{g: " #c\n "})
				if !sameTokens(text, toks) {
					s.Skipped++
					continue
				}
				s.States++
				c19Case(c, s, text)
			}
			idx++
			if idx%c.NShards == c.Shard {
				if text := renderGapsSep(toks, all); sameTokens(text, toks) {
					s.States++
					c19Case(c, s, text)
				}
			}
		}
		s.WallS = time.Since(t0).Seconds()
	}
}

// c19UsedTarget: what a re-used decoding target held before: operations and fragments with
// variable definitions, directives, arguments and nested selections at the first indices.
const c19UsedTarget = `query Old ( $o : Int = 1 @od ) @live ( x : 1 ) { old ( a : 1 ) @od { deep ( b : 2 ) ... OF ... on OT @od { x } } second } mutation OldM ( $m : Int ) @live { m } fragment OF ( $fv : Int ) on OT @od { of ( c : 3 ) { g } } fragment OG on OT { og }`

// dropNulls removes object members whose value is null (what an omit-null serialiser or a
// document store does to the encoding).
func dropNulls(v any) any {
	switch x := v.(type) {
	case map[string]any:
		for k, e := range x {
			if e == nil {
				delete(x, k)
			} else {
				x[k] = dropNulls(e)
			}
		}
		return x
	case []any:
		for i := range x {
			x[i] = dropNulls(x[i])
		}
		return x
	}
	return v
}
