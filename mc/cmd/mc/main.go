// Command mc: coordinator and worker of the bounded-exhaustive checks.
//
//	mc check <ID> --tier quick|thorough     run a property's check (spawns worker subprocesses)
//	mc worker ...                           (internal) one shard
//	mc replay <file>                        re-execute one recorded violation
package main

import (
	"crypto/sha1"
	"encoding/json"
	"errors"
	"flag"
	"fmt"
	"os"
	"os/exec"
	"path/filepath"
	"runtime"
	"sort"
	"strconv"
	"strings"
	"sync"
	"syscall"
	"time"

	"verif/mc/explore"
	"verif/mc/props"
)

var verifRoot = "/verif"

func main() {
	if v := os.Getenv("VERIF_ROOT"); v != "" {
		verifRoot = v
	}
	if len(os.Args) < 2 {
		usage()
	}
	switch os.Args[1] {
	case "check":
		os.Exit(check(os.Args[2:]))
	case "worker":
		os.Exit(worker(os.Args[2:]))
	case "replay":
		os.Exit(replay(os.Args[2:]))
	case "c11race":
		rounds := 40
		if len(os.Args) > 2 {
			if n, err := strconv.Atoi(os.Args[2]); err == nil {
				rounds = n
			}
		}
		props.C11Race(rounds)
	case "c10digest":
		fmt.Println(props.C10Digest())
	case "list":
		for _, id := range props.IDs() {
			fmt.Println(id)
		}
	default:
		usage()
	}
}

func usage() {
	fmt.Fprintln(os.Stderr, "usage: mc check <ID> --tier quick|thorough | mc replay <file> | mc list")
	os.Exit(2)
}

type workerOut struct {
	Subs  []*explore.SubStats `json:"subs"`
	Error string              `json:"error,omitempty"`
}

func worker(args []string) int {
	fs := flag.NewFlagSet("worker", flag.ExitOnError)
	tier := fs.String("tier", "quick", "")
	shard := fs.Int("shard", 0, "")
	of := fs.Int("of", 1, "")
	out := fs.String("out", "", "")
	only := fs.String("only", "", "")
	deadline := fs.Float64("deadline", 0, "seconds")
	crumb := fs.String("crumb", "", "")
	id := args[0]
	fs.Parse(args[1:])
	p := props.Get(id)
	if p == nil {
		fmt.Fprintln(os.Stderr, "unknown property", id)
		return 2
	}
	if *crumb != "" {
		if err := explore.OpenCrumb(*crumb); err != nil {
			fmt.Fprintln(os.Stderr, "crumb:", err)
		}
	}
	c := &explore.Ctx{Property: id, Tier: *tier, Shard: *shard, NShards: *of, Only: *only, Known: loadKnown(id)}
	if *deadline > 0 {
		c.Deadline = time.Now().Add(time.Duration(*deadline * float64(time.Second)))
	}
	p.Run(c)
	wo := workerOut{Subs: c.Subs}
	b, err := json.Marshal(wo)
	if err != nil {
		fmt.Fprintln(os.Stderr, "marshal:", err)
		return 2
	}
	if *out == "" {
		os.Stdout.Write(b)
	} else if err := os.WriteFile(*out, b, 0o644); err != nil {
		fmt.Fprintln(os.Stderr, err)
		return 2
	}
	return 0
}

type knownLine struct {
	key  string
	text string
}

func knownFindings(id string) []knownLine {
	b, err := os.ReadFile(filepath.Join(verifRoot, "KNOWN_FINDINGS.txt"))
	if err != nil {
		return nil
	}
	var out []knownLine
	for _, l := range strings.Split(string(b), "\n") {
		l = strings.TrimSpace(l)
		if !strings.HasPrefix(l, "finding:") {
			continue
		}
		rest := strings.TrimSpace(strings.TrimPrefix(l, "finding:"))
		head, text, _ := strings.Cut(rest, "::")
		var prop, key string
		for _, f := range strings.Fields(head) {
			if strings.HasPrefix(f, "property=") {
				prop = strings.TrimPrefix(f, "property=")
			}
		}
		if i := strings.Index(head, "key="); i >= 0 {
			key = strings.TrimSpace(head[i+4:])
		}
		if prop == id && key != "" {
			out = append(out, knownLine{key, strings.TrimSpace(text)})
		}
	}
	return out
}

func loadKnown(id string) map[string]bool {
	m := map[string]bool{}
	for _, k := range knownFindings(id) {
		m[k.key] = true
	}
	return m
}

func check(args []string) int {
	fs := flag.NewFlagSet("check", flag.ExitOnError)
	tier := fs.String("tier", "quick", "")
	workers := fs.Int("workers", 0, "")
	only := fs.String("only", "", "run only this sub-check")
	deadline := fs.Float64("deadline", 0, "seconds (0 = tier default)")
	noEvidence := fs.Bool("no-evidence", false, "")
	if len(args) == 0 {
		usage()
	}
	id := args[0]
	fs.Parse(args[1:])
	if t := os.Getenv("VERIF_TIER"); t != "" && !flagSet(fs, "tier") {
		*tier = t
	}
	p := props.Get(id)
	if p == nil {
		fmt.Fprintln(os.Stderr, "unknown property", id)
		return 2
	}
	if *workers == 0 {
		*workers = runtime.NumCPU()
		if *workers > 16 {
			*workers = 16
		}
	}
	if *deadline == 0 {
		*deadline = 170
		if *tier == "thorough" {
			*deadline = 1500
		}
	}
	seed := 0
	if s := os.Getenv("VERIF_SEED"); s != "" {
		seed, _ = strconv.Atoi(s)
	}
	start := time.Now()
	work := filepath.Join(verifRoot, ".work", "run-"+id)
	os.RemoveAll(work)
	os.MkdirAll(work, 0o755)
	defer os.RemoveAll(work)
	self, _ := os.Executable()

	type res struct {
		out   workerOut
		err   error
		log   string
		crumb string
	}
	results := make([]res, *workers)
	var wg sync.WaitGroup
	for i := 0; i < *workers; i++ {
		wg.Add(1)
		go func(i int) {
			defer wg.Done()
			outf := filepath.Join(work, fmt.Sprintf("out-%d.json", i))
			crumbf := filepath.Join(crumbDir(work), fmt.Sprintf("mc-crumb-%s-%d-%d", id, os.Getpid(), i))
			defer os.Remove(crumbf)
			a := []string{"worker", id, "--tier", *tier, "--shard", strconv.Itoa(i), "--of", strconv.Itoa(*workers),
				"--out", outf, "--deadline", fmt.Sprint(*deadline), "--crumb", crumbf}
			if *only != "" {
				a = append(a, "--only", *only)
			}
			cmd := exec.Command(self, a...)
			cmd.Env = append(os.Environ(), "GOMAXPROCS=2", "GOGC=200")
			var stderr strings.Builder
			tw := &tailWriter{b: &stderr, max: 1 << 16}
			cmd.Stderr = tw
			cmd.Stdout = tw
			err := cmd.Run()
			results[i].log = stderr.String()
			results[i].crumb = crumbf
			if err != nil {
				results[i].err = err
				return
			}
			b, err := os.ReadFile(outf)
			if err != nil {
				results[i].err = err
				return
			}
			results[i].err = json.Unmarshal(b, &results[i].out)
		}(i)
	}
	wg.Wait()

	merged := map[string]*explore.SubStats{}
	var order []string
	var violations []explore.Violation
	inconclusive := 0
	for i, r := range results {
		if r.err != nil && killedBySignal(r.err) {
			// SIGKILL comes from outside the process (the kernel's out-of-memory killer, an operator):
			// nothing the code under test can do to itself. The run is inconclusive, not a violation.
			sub, cs := explore.ReadCrumb(r.crumb)
			fmt.Printf("INCONCLUSIVE property=%s worker %d was killed from outside (SIGKILL: out of memory?) while at sub=%s case=%s\n", id, i, sub, strconv.Quote(trunc(cs, 160)))
			inconclusive++
			continue
		}
		if r.err != nil {
			sub, cs := explore.ReadCrumb(r.crumb)
			v := explore.Violation{Property: id, Sub: sub, Key: "crash/worker", Rendered: cs,
				Input:  explore.J(map[string]any{"crumb": cs, "shard": i}),
				Detail: fmt.Sprintf("worker %d died: %v\n%s", i, r.err, tail(r.log, 6000))}
			violations = append(violations, v)
			continue
		}
		for _, s := range r.out.Subs {
			m := merged[s.Name]
			if m == nil {
				merged[s.Name] = s
				order = append(order, s.Name)
				continue
			}
			mergeSub(m, s)
		}
	}
	var subs []*explore.SubStats
	for _, n := range order {
		subs = append(subs, merged[n])
	}
	// known findings
	kl := knownFindings(id)
	ktext := map[string]string{}
	for _, k := range kl {
		ktext[k.key] = k.text
	}
	knownHit := map[string]*explore.KnownHit{}
	for _, s := range subs {
		for k, h := range s.Known {
			if o := knownHit[k]; o != nil {
				o.Count += h.Count
			} else {
				cp := *h
				knownHit[k] = &cp
			}
		}
		violations = append(violations, s.Violations...)
	}
	for _, k := range explore.SortedKeys(knownHit) {
		h := knownHit[k]
		fmt.Printf("KNOWN-FINDING: property=%s key=%s cases=%d example=%s :: %s\n", id, k, h.Count, strconv.Quote(trunc(h.Example, 120)), ktext[k])
	}
	// violations → replay files
	totalViol := int64(0)
	for _, s := range subs {
		totalViol += s.ViolationCount
	}
	for _, v := range violations {
		if v.Key == "crash/worker" {
			totalViol++
		}
	}
	rdir := filepath.Join(verifRoot, "replays", id)
	seenKey := map[string]int{}
	for _, v := range violations {
		seenKey[v.Key]++
		if seenKey[v.Key] > 1 || len(seenKey) > 40 {
			continue
		}
		os.MkdirAll(rdir, 0o755)
		b, _ := json.MarshalIndent(v, "", " ")
		h := sha1.Sum(b)
		path := filepath.Join(rdir, fmt.Sprintf("%x.json", h[:6]))
		os.WriteFile(path, b, 0o644)
		fmt.Printf("VIOLATION property=%s replay=%s\n", id, path)
		fmt.Printf("  sub=%s key=%s input=%s\n  %s\n", v.Sub, v.Key, strconv.Quote(trunc(v.Rendered, 200)), trunc(strings.ReplaceAll(v.Detail, "\n", "\n  "), 1500))
	}
	wall := time.Since(start).Seconds()
	// summary
	var tot struct{ exec, states, trans, valid, nontriv, undecided int64 }
	exhaustive := inconclusive == 0
	outcomes := 0
	for _, s := range subs {
		tot.exec += s.Executions
		tot.states += s.States
		tot.trans += s.Transitions
		tot.valid += s.Validated
		tot.nontriv += s.Nontrivial
		tot.undecided += s.Undecided
		outcomes += len(s.Outcomes)
		if !s.Exhaustive {
			exhaustive = false
		}
		fmt.Printf("%s/%s: executions=%d states=%d transitions=%d validated=%d nontrivial=%d undecided=%d outcomes=%d violations=%d exhaustive=%v %s wall=%.1fs\n",
			id, s.Name, s.Executions, s.States, s.Transitions, s.Validated, s.Nontrivial, s.Undecided, len(s.Outcomes), s.ViolationCount, s.Exhaustive, s.CapHit, s.WallS)
		for _, k := range explore.SortedKeys(s.ViolationKeys) {
			fmt.Printf("    violation key %q: %d cases\n", k, s.ViolationKeys[k])
		}
	}
	fmt.Printf("%s %s: executions=%d states=%d transitions=%d violations=%d known=%d exhaustive=%v wall=%.1fs\n",
		id, *tier, tot.exec, tot.states, tot.trans, totalViol, len(knownHit), exhaustive, wall)

	if !*noEvidence {
		var samples []any
		var rules []string
		for _, s := range subs {
			for i, x := range s.Samples {
				if i < 6 {
					samples = append(samples, map[string]any{"sub": s.Name, "case": x})
				}
			}
			rules = append(rules, s.Name+": "+s.Space+" | oracle: "+s.Oracle+" | non-trivial: "+s.NontrivialRule)
			// trim big fields for the evidence file
			if len(s.Samples) > 8 {
				s.Samples = s.Samples[:8]
			}
			if s.Extra == nil {
				s.Extra = map[string]any{}
			}
			if len(s.Outcomes) > 60 {
				s.Extra["outcome_classes"] = len(s.Outcomes)
				s.Outcomes = topOutcomes(s.Outcomes, 60)
			}
		}
		if len(samples) == 0 {
			samples = append(samples, "(no case executed)")
		}
		kf := []any{}
		for _, k := range explore.SortedKeys(knownHit) {
			kf = append(kf, knownHit[k])
		}
		ev := map[string]any{
			"property_id": id, "tier": *tier, "seed": seed, "level": "model_checking",
			"coverage": map[string]any{
				"states": max64(tot.states, 0), "transitions": tot.trans, "traces_validated_against_impl": tot.valid,
				"evaluations": tot.exec, "distinct_nontrivial": tot.nontriv,
				"rule":              strings.Join(rules, " || "),
				"samples":           samples,
				"exhaustive":        exhaustive,
				"undecided":         tot.undecided,
				"distinct_outcomes": outcomes,
				"subchecks":         subs,
				"known_findings":    kf,
				"workers":           *workers,
				"seed_note":         "VERIF_SEED is recorded but unused: nothing is sampled",
			},
			"assumptions": props.Get(id).Assumptions,
			"wall_s":      wall, "violations": totalViol,
		}
		b, _ := json.MarshalIndent(ev, "", " ")
		os.MkdirAll(filepath.Join(verifRoot, "evidence"), 0o755)
		os.WriteFile(filepath.Join(verifRoot, "evidence", id+".json"), b, 0o644)
	}
	if totalViol > 0 {
		return 1
	}
	if inconclusive > 0 {
		return 2 // no verdict: part of the space was not explored
	}
	return 0
}

// crumbDir: breadcrumb files are memory-mapped and rewritten before every case; keep them on
// tmpfs when there is one so the kernel never writes them back to disk.
func crumbDir(work string) string {
	if st, err := os.Stat("/dev/shm"); err == nil && st.IsDir() {
		return "/dev/shm"
	}
	return work
}

func topOutcomes(m map[string]int64, n int) map[string]int64 {
	ks := explore.SortedKeys(m)
	sort.SliceStable(ks, func(i, j int) bool { return m[ks[i]] > m[ks[j]] })
	out := map[string]int64{}
	for i, k := range ks {
		if i >= n {
			out["(rest)"] += m[k]
		} else {
			out[k] = m[k]
		}
	}
	return out
}

func max64(a, b int64) int64 {
	if a > b {
		return a
	}
	return b
}

func flagSet(fs *flag.FlagSet, name string) bool {
	found := false
	fs.Visit(func(f *flag.Flag) {
		if f.Name == name {
			found = true
		}
	})
	return found
}

func mergeSub(m, s *explore.SubStats) {
	m.Executions += s.Executions
	m.States += s.States
	m.Transitions += s.Transitions
	m.Validated += s.Validated
	m.Undecided += s.Undecided
	m.Skipped += s.Skipped
	m.Nontrivial += s.Nontrivial
	m.ViolationCount += s.ViolationCount
	if m.Outcomes == nil {
		m.Outcomes = map[string]int64{}
	}
	if m.Max == nil {
		m.Max = map[string]int64{}
	}
	if m.Extra == nil {
		m.Extra = map[string]any{}
	}
	for k, v := range s.Outcomes {
		m.Outcomes[k] += v
	}
	for k, v := range s.ViolationKeys {
		if m.ViolationKeys == nil {
			m.ViolationKeys = map[string]int64{}
		}
		m.ViolationKeys[k] += v
	}
	for k, v := range s.Max {
		if v > m.Max[k] {
			m.Max[k] = v
		}
	}
	for k, v := range s.Extra {
		if a, ok := v.(float64); ok {
			if b, ok := m.Extra[k].(float64); ok {
				m.Extra[k] = a + b
				continue
			}
		}
		if _, ok := m.Extra[k]; !ok {
			m.Extra[k] = v
		}
	}
	if len(m.Samples) < 24 {
		m.Samples = append(m.Samples, s.Samples...)
	}
	for k, h := range s.Known {
		if o := m.Known[k]; o != nil {
			o.Count += h.Count
		} else {
			if m.Known == nil {
				m.Known = map[string]*explore.KnownHit{}
			}
			m.Known[k] = h
		}
	}
	m.Violations = append(m.Violations, s.Violations...)
	if !s.Exhaustive {
		m.Exhaustive = false
		if m.CapHit == "" {
			m.CapHit = s.CapHit
		}
	}
	if s.WallS > m.WallS {
		m.WallS = s.WallS
	}
}

func replay(args []string) int {
	if len(args) < 1 {
		usage()
	}
	b, err := os.ReadFile(args[0])
	if err != nil {
		fmt.Fprintln(os.Stderr, err)
		return 2
	}
	var v explore.Violation
	if err := json.Unmarshal(b, &v); err != nil {
		fmt.Fprintln(os.Stderr, err)
		return 2
	}
	p := props.Get(v.Property)
	if p == nil || p.Replay == nil {
		fmt.Fprintln(os.Stderr, "no replayer for", v.Property)
		return 2
	}
	c := &explore.Ctx{Property: v.Property, Tier: "quick", NShards: 1, Known: map[string]bool{}}
	s := c.Sub(v.Sub, "replay", "", "")
	p.Replay(c, s, v)
	if s.ViolationCount == 0 {
		fmt.Printf("replay of %s: no violation (property holds on this input now)\n", args[0])
		return 0
	}
	for _, nv := range s.Violations {
		fmt.Printf("VIOLATION property=%s replay=%s\n  key=%s input=%s\n  %s\n", v.Property, args[0], nv.Key, strconv.Quote(trunc(nv.Rendered, 200)), nv.Detail)
	}
	return 1
}

type tailWriter struct {
	b   *strings.Builder
	max int
}

func (t *tailWriter) Write(p []byte) (int, error) {
	t.b.Write(p)
	if t.b.Len() > 4*t.max {
		s := t.b.String()
		t.b.Reset()
		t.b.WriteString(s[len(s)-t.max:])
	}
	return len(p), nil
}

func tail(s string, n int) string {
	if len(s) > n {
		return s[:n/2] + "\n...\n" + s[len(s)-n/2:]
	}
	return s
}

func trunc(s string, n int) string {
	if len(s) > n {
		return s[:n] + "…"
	}
	return s
}

// killedBySignal: the worker process ended by SIGKILL.
func killedBySignal(err error) bool {
	var ee *exec.ExitError
	if errors.As(err, &ee) {
		if ws, ok := ee.Sys().(syscall.WaitStatus); ok && ws.Signaled() && ws.Signal() == syscall.SIGKILL {
			return true
		}
	}
	return false
}
