// Package refcoerce is the reference semantics of GraphQL input coercion for variable
// values (specification §3 "Input Coercion" of each type, §6.1.2 CoerceVariableValues),
// over plain Go values: structural recursion, no reflection tricks beyond kind tests.
//
// Two judgements:
//
//	Coercible(v, t): the supplied value v can be coerced to type t
//	Conforms(v, t) : the returned value v is a value of type t
//
// Where the specification or the property text does not take a side the judgement
// returns Undecided and the caller does not compare.
package refcoerce

import (
	"encoding/json"
	"reflect"
	"strconv"
	"strings"
)

type Verdict int

const (
	No Verdict = iota
	Yes
	Undecided
)

func (v Verdict) String() string { return [...]string{"no", "yes", "undecided"}[v] }

// LastWhy names the clause behind the most recent No verdict (diagnosis / cause keys).
var LastWhy string

func no(why string) Verdict { LastWhy = why; return No }

func and(a, b Verdict) Verdict {
	if a == No || b == No {
		return No
	}
	if a == Undecided || b == Undecided {
		return Undecided
	}
	return Yes
}

// Type is a type reference.
type Type struct {
	Elem    *Type // list element type (nil for a named type)
	Named   string
	NonNull bool
}

func (t *Type) String() string {
	s := t.Named
	if t.Elem != nil {
		s = "[" + t.Elem.String() + "]"
	}
	if t.NonNull {
		s += "!"
	}
	return s
}

type Field struct {
	Name       string
	Type       *Type
	HasDefault bool
}

// Def is a named input type.
type Def struct {
	Kind   string // "SCALAR" (built-in by name, else custom), "ENUM", "INPUT_OBJECT"
	Values []string
	Fields []Field
}

type Schema map[string]*Def

func isNil(v any) bool {
	if v == nil {
		return true
	}
	rv := reflect.ValueOf(v)
	switch rv.Kind() {
	case reflect.Ptr, reflect.Interface, reflect.Map, reflect.Slice:
		// a nil map or slice is still a map or slice value, not null
		return rv.Kind() == reflect.Ptr && rv.IsNil()
	}
	return false
}

func kindOf(v any) reflect.Kind { return reflect.ValueOf(v).Kind() }

// scalarKind is the kind table the library documents for built-in scalars ("compatible
// kind"): Int ← int, int32, int64, float32, float64, integer string; Float ← floats, ints,
// numeric string; String ← string; Boolean ← bool; ID ← int, int32, int64, string.
// json.Number is a string kind. Kinds outside the table (unsigned, int8/16, …) are
// undecided; clearly foreign kinds (bool for Int, map, slice) are a mismatch.
func scalarKind(name string, v any) Verdict {
	k := kindOf(v)
	isInt := k == reflect.Int || k == reflect.Int32 || k == reflect.Int64
	isFloat := k == reflect.Float32 || k == reflect.Float64
	switch k {
	case reflect.Int8, reflect.Int16, reflect.Uint, reflect.Uint8, reflect.Uint16, reflect.Uint32, reflect.Uint64:
		if name != "String" && name != "Boolean" {
			return Undecided
		}
	}
	str := func() string {
		if n, ok := v.(json.Number); ok {
			return string(n)
		}
		return reflect.ValueOf(v).String()
	}
	switch name {
	case "Int":
		if isInt || isFloat {
			return Yes
		}
		if k == reflect.String {
			if _, err := strconv.ParseInt(str(), 10, 64); err == nil {
				return Yes
			}
		}
	case "Float":
		if isInt || isFloat {
			return Yes
		}
		if k == reflect.String {
			if _, err := strconv.ParseFloat(str(), 64); err == nil {
				return Yes
			}
		}
	case "String":
		if k == reflect.String {
			return Yes
		}
	case "Boolean":
		if k == reflect.Bool {
			return Yes
		}
	case "ID":
		if isInt || k == reflect.String {
			return Yes
		}
	}
	return no("wrong kind for " + name)
}

func builtin(name string) bool {
	switch name {
	case "Int", "Float", "String", "Boolean", "ID":
		return true
	}
	return false
}

// named judges a non-null value against a named type; out selects the Conforms reading.
func (s Schema) named(v any, name string, out bool) Verdict {
	def := s[name]
	if def == nil {
		return Undecided
	}
	switch def.Kind {
	case "SCALAR":
		if !builtin(name) {
			return Yes // custom scalars accept any value
		}
		return scalarKind(name, v)
	case "ENUM":
		if kindOf(v) != reflect.String {
			return no("enum from non-string")
		}
		str := reflect.ValueOf(v).String()
		fold := false
		for _, e := range def.Values {
			if e == str {
				return Yes
			}
			if strings.EqualFold(e, str) {
				fold = true
			}
		}
		if fold {
			// the library matches enum names case-insensitively; the property says "declared
			// values": a value differing only in case is not taken a side on
			return Undecided
		}
		return no("undeclared enum value")
	case "INPUT_OBJECT":
		rv := reflect.ValueOf(v)
		if rv.Kind() != reflect.Map || rv.Type().Key().Kind() != reflect.String {
			return no("input object from non-map")
		}
		res := Yes
		for _, k := range rv.MapKeys() {
			known := false
			for _, f := range def.Fields {
				if f.Name == k.String() {
					known = true
				}
			}
			if !known {
				if k.String() == "__typename" {
					// deliberately tolerated by the library; not a declared field
					res = and(res, Undecided)
					continue
				}
				return no("unknown input field")
			}
		}
		for _, f := range def.Fields {
			fv := rv.MapIndex(reflect.ValueOf(f.Name))
			if !fv.IsValid() {
				if f.Type.NonNull && !f.HasDefault {
					return no("required input field missing")
				}
				continue
			}
			var x any
			if fv.CanInterface() {
				x = fv.Interface()
			}
			if out {
				res = and(res, s.Conforms(x, f.Type))
			} else {
				res = and(res, s.Coercible(x, f.Type))
			}
			if res == No {
				return No
			}
		}
		return res
	}
	return Undecided
}

// Coercible: can the supplied value be coerced to t?
func (s Schema) Coercible(v any, t *Type) Verdict {
	if isNil(v) {
		if t.NonNull {
			return no("null in non-null position")
		}
		return Yes
	}
	if t.Elem != nil {
		rv := reflect.ValueOf(v)
		if rv.Kind() == reflect.Slice || rv.Kind() == reflect.Array {
			res := Yes
			for i := 0; i < rv.Len(); i++ {
				res = and(res, s.Coercible(rv.Index(i).Interface(), t.Elem))
				if res == No {
					return No
				}
			}
			return res
		}
		// a single value is coerced to a list of one item
		return s.Coercible(v, t.Elem)
	}
	if k := kindOf(v); (k == reflect.Slice || k == reflect.Array) && (s[t.Named] == nil || s[t.Named].Kind != "SCALAR" || builtin(t.Named)) {
		return no("list for non-list type")
	}
	return s.named(v, t.Named, false)
}

// Conforms: is the returned value a value of type t?
func (s Schema) Conforms(v any, t *Type) Verdict {
	if isNil(v) {
		if t.NonNull {
			return no("null in non-null position")
		}
		return Yes
	}
	if t.Elem != nil {
		rv := reflect.ValueOf(v)
		if rv.Kind() != reflect.Slice && rv.Kind() != reflect.Array {
			return no("non-list value in list position")
		}
		res := Yes
		for i := 0; i < rv.Len(); i++ {
			res = and(res, s.Conforms(rv.Index(i).Interface(), t.Elem))
			if res == No {
				return No
			}
		}
		return res
	}
	if k := kindOf(v); (k == reflect.Slice || k == reflect.Array) && (s[t.Named] == nil || s[t.Named].Kind != "SCALAR" || builtin(t.Named)) {
		return no("list for non-list type")
	}
	return s.named(v, t.Named, true)
}
