package props

import (
	"fmt"
	"strings"
	"time"

	"github.com/vektah/gqlparser/v2/ast"
	"github.com/vektah/gqlparser/v2/gqlerror"
	"github.com/vektah/gqlparser/v2/parser"
	"github.com/vektah/gqlparser/v2/validator"
	"github.com/vektah/gqlparser/v2/validator/rules"

	"verif/mc/explore"
)

// The default rule set is a process-global registry changed through AddRule / RemoveRule /
// ReplaceRule. Explicit-state search over that registry: a state is the list of (name, rule
// function) entries; every sequence of operations up to a depth is replayed on a freshly reset
// registry, and validation with the default set must equal validation with the explicit list
// the documented semantics of the operations give (Add appends; Remove deletes every entry of
// the name; Replace overwrites every entry of the name in place, or appends when there is none).

type regEntry struct {
	Name string
	Func string // id of the rule function
}

var regCustom = validator.Rule{Name: "Custom", RuleFunc: func(observers *validator.Events, addError validator.AddErrFunc) {
	observers.OnOperation(func(walker *validator.Walker, op *ast.OperationDefinition) {
		addError(validator.Message("custom rule saw operation %s", op.Name), validator.At(op.Position))
	})
}}

var regFuncs = map[string]validator.RuleFunc{
	"KnownArgumentNames":                   rules.KnownArgumentNamesRule.RuleFunc,
	"KnownArgumentNamesWithoutSuggestions": rules.KnownArgumentNamesRuleWithoutSuggestions.RuleFunc,
	"ScalarLeafs":                          rules.ScalarLeafsRule.RuleFunc,
	"Custom":                               regCustom.RuleFunc,
}

type regOp struct {
	Kind string // add | remove | replace
	Name string
	Func string
}

func (o regOp) String() string {
	if o.Kind == "remove" {
		return "RemoveRule(" + o.Name + ")"
	}
	return map[string]string{"add": "AddRule", "replace": "ReplaceRule"}[o.Kind] + "(" + o.Name + ", " + o.Func + ")"
}

var regOps = []regOp{
	{"remove", "KnownArgumentNames", ""}, {"remove", "ScalarLeafs", ""}, {"remove", "Custom", ""},
	{"replace", "KnownArgumentNames", "KnownArgumentNamesWithoutSuggestions"}, {"replace", "KnownArgumentNames", "KnownArgumentNames"},
	{"replace", "Custom", "Custom"}, {"add", "Custom", "Custom"}, {"add", "ScalarLeafs", "ScalarLeafs"}, {"replace", "ScalarLeafs", "ScalarLeafs"},
	// a name registered twice (AddRule does not de-duplicate), so that a later ReplaceRule / RemoveRule has two entries to act on
	{"add", "KnownArgumentNames", "KnownArgumentNames"}, {"replace", "Custom", "ScalarLeafs"},
	// a rule registered under a name that another name is a prefix of; names that are a prefix of registered names, or empty
	{"add", "KnownArgumentNamesWithoutSuggestions", "KnownArgumentNamesWithoutSuggestions"}, {"remove", "Known", ""}, {"remove", "", ""},
}

func regInitial() []regEntry {
	var out []regEntry
	for _, r := range c18Standard {
		out = append(out, regEntry{r.Name, r.Name})
	}
	return out
}

func regApplyModel(st []regEntry, o regOp) []regEntry {
	var out []regEntry
	switch o.Kind {
	case "add":
		return append(append(out, st...), regEntry{o.Name, o.Func})
	case "remove":
		for _, e := range st {
			if e.Name != o.Name {
				out = append(out, e)
			}
		}
		return out
	default:
		found := false
		for _, e := range st {
			if e.Name == o.Name {
				found = true
				out = append(out, regEntry{o.Name, o.Func})
			} else {
				out = append(out, e)
			}
		}
		if !found {
			out = append(out, regEntry{o.Name, o.Func})
		}
		return out
	}
}

func regApplyReal(o regOp) {
	switch o.Kind {
	case "add":
		validator.AddRule(o.Name, regFuncs[o.Func])
	case "remove":
		validator.RemoveRule(o.Name)
	default:
		validator.ReplaceRule(o.Name, regFuncs[o.Func])
	}
}

// regReset brings the global registry back to the standard rules in registration order,
// through the public API only.
func regReset() {
	for _, r := range c18Standard {
		validator.RemoveRule(r.Name)
	}
	validator.RemoveRule("Custom")
	validator.RemoveRule("") // entries a faulty registry operation may have left without a name
	validator.RemoveRule("KnownArgumentNamesWithoutSuggestions")
	for _, r := range c18Standard {
		validator.AddRule(r.Name, r.RuleFunc)
	}
}

// replaceRuleBounded calls validator.ReplaceRule under a step budget: an edit of a registry of a few dozen rules that
// takes more than 10⁵ steps (a registry that grows with every call) is stopped before it exhausts memory; callers stop
// editing when it reports false and let their own oracle judge what the registry has become.
func replaceRuleBounded(name string, f validator.RuleFunc) bool {
	r := guarded(100000, 0, func() { validator.ReplaceRule(name, f) })
	return !r.Panicked
}

func regKey(st []regEntry) string {
	var b strings.Builder
	for _, e := range st {
		b.WriteString(e.Name + "=" + e.Func + ";")
	}
	return b.String()
}

var regDocs = []string{
	`query Q { pet(kindd: DOG, knd: CAT) { id { x } name } person }`,
	`{ id }`,
	`query A { search(qq: 1) { __typename } } query B { node(id: 1) }`,
}

type regInput struct {
	Ops []int `json:"ops"`
}

func regCase(c *explore.Ctx, s *explore.SubStats, path []int) (state []regEntry) {
	regReset()
	defer regReset()
	state = regInitial()
	var names []string
	for _, oi := range path {
		regApplyReal(regOps[oi])
		state = regApplyModel(state, regOps[oi])
		names = append(names, regOps[oi].String())
	}
	s.Executions++
	rendered := strings.Join(names, "; ")
	if rendered == "" {
		rendered = "(no operation)"
	}
	explicit := []validator.Rule{}
	for _, e := range state {
		f := regFuncs[e.Func]
		if f == nil {
			for _, r := range c18Standard {
				if r.Name == e.Func {
					f = r.RuleFunc
				}
			}
		}
		explicit = append(explicit, validator.Rule{Name: e.Name, RuleFunc: f})
	}
	schema := kitSchema(0)
	for _, q := range regDocs {
		parse := func() *ast.QueryDocument {
			d, err := parser.ParseQuery(&ast.Source{Name: "q.graphql", Input: q})
			if err != nil {
				panic(err)
			}
			return d
		}
		var def, exp gqlerror.List
		r := guarded(0, 0, func() { def = validator.Validate(schema, parse()) })
		s.Transitions++
		if r.Panicked {
			c.Report(s, explore.Violation{Key: "registry/panic site=" + r.Site, Input: explore.J(regInput{path}), Rendered: rendered + " then validate " + q, Detail: r.PanicVal})
			continue
		}
		exp = validator.Validate(schema, parse(), explicit...)
		s.Validated++
		a, b := fmt.Sprint(errItems(def)), fmt.Sprint(errItems(exp))
		if a != b {
			last := "initial"
			if len(path) > 0 {
				last = regOps[path[len(path)-1]].Kind
			}
			c.Report(s, explore.Violation{Key: "registry/default-differs after=" + last + " " + c18FirstRule(errItems(def), errItems(exp)), Input: explore.J(regInput{path}), Rendered: rendered + " then validate " + q,
				Detail: "after these registry operations the default rule set reports other errors than the explicit list of the rules the registry should hold (" + regKey(state) + ")", Expected: b, Observed: a})
		}
		for _, e := range def {
			if e.Rule == "" {
				c.Report(s, explore.Violation{Key: "registry/error-without-rule", Input: explore.J(regInput{path}), Rendered: rendered + " then validate " + q, Detail: "error without a rule name: " + e.Message})
			}
		}
		if len(def) > 0 {
			s.Nontrivial++
		}
	}
	return state
}

func registrySub(c *explore.Ctx) {
	depth := c.Pick(4, 6)
	s := c.Sub("registry", fmt.Sprintf("explicit-state search over the global rule registry: every sequence of ≤ %d operations from %d (RemoveRule / ReplaceRule / AddRule on two registered rules and one unregistered rule, with the standard function, a without-suggestions variant, another rule's function or a custom rule; names can be registered twice), states deduplicated by registry content, each reached by replaying its shortest path on a reset registry; 3 documents validated in every state", depth, len(regOps)),
		"Validate with the default rule set = Validate with the explicit list the documented semantics of the operations give; every error names its rule", "states whose documents report errors")
	if s == nil {
		return
	}
	t0 := time.Now()
	defer regReset()
	seen := map[string]bool{regKey(regInitial()): true}
	frontier := [][]int{{}}
	if c.Shard == 0 {
		regCase(c, s, nil)
	}
	idx := 0
	for d := 0; d < depth; d++ {
		var next [][]int
		for _, path := range frontier {
			// the model decides the successor states (every worker computes the same frontier)
			st := regInitial()
			for _, oi := range path {
				st = regApplyModel(st, regOps[oi])
			}
			for oi := range regOps {
				np := append(append([]int{}, path...), oi)
				ns := regApplyModel(st, regOps[oi])
				s.Transitions++
				idx++
				if idx%c.NShards == c.Shard {
					// every transition is executed on the real registry, also those that lead to a known state
					regCase(c, s, np)
				}
				k := regKey(ns)
				if !seen[k] {
					seen[k] = true
					next = append(next, np)
				}
			}
		}
		frontier = next
	}
	s.States = int64(len(seen))
	if c.Shard != 0 {
		s.States = 0
	}
	s.WallS = time.Since(t0).Seconds()
}
