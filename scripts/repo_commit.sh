#!/bin/bash
# repo_commit.sh <message file>  — run the repository's own suite on /repo's working tree and commit only if it is green.
. "$(dirname "$0")/env.sh"
cd /repo || exit 2
out="$(go test -vet=off -count=1 ./... 2>&1)"
if echo "$out" | grep -q "^FAIL\|^--- FAIL\|panic:"; then echo "$out" | grep -v "^ok\|no test files" | head -40; echo "SUITE FAILS — not committed"; exit 1; fi
[ -n "$(gofmt -l . 2>/dev/null)" ] && { echo "gofmt: $(gofmt -l .)"; exit 1; }
git commit -qa -F "$1" && git log --oneline | head -1
