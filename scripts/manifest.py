#!/usr/bin/env python3
"""Regenerates /verif/MANIFEST.json from the table below (kept in one place so it is always valid)."""
import json, os
root = os.path.dirname(os.path.dirname(os.path.abspath(__file__)))
ids = [json.loads(l)['id'] for l in open(os.path.join(root, 'properties.jsonl'))]
T = "bounded-exhaustive model checking of the real code: "
claimed = {
 "C01": dict(
   technique=T + "every string ≤5/6 symbols over 28 byte classes and ≤4/5 over 43 macro symbols, every token sequence ≤4/5 tokens × every token limit, plus size families on a doubling grid; totality invariant and deterministic step budget evaluated on every execution",
   text="Exhaustive enumeration of all inputs up to the stated lengths over alphabets with one representative per byte/token class the lexer and parsers branch on, each executed on the instrumented real code (lex to end, both parsers, every limit, two-source split); invariant: returns, nil-error⇒document, error location inside input, progress, step budget. Size families give linear step bounds on a doubling grid to 64 KiB unlimited / 8 MiB limited. Worker death (stack exhaustion) is caught by subprocess isolation and a memory-mapped breadcrumb.",
   note="Trusted: the instrumenter (adds counters only, no semantic change), Go toolchain. Inputs longer than the bounds are covered only through the size families.",
   ref="DESIGN.md §4 C01"),
 "C03": dict(
   technique=T + "every string ≤6/7 symbols over 19 lexically significant symbols, ≤5/6 over 18 escape-level symbols, every block-string body ≤8/10 over 7 symbols, ignored-token strings at every gap of token pairs; token stream compared with a reference lexer written from the Oct-2021 grammar (model bound to the code by replaying lexer_test.yml)",
   text="Exhaustive enumeration of short source strings; for each, the real lexer's complete token stream (kinds, character extents, decoded values, failure index) is compared with ref/reflex, a cursor-free longest-match lexer transcribed from the specification including BlockStringValue. Known defects are excused only when the model with exactly that defect emulated reproduces the output.",
   note="Trusted: ref/reflex (validated against the 88 graphql-js-derived cases of lexer_test.yml on every run). Non-BMP characters count as one character; invalid UTF-8 and surrogate escapes are undecided.",
   ref="DESIGN.md §4 C03"),
 "C04": dict(
   technique=T + "every short source string (token positions), every token sequence ≤3/4 tokens × 8 separators (error locations), profile documents with every placement of ≤2 non-default separators and every single-token deletion, type systems cut into 1–3 named sources at every boundary with injected faults, invalid documents for every validation rule; every position/location checked against offsets, token starts, lines and columns recomputed from the text",
   text="Every token, every *ast.Position reachable by reflection from parsed documents, loaded schemas and validated documents, and every location of every syntax, schema and validation error is checked: offset inside the source, start of a token (per ref/reflex), line = 1 + LF/CR/CRLF terminators before it, column = characters since line start + 1, and the named file is the source the text came from. Separators (LF, CR, CRLF, BOM, tabs, commas, multi-byte comments, multi-line descriptions) are placed exhaustively at ≤2 gaps.",
   note="Trusted: ref/reflex and the character/line table. Node positions are judged as the property states (some token start, consistent line/column, right source), not against an expected token per node type.",
   ref="DESIGN.md §4 C04"),
 "C05": dict(
   technique=T + "every token sequence ≤4/5 tokens over 26 token classes and ≤5/7 over 16 core classes (acceptance ⇔ membership in the enumerated language of a reference grammar held as data; tree equality), every single-token mutation (delete, duplicate, swap, substitute, insert) of every sentence ≤6/7 tokens (full-name grammar) and ≤9/12 tokens (G¹) and of long profile documents, every sentence ≤5/7 tokens under ≤2 non-default separators at every pair of gaps",
   text="The executable grammar (Oct 2021 + fragment variables) is held as data in ref/refgrammar with two independent generic consumers: a bottom-up enumerator (all sentences ≤ n tokens with their trees) and an all-paths memoised recogniser (arbitrary length). Every enumerated token sequence is parsed by the real ParseQuery; verdict and canonical tree projection must equal the model's. The edit-distance-1 neighbourhood of the language (all single-token mutations of all short sentences and of long profile documents that contain every construct and constant context) is decided by the recogniser. Ignored tokens: every placement of ≤2 separators (comma, LF, CR, CRLF, tab, BOM, comments, nothing) must leave the tree unchanged.",
   note="Trusted: ref/refgrammar (self-checked on every run: enumerator and recogniser must agree on every sequence ≤3 tokens and every sentence ≤6 tokens; replayed against parser/query_test.yml) and ref/reflex for tokenisation. Token classes stand for all tokens of their class; the empty document is undecided.",
   ref="DESIGN.md §4 C05"),
 "C06": dict(
   technique=T + "every token sequence ≤4/5 tokens over 38 token classes and ≤5/6 over 20 core classes (acceptance ⇔ membership in the enumerated language; tree equality), every single-token mutation (delete, duplicate, swap, substitute, insert) of every sentence ≤4/5 (full-name) and ≤7/9 (G¹) tokens and of long profile documents holding every constant context, ≤2 separators at every pair of gaps, every ordered pair/triple of short documents as separate sources × every built-in flag assignment",
   text="As C05 for the type-system grammar (definitions, extensions, descriptions, constant directives and defaults) against ParseSchema; additionally ParseSchemas over 2–3 sources must equal the tree of the concatenated token sequence and every definition/extension must carry the BuiltIn flag of its own source. A recorded defect (enum values true/false/null accepted by the parser) is excused only where the grammar with exactly that defect emulated derives exactly the parser's tree.",
   note="Trusted: ref/refgrammar (self-checked; replayed against parser/schema_test.yml) and ref/reflex. Token classes stand for all tokens of their class; the empty document is undecided.",
   ref="DESIGN.md §4 C06"),
 "C12": dict(
   technique=T + "every executable sentence ≤7/8 tokens (full-name grammar) and ≤11/13 (G¹), every string value ≤3/4 symbols over 20 awkward characters and every block-string body ≤4/5 over 11 symbols in five value positions, profile documents with a comment at every gap — each × all 16 formatter configurations; metamorphic oracle parse∘format = id (canonical projection) and format∘parse∘format = format",
   text="Every enumerated document is parsed by the real parser, formatted under every configuration (4 indents × comments × compacted), re-parsed and compared through the canonical projection (string values byte for byte; block and quoted strings of equal value identified), and re-formatted to check the fixpoint. The string alphabet holds quote, backslash, LF, CR, tab, C0 controls, DEL, NBSP, BOM, U+2028, non-BMP and non-printable non-BMP characters and triple quotes.",
   note="Trusted: the parser as tree constructor (decided by C05), the projection walker. Comments are not part of the compared document.",
   ref="DESIGN.md §4 C12"),
 "C16": dict(
   technique=T + "every token sequence ≤4/5 tokens over 26 / 38 token classes (comments and an invalid token included) × every limit 0…N+2, every sentence ≤7/9 (executable) and ≤6/7 (type-system) tokens plain and with a comment at every gap × every limit, and 28 short-token size families × n = 2^k to 1/8 MiB × limits {1,16,1024,65536} under deterministic step and call-depth bounds that do not mention the input size",
   text="Exactness: for every enumerated input and every limit L the limited entry point succeeds ⇔ the unlimited one succeeds ∧ (L = 0 ∨ N ≤ L), N counted by the reference lexer with comments included, with an identical tree; monotone in L. Bounded work: on inputs with more than L tokens the instrumented step count and maximum call depth stay below 4000+600·L and 200+70·L however large or deeply nested the input is (measured ≈30 steps and ≈4 levels per unit of L on the unchanged tree).",
   note="Trusted: ref/reflex for N, the instrumenter's step counter. Inputs with one giant token or one giant run of ignored characters are excluded from the work bound (any lexer scans them in full before counting).",
   ref="DESIGN.md §4 C16"),
 "C19": dict(
   technique=T + "every executable sentence ≤7/8 tokens (full-name) and ≤11/13 (G¹), every selection tree of depth ≤3 over the five selection shapes in all orders, every ordered triple of 15 decorated selections as siblings (top level and nested), profile documents; oracle json.Unmarshal∘json.Marshal = id on the canonical projection",
   text="Every enumerated document is parsed by the real parser, encoded with encoding/json, decoded back and compared through the canonical projection: selection kinds at every depth and in every order, names, aliases, arguments, all value kinds, directives, type conditions, variable definitions.",
   note="Trusted: the parser as tree constructor (C05), encoding/json, the projection walker. Positions are not encoded (json:\"-\") and not compared.",
   ref="DESIGN.md §4 C19"),
 "C14": dict(
   technique=T + "all 240 variable types (list depth ≤3 × every non-null pattern × 8 named types) × every value within ≤2/3 deviations of the conforming skeleton (choice-tree DFS with prefix replay and deviation bounding over 28 leaf alternatives (incl. strings and ints of a named Go type), 12 list shapes (5 of them typed Go slices), 26 input-object variants) × default/no default, plus absent / explicit-null modes; oracle: reference coercion semantics (ref/refcoerce) on every execution",
   text="For every enumerated (type, variables) pair the real VariableValues runs on a freshly validated operation: it must return normally; if ref/refcoerce judges the value not coercible an error must come back; when values come back every declared variable must conform to its declared type (non-null, list items at every depth incl. single-value coercion, declared input fields with required ones present, declared enum values, compatible scalar kinds), absent variables hold their defaults, explicit nulls stay null, and a second absent variable keeps its default.",
   note="Trusted: ref/refcoerce (structural recursion from the specification; the scalar kind table is the library's documented one). Undecided and not compared: case-insensitive enum matches, __typename keys, unsigned/small integer kinds, numeric range. Refusing a coercible value is not a violation.",
   ref="DESIGN.md §4 C14"),
 "C15": dict(
   technique=T + "a field and a directive with 11 arguments of every flavour × every argument source (omitted, 30 literals, variable × 3 declarations × 3 supply modes, variable nested in list/object/custom-scalar literals × the same 9) and every pair of sources on different arguments; oracle: CoerceArgumentValues computed from the case description, compared with ArgumentMap on every validated and coerced case",
   text="Every case is rendered to a document, validated by the library, its variables coerced by the library, and ArgumentMap of the field / directive is compared (keys and values) with the specification's CoerceArgumentValues computed from the check's own description of the case: literal (converted recursively, nested variables substituted) > variable value > argument default > absent. Panics are violations; a recorded one (out-of-range numeric literal for a custom scalar) is excused only under its exact (site, message, trigger) key.",
   note="Trusted: the check's literal model. Only validated documents and coerced variables are judged (the property's precondition). Nested variables with no value at all are undecided (keys still checked).",
   ref="DESIGN.md §4 C15"),
 "C07": dict(
   technique=T + "every type system = a 15-definition base + ≤3/4 of ~120 menu items (good variants and one bad variant per listed rule, incl. extensions of built-ins) and every type-system sentence ≤5/6 tokens on a minimal base; LoadSchema verdict compared with a reference rule evaluator (ref/refschema) and, on success, an invariant over the whole schema graph evaluated on every loaded schema",
   text="For every enumerated type system the real LoadSchema must succeed exactly when ref/refschema finds no broken rule among those the property lists. Every schema that loads is walked completely: built-in scalars, directives, introspection types and fields present; every type reference, interface, union member and directive use resolves to the right kind and to the definition stored in the schema; per type, fields / enum values / directive uses equal definitions ∪ extensions; PossibleTypes and Implements equal the relations the definitions imply (no nil, pointer identity); roots equal the declared or default ones. All loads of one worker run in one process, so state leaking from one load into the next shows up as a later mismatch.",
   note="Trusted: ref/refschema (reads only syntactic fields of the parser's output; C06 decides the parser), the kit as generator. Rules outside the property's list are not demanded and the kit does not exercise them alone.",
   ref="DESIGN.md §4 C07"),
 "C17": dict(
   technique=T + "every type system = base (3 blocks) + ≤1/2 menu items (quick: plus every pair of extension items) × every permutation of its units × every cut into 1–3 named sources; differential oracle against the canonical order in one source (loadability, canonical order-insensitive schema dump) plus a file-attribution oracle from ref/refschema's involved definitions",
   text="Each ordering × split is loaded by the real LoadSchema and compared with the canonical ordering of the same definitions: same loadability, same canonical dump (types, fields / interfaces / members / values / directive uses as sets per type, relations as sets, roots, directives). For rejected systems the error must name a source that holds a definition or extension involved in a broken rule. Extensions before their base, interfaces after implementers, unions before members and directive uses before definitions arise by construction of the permutations.",
   note="Trusted: ref/refschema for involvement; the canonical dump walker. Units are whole definitions; the base moves as three blocks.",
   ref="DESIGN.md §4 C17"),
 "C13": dict(
   technique=T + "every type-system sentence ≤5/6 tokens and the profile documents with a comment at every gap (document round trip), every loadable type system of the schema kit with ≤1/2 menu items, and a rich type system with each of 25 describable elements × 16 description values — each × all 64 formatter configurations; metamorphic oracle load∘format = id on the canonical dump / projection and format∘load∘format = format",
   text="Document side: parse, FormatSchemaDocument under every configuration (4 indents × comments × compacted × builtin × without-description), re-parse, compare canonical projections (descriptions unless switched off; schema blocks merged, as the formatter prints them merged) and check the fixpoint. Loaded side: LoadSchema, FormatSchema under every configuration, load the text back and compare the canonical order-insensitive dumps (types, fields, arguments, defaults, directive uses, relations, roots, descriptions), then the fixpoint. Four recorded defects are excused only under their narrow keys (commas-only difference, schema-description-only difference, built-in-type-only difference, the __schema reload error under WithBuiltin).",
   note="Trusted: parser and loader as constructors (C06, C07), the dump/projection walkers. With WithBuiltin the text is loaded without the prelude as a built-in source.",
   ref="DESIGN.md §4 C13"),
 "C02": dict(
   technique=T + "every document of 13 validation-kit profiles (~48k), every type-blind document (grammar sentences ≤7/8 tokens × every assignment of 10 names to ≤4 name positions), every kit type system with ≤2/3 menu items (loaded, then validated against with type-blind documents), and 34 adversarial size families × n = 1…24, 2^k to 256/1024; invariant: returns normally (recovered panics, call-depth gauge, worker isolation) within a deterministic polynomial step bound",
   text="Every enumerated (schema, document) is run through the real LoadSchema / Validate under the instrumented step counter and call-depth gauge: a panic, runaway recursion or a step count above the bound is a violation. Kit documents: 1.5·10⁶ steps (measured maximum ≈ 4·10⁴). Size families: 2·10⁶ + 10⁵·n + 15·n³ steps (the worst families are cubic, ≈ 0.72·n³); fragment fan-out (each fragment spreading the next twice) plain, under __schema, under a subscription, under overlapping fields, with variables; fragment cycles through fields; deep and wide selections; alias floods; nested values. Exponential behaviour exceeds the bound at n ≈ 24 without any clock. The same tree is validated twice.",
   note="Trusted: the instrumenter's counters. Only syntactically valid documents are judged (the parser is C01/C05's business). Asymptotic claims are bounded by the explored grid.",
   ref="DESIGN.md §4 C02"),
 "C10": dict(
   technique=T + "every profile document and type-blind document ≤5/6 tokens and every kit type system with ≤1/2 menu items × every map-iteration order the explorer can choose through the build-overlay seam (ascending, descending, every rotation up to the largest map ranged over, every permutation of maps ≤4 keys), re-validation of the validated tree, and three fresh un-instrumented processes compared by digest",
   text="Go's randomised map iteration is put behind a seam: the overlay rewrites every `range` over a map in the repository to iterate a key order the explorer chooses. For every enumerated case the complete error list (messages with suggestions, rules, locations, paths, extensions, order) must be identical under every order, and when the already validated tree is validated again. Three fresh processes of the un-instrumented build (native map order, fresh hash seeds) must reproduce the digest of the ascending-order execution over all profile documents and kit type systems, which shows the seam owns the nondeterminism.",
   note="Trusted: the instrumenter's map-range rewrite (every range over a map-typed expression; counted in instrument-stats.json). Nondeterminism from sources other than map order and hash seeds is only covered by the fresh-process comparison.",
   ref="DESIGN.md §4 C10"),
 "C18": dict(
   technique=T + "every profile document (~48k) and type-blind document ≤5/6 tokens × rule sets {default, explicit full list, reverse order, each of 27 standard rules alone, each of 4 without-suggestions variants} (thorough: every pair and every leave-one-out set on documents with errors); compositional oracle on error multisets evaluated on every execution",
   text="Every enumerated document is validated, from a fresh parse each time, under each rule set. Oracle: the errors of the full set are the multiset union of the errors each rule reports alone, every error is tagged with the name of the rule that ran, each rule reports the same errors alone and inside the set, the default set equals the explicit list of all 27 standard rules (also in reverse order), each 'WithoutSuggestions' variant equals its standard rule with the ' Did you mean …?' suffix removed and never suggests; thorough: pairs and leave-one-out sets report exactly their members' errors.",
   note="Trusted: the list of exported rules (compile-time references to validator/rules). Subsets beyond singletons, pairs, leave-one-out and the full set are not enumerated.",
   ref="DESIGN.md §4 C18"),
 "C08": dict(
   technique=T + "every document of 15 validation-kit profiles (~55k: valid skeletons with every filling of their holes) against a rich and a minimal schema, and every type-blind document (grammar sentences ≤7/8 tokens × every assignment of 10 names to ≤4 positions); verdict of the real Validate compared in both directions with a reference validator written from the specification's formal algorithms (ref/refvalid)",
   text="For every enumerated (schema, document) the error list of the real Validate must be empty exactly when ref/refvalid — the rules of specification §5 as plain recursive functions (FieldsInSetCanMerge, SameResponseShape, IsVariableUsageAllowed with location defaults, literal coercion table with 32-bit Int, repeatable directives, possible-types intersection from the definitions, oneOf, introspection depth, root existence) — finds no broken rule. The library validates against a schema instance shared by all cases of a worker; the reference reads a second, pristine instance, so state leaking into the shared schema shows up as later disagreements. Rule names on both sides are recorded for diagnosis only.",
   note="Trusted: ref/refvalid (its disagreements with the library on the unchanged tree were each traced to a library defect and repaired, or are undecided by design), the loader for the schema structure (C07). Undecided: numeric literals beyond 64 bits, @skip/@include on subscription roots, fragment variables.",
   ref="DESIGN.md §4 C08"),
 "C09": dict(
   technique=T + "every profile document (~97k, incl. a 'links' profile of valid documents with every kind of link at depth) and type-blind document that the library and the reference validator both accept (~33k documents, 1.7·10⁶ links); every node of each is compared with the link computed by the check's own top-down traversal, by pointer identity with the schema validated against",
   text="For every accepted document the check walks operations, variable definitions (with defaults and directives), selections at every depth, fragment definitions, directives in every position and argument values at every depth (list items, input object fields, list-coerced single values and objects, custom-scalar literals) and requires each link the property lists: Field.Definition / ObjectDefinition, FragmentSpread.Definition / ObjectDefinition, InlineFragment.ObjectDefinition, FragmentDefinition.Definition, Directive.Definition / Location, VariableDefinition.Definition, Value.ExpectedType / Definition, Value.VariableDefinition (in fragments: of some operation). One recorded finding (inline fragments carry the enclosing type) is excused only when the link is exactly the enclosing type's definition.",
   note="Trusted: the check's traversal (resolves parent types by name through the schema structure), ref/refvalid for the precondition.",
   ref="DESIGN.md §4 C09"),
 "C20": dict(
   technique=T + "a well-formedness monitor attached to every error produced while the entry points run over enumerated inputs: every token sequence ≤3/4 tokens over both alphabets and every byte string ≤3 symbols (named and unnamed source, with and without limits), every kit type system with ≤1/2 menu items from two named sources, every profile document under the default rules from a named source and through LoadQuery, all 240 variable types × values within 1 deviation, and every path of ≤6 elements over 6 element kinds",
   text="Every error (and every member of every error list) is checked: non-empty message; for validation errors a known rule name and at least one location; positive line and column; extensions.file equal to the name of one of the named sources; JSON encoding is an object with message / locations (positive integers) / path (strings, non-negative integers) / extensions (object) and decodes back to the same message, locations and path; every path of ≤ 6 elements survives a JSON round trip. Distinct (entry point, message template) pairs reached are counted in the evidence.",
   note="Trusted: encoding/json. Which errors are produced is the other properties' business; here every produced error is inspected.",
   ref="DESIGN.md §4 C20"),
 "C11": dict(
   technique=T + "explicit-state search over call histories (every sequence ≤3/4 of 13 operations on a fresh schema; canonical deep snapshot of the schema graph after every step; expected distinct states: 1) with a write monitor on every non-local store of the repository, and stateless exploration of thread interleavings under a cooperative scheduler (every ordered pair of operations as 2 threads, ≤2/3 preemptions; thorough: triples over 5 operations, ≤2 preemptions) with prefix replay and preemption bounding; auxiliary free-running -race pass",
   text="Histories: after every operation of every sequence the reflection snapshot of everything reachable from the Schema (slices up to capacity, map contents, pointer sharing) must equal the initial one, no instrumented store may target schema-owned memory, and the operation must return its run-alone result. Interleavings: operations run as goroutines under a cooperative scheduler that switches at every statement touching a package-level variable of the repository and at every store into memory reachable from package-level variables or from the schema (both computed by reflection; the overlay registers every package-level variable); every schedule up to the preemption bound is executed with the same three oracles. The race detector pass (8 free-running goroutines on one schema) is sampling and only auxiliary.",
   note="Trusted: the instrumenter's store/global hooks (422 stores, 23 map stores, 40 global uses, 35 registered variables on the current tree), reflection snapshot. Reads of shared memory are not scheduling points: a block between two points only reads the schema and writes thread-private memory, unless the monitor fires. copy() and append into a local alias are seen by the snapshot, not by the monitor.",
   ref="DESIGN.md §4 C11"),
}
# sub-checks added after the seeding rounds (DESIGN.md §8): appended to the technique text
also = {
 "C01": "limit −1 and sources flagged built-in included; under a non-zero limit the call depth is bounded by the limit; 46 families",
 "C02": "type-blind documents ≤7/11 tokens; 17 profiles (~100k documents), 38 document families incl. fan-outs ending in an undefined fragment or a cycle, and 6 size families of type systems (interface layers / cliques / chains, input chains, wide unions, extension floods) through LoadSchema, directives on directive arguments (fan-out, cycle)",
 "C03": "22 escape-level symbols; block bodies ≤6/8 over an alphabet with U+0007 and U+2028",
 "C04": "lexical error locations must be the start of the failing token, the character that rules it out, or an escape inside it",
 "C05": "names-with-non-ascii (non-ASCII characters glued behind names must be rejected); values-distinct (every value shape ≤12/15 tokens with every leaf and key a text of its own), call-histories (every sequence of ≤3/4 parser calls over 40 (entry, document, limit) combinations equals the calls on their own), families-accept (46 size families up to 2048/8192 tokens against the reference recogniser)",
 "C06": "values-distinct, call-histories, families-accept as C05; multi-source pairs include one definition and one extension of every kind",
 "C07": "≈170 menu items incl. wrong kinds under list wrappers, non-object roots, extension-only interfaces, names declared twice with different kinds, faulty extensions of built-ins",
 "C08": "type-blind documents ≤7/12 tokens; 17 profiles (~100k documents) incl. repeated-fragment and multi-conflict overlap matrices, list-with-default locations, list literals in custom scalars, repeatable directives before duplicates",
 "C09": "type-blind documents ≤7/12 tokens; the same links after walking under an empty rule list, a single rule and validator.Walk with no observer",
 "C10": "type-blind documents ≤5/9 tokens; every pair of rejected kit items as separate source files × every policy; the error list after ReplaceRule of every rule / single rules by themselves",
 "C11": "14 operations; a canonical dump of every package-level variable of the library compared around every operation, including its first run in the process",
 "C12": "22 awkward characters incl. U+FFFD; tree-edits (every non-constant value of the profile trees replaced by a variable / block string / awkward string / list: trees the parser did not build)",
 "C13": "type-system sentences ≤5/7 tokens; default-values, root-names (every root configuration × a type of each kind named like a free default root), the text compared under descending and rotated map iteration orders",
 "C14": "two-schemas (sequences of coercions over two schemas with same-named enum / input object); ≤2/4 deviations; 20 input-object variants incl. aliased maps and __-prefixed keys; 8 ways of writing a default",
 "C15": "expectation from the check's own variable model; shared-fragments, list-depth ([[[Int]]] variables), directive-sites (sites × directives incl. redeclared built-ins × argument sources), schema-versions, abstract-scope",
 "C16": "call-histories (every sequence of ≤3/4 limited / unlimited parser calls equals the calls on their own, comments included); limits −2…N+2; pairs of sources × built-in flags × limits through ParseSchemasWithLimit (same tree and built-in flags); limit 0 / 2³⁰ = unlimited on all families to 64 KiB; limit −1 on the families",
 "C17": "quick also pairs every extension with every described definition",
 "C18": "type-blind documents ≤5/9 tokens; the explicitly empty rule list; explicit-state search over the global rule registry (every sequence of ≤4/6 AddRule / RemoveRule / ReplaceRule operations from 11, states = registry contents, every transition executed on the real registry); documents with several hundred errors",
 "C19": "comments at every gap, chains of 1…48 nested selections, the indented, generically re-encoded and null-dropped spelling of the JSON, decoding into used targets, awkward string values, validated documents",
 "C20": "without-suggestions variants, ReplaceRule-registered rules, sources flagged built-in, errors located in the prelude, documents with several hundred errors, paths ≤5/6 over 9 elements incl. names with control characters",
}
for k, v in also.items():
    claimed[k]["technique"] += "; also: " + v
# round 8 (DESIGN.md §8, Round 8)
also8 = {
 "C02": "no-prelude (a type system loaded by validator.LoadSchema × every profile and meta-name type-blind document), after-rule-edits (documents validated after ReplaceRule / RemoveRule + AddRule edits of the process-wide rule set)",
 "C03": "string-chars (quoted-string bodies ≤3/4 over 20 characters at the edges of the UTF-8 lengths and of SourceCharacter); an escaped surrogate pair in the escape alphabet",
 "C04": "positions behind strings with surrogate escapes (values undecided, extents judged); 4 faults whose offending member arrives through an extension in another file (23 + 5 faults)",
 "C05": "a profile document with raw TAB / DEL / U+FFFD / U+FFFF / BOM / NBSP / U+3000 / U+2028 in strings and blank or oddly indented block strings",
 "C06": "the same kinds of strings in descriptions, defaults and directive arguments of a type-system profile document",
 "C07": "caller-slices (base + each item cut into 1…7 sources held in a slice with spare capacity 0…3: loaded, loaded again, loaded after an append); kit items for parents arriving through two extensions and required arguments written first (187 items)",
 "C08": "schema-switch (every profile document parsed once, validated against S1 and then against S1 without argument / input-field defaults, and the other way round: the second verdict is a fresh parse's); composite fields of nested list type",
 "C09": "composite fields of type [[Pet!]!]! and [[[Result]]] with link selections",
 "C10": "many-candidates (9 equally close candidates for type, field, argument, enum value, input field and directive names × every map-order policy)",
 "C11": "operation validate-typename-everywhere (21 operations)",
 "C13": "null, [], {}, [null], {k: null} defaults (22 literals)",
 "C14": "12 list shapes (5 typed Go slices), 26 input-object variants",
 "C15": "30 literals incl. an escape followed by raw non-ASCII text and text on the opening line of a block string",
 "C16": "limits-profiles (the long profile documents of both grammars × every limit −2…N+2); one source pointer passed twice and three sources under one name through ParseSchemasWithLimit",
 "C17": "every multi-source layout also with all sources under one name and with a first source called prelude.graphql; 5 item triples under all 720 orders",
 "C18": "cross-parent-literals (schema S3: one literal given to two fields of one response name whose parents declare the argument at Float / Int, ID / String, input objects — all rule sets, pairs, leave-one-out); rule lists with two rules sharing a name",
 "C19": "decorated meta fields (__typename with directives, __type, __schema) in the sibling triples (20 decorated selections)",
 "C20": "every syntax / loading / validation input also from a source saved with a byte order mark",
}
for k, v in also8.items():
    claimed[k]["technique"] += "; round 8: " + v
# round 9 (DESIGN.md §8, Round 9)
also9 = {
 "C02": "string literals with invalid UTF-8 and with letters whose lower-case form is shorter (U+212A, U+2126) against an enum whose values begin like them",
 "C07": "caller-slices also with the first / last source flagged built-in (loads ⇒ still loads, with the library's built-ins)",
 "C08": "leaf fields of type [[Int]] / [[String]] / [Int] under one response name on exclusive parents",
 "C09": "variables of nested list type with input-object and Int defaults",
 "C10": "an implementer omitting several ancestors at once (chosen item combinations); near misses of meta fields",
 "C11": "operations coerce-oneof-first-member / -second-member (23 operations); registry-read-only (a caller's rule registered under a name sorting before / between / after the standard ones, then every validating operation: no package-level variable changes)",
 "C12": "tree-edits also rename every name site to names using every digit and underscores",
 "C14": "26 input-object variants (undeclared or wrongly cased keys holding null / a nil pointer)",
 "C16": "sentences and profile documents also with commas / a BOM / blanks behind the last and before the first token",
 "C18": "one field name with other argument sets on two types (S3 items)",
 "C19": "repeated-decodes (a fragments-only document, a document with one operation and many fragments and a bare selection set decoded 1000 times in one process)",
 "C20": "10 kinds of lexical error × 12 value contexts (argument, list item, object field, variable default, directive argument, type-system defaults) through every entry point from named sources",
}
for k, v in also9.items():
    claimed[k]["technique"] += "; round 9: " + v
checks = []
for i in ids:
    if i in claimed:
        c = claimed[i]
        checks.append({
            "property_id": i,
            "quick_cmd": f"scripts/check.sh {i} quick",
            "thorough_cmd": f"scripts/check.sh {i} thorough",
            "evidence_file": f"evidence/{i}.json",
            "replay_cmd_template": "bin/mc replay {path}",
            "engine": "mc",
            "level_claimed": {"category": "model_checking", "text": c["text"], "design_ref": c["ref"]},
            "level_note": c["note"],
            "technique": c["technique"],
        })
m = {
 "version": 1,
 "setup_cmd": "scripts/setup.sh",
 "hooks": {
  "guard": "verif",
  "enable": "no hook is committed to /repo: scripts/build.sh regenerates instrumented copies of the working tree's files (mc/instrument) and builds the harness with `go build -overlay`; the guard name is nominal",
  "baseline_off_cmd": "cd /repo && go test -mod=mod -json -vet=off -count=1 ./...",
  "source_commits": [],
  "add_only": True,
 },
 "engines": [{"name": "mc", "path": "mc/", "serves_properties": sorted(claimed), "kind_free_text": "hand-written bounded-exhaustive explorer (sequence trees, odometer products, subsets/permutations, choice-tree DFS with prefix replay and deviation bounding, cooperative scheduler, explicit-state history search) over the real code built with `go build -overlay` instrumentation (step counter, call-depth gauge, map-order seam, store/global hooks); reference models in Go (reflex, refgrammar, refschema, refvalid, refcoerce)"}],
 "checks": checks,
 "not_applicable": [{"property_id": i, "reason": "check not built yet"} for i in ids if i not in claimed],
 "notes": "All checks: cwd=/verif. VERIF_SEED is accepted and recorded; nothing is sampled. Fix commits in /repo are listed in KNOWN_FINDINGS.txt.",
}
json.dump(m, open(os.path.join(root, 'MANIFEST.json'), 'w'), indent=1, ensure_ascii=False)
print("claimed:", sorted(claimed))
