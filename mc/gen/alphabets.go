// Package gen holds the finite alphabets and generators the checks enumerate over.
package gen

import "strings"

// SigmaByte: one representative of every byte class the lexer branches on, plus the pieces
// of a BOM, of a 2-byte rune and of a truncated 4-byte rune.
var SigmaByte = []string{
	"a", "e", "_", "0", "1", "-", "+", ".", `"`, `\`, "#", "{", "$", " ", ",", "\n", "\r", "\t",
	"\x00", "\x7f", "\xef", "\xbb", "\xbf", "\xc3", "\xa9", "\xf0", "u", "'",
}

// SigmaMacro adds multi-byte symbols so that short sequences reach deep lexer states.
var SigmaMacro = append(append([]string{}, SigmaByte...),
	`\u`, "00e9", "D83D", `"""`, `\"""`, "...", "..", "\r\n", "\xef\xbb\xbf", "é", "😀", `\\`, `\"`, "E", "!",
)

// SigmaLex: the valid-UTF-8, lexically significant symbols used for conformance (C03).
var SigmaLex = []string{
	"a", "e", "0", "1", "-", ".", `"`, `\`, "#", "{", " ", ",", "\n", "\r", "u", "\xef\xbb\xbf", "é", "+", "E",
}

// SigmaLexMacro: escape-level symbols for the string scanner (C03).
var SigmaLexMacro = []string{
	`"`, `\`, "a", `\u`, "00e9", "0041", "n", "/", "b", "x", " ", "\n", `"""`, "é", "😀", "\t", "\x7f", "G", "+", "-", "041", "D83D", `\uD83D\uDE00`,
}

// Tok is a token class representative.
type Tok struct {
	Text string
	// Kind is the lexical kind in the reference lexer's vocabulary.
	Kind string
}

var punct = []Tok{
	{"{", "{"}, {"}", "}"}, {"(", "("}, {")", ")"}, {"[", "["}, {"]", "]"}, {":", ":"}, {"=", "="}, {"@", "@"},
	{"!", "!"}, {"$", "$"}, {"...", "..."}, {"|", "|"}, {"&", "&"},
}

func names(ns ...string) []Tok {
	var out []Tok
	for _, n := range ns {
		out = append(out, Tok{n, "Name"})
	}
	return out
}

// SigmaExec: token classes of the executable grammar.
var SigmaExec = concat(punct[:13],
	names("query", "fragment", "on", "true", "null", "a"),
	[]Tok{{"1", "Int"}, {"1.5", "Float"}, {`"s"`, "String"}, {`"on"`, "String"}, {`"""b"""`, "BlockString"}, {"#c\n", "Comment"}, {"?", "Invalid"}},
)

// SigmaExecCore: the 16 classes that matter most to the grammar (for the deepest sweep).
var SigmaExecCore = concat(
	[]Tok{{"{", "{"}, {"}", "}"}, {"(", "("}, {")", ")"}, {"[", "["}, {"]", "]"}, {":", ":"}, {"=", "="}, {"@", "@"}, {"!", "!"}, {"$", "$"}, {"...", "..."}},
	names("query", "fragment", "on", "a"),
)

// SigmaSDL: token classes of the type-system grammar.
var SigmaSDL = concat(punct[:11], punct[12:14],
	names("schema", "scalar", "type", "interface", "union", "enum", "input", "directive", "extend", "implements", "repeatable", "on", "query", "QUERY", "OBJECT", "true", "a"),
	[]Tok{{"1", "Int"}, {`"d"`, "String"}, {`"implements"`, "String"}, {`"query"`, "String"}, {`""`, "String"}, {`"""b"""`, "BlockString"}, {"#c\n", "Comment"}, {"?", "Invalid"}},
)

// SigmaSDLCore: 20 classes for the deepest SDL sweep.
var SigmaSDLCore = concat(
	[]Tok{{"{", "{"}, {"}", "}"}, {"(", "("}, {")", ")"}, {":", ":"}, {"=", "="}, {"@", "@"}, {"|", "|"}, {"&", "&"}, {"[", "["}, {"]", "]"}},
	names("schema", "type", "interface", "union", "extend", "implements", "input", "query", "a"),
)

func concat(ts ...[]Tok) []Tok {
	var out []Tok
	for _, t := range ts {
		out = append(out, t...)
	}
	return out
}

// Render joins token texts with a single space (a comment token carries its own newline).
func Render(alpha []Tok, sym []int) string {
	var b strings.Builder
	for i, s := range sym {
		if i > 0 {
			b.WriteByte(' ')
		}
		b.WriteString(alpha[s].Text)
	}
	return b.String()
}

func RenderStrs(alpha []string, sym []int) string {
	var b strings.Builder
	for _, s := range sym {
		b.WriteString(alpha[s])
	}
	return b.String()
}

// Separators that may stand between two tokens (ignored tokens).
var Separators = []string{" ", ",", "\n", "\r", "\r\n", "\t", "\xef\xbb\xbf", "#c\n", "#é😀\r", "  ", ""}
