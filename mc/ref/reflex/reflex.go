// Package reflex is a reference lexer written from the October 2021 GraphQL lexical grammar.
// It has no cursor state: every token is matched from scratch at a character offset with
// "longest match + look-ahead restriction" semantics, and positions are recomputed by
// counting line terminators from offset 0.
//
// Comments are reported as tokens of kind "Comment" (the library's lexer returns them; the
// grammar calls them Ignored), everything else Ignored is skipped.
package reflex

import (
	"strings"
	"unicode/utf8"
)

type Token struct {
	Kind  string // "!" "$" "&" "(" ")" "..." ":" "=" "@" "[" "]" "{" "|" "}" Name Int Float String BlockString Comment
	Start int    // character offset of the first character of the token
	End   int    // character offset one past the last character
	Value string // Name/Int/Float: source text; String: decoded; BlockString: BlockStringValue(); Comment: text after '#'
	Line  int    // 1-based line of Start
	Col   int    // 1-based column of Start (characters)
}

type Result struct {
	Tokens []Token
	// FailAt is the index of the token at which the grammar admits no token (len(Tokens)),
	// or -1 if the end of input was reached.
	FailAt  int
	FailPos int // character offset where the inadmissible token would start
	// FailChar is the character offset of the first character that rules the token out (the
	// character no token can start with, the invalid character inside a string, the line
	// terminator or end of input that leaves a string open, the character after a number …)
	FailChar int
	FailEsc  int // offset of the backslash when the failure lies in an escape sequence, else -1
	// LineOf / ColOf: 1-based line and column of every character offset (0 … NChars)
	LineOf, ColOf []int
	// Undecided: the input uses something the oracle does not take a side on (invalid
	// UTF-8, \uD800–\uDFFF escapes).
	Undecided bool
	// ValuesOnly: Undecided only because a string value is not taken a side on (surrogate escapes); kinds, extents
	// and positions of all tokens are decided.
	ValuesOnly bool
	EOFPos    int // character offset of end of input
	NChars    int
}

// Defects switch on emulations of known library defects (see DESIGN.md §2.6); the strict
// model has all of them off.
type Defects struct {
	NumberLookahead      bool // a number directly followed by a name-start or '.' ends there instead of being rejected
	BlockFirstLineIndent bool // first line takes part in the common indent
	BlockExtraQuotes     bool // a run of ≥3 quotes closes a block string with its LAST three quotes
}

func decode(s string) (rs []rune, invalid bool) {
	for i := 0; i < len(s); {
		r, w := utf8.DecodeRuneInString(s[i:])
		if r == utf8.RuneError && w == 1 {
			invalid = true
		}
		rs = append(rs, r)
		i += w
	}
	return
}

func isSourceChar(r rune) bool { return r == 9 || r == 10 || r == 13 || r >= 0x20 }
func isDigit(r rune) bool      { return r >= '0' && r <= '9' }
func isNameStart(r rune) bool  { return r == '_' || (r >= 'a' && r <= 'z') || (r >= 'A' && r <= 'Z') }
func isNameCont(r rune) bool   { return isNameStart(r) || isDigit(r) }
func isHex(r rune) bool {
	return isDigit(r) || (r >= 'a' && r <= 'f') || (r >= 'A' && r <= 'F')
}

// Lex tokenises the whole input.
func Lex(input string, d Defects) Result {
	rs, invalid := decode(input)
	res := Result{FailAt: -1, Undecided: invalid, NChars: len(rs), EOFPos: len(rs)}
	// line/col tables
	line, col := 1, 1
	lineOf := make([]int, len(rs)+1)
	colOf := make([]int, len(rs)+1)
	for i := 0; i <= len(rs); i++ {
		lineOf[i], colOf[i] = line, col
		if i == len(rs) {
			break
		}
		switch {
		case rs[i] == '\n':
			line++
			col = 1
		case rs[i] == '\r':
			if i+1 < len(rs) && rs[i+1] == '\n' {
				col++ // the LF still belongs to this terminator
			} else {
				line++
				col = 1
			}
		default:
			col++
		}
	}
	pos := 0
	for {
		// skip Ignored (except comments)
		for pos < len(rs) {
			r := rs[pos]
			if r == 0xFEFF || r == ' ' || r == '\t' || r == ',' || r == '\n' || r == '\r' {
				pos++
				continue
			}
			break
		}
		if pos >= len(rs) {
			return res
		}
		failChar, failEsc = pos, -1
		kind, end, val, ok, undecided := match(rs, pos, d)
		if undecided {
			res.Undecided = true
			res.ValuesOnly = !invalid
		}
		if !ok {
			res.FailAt = len(res.Tokens)
			res.FailPos = pos
			res.FailChar = failChar
			res.FailEsc = failEsc
			res.LineOf, res.ColOf = lineOf, colOf
			return res
		}
		res.Tokens = append(res.Tokens, Token{Kind: kind, Start: pos, End: end, Value: val, Line: lineOf[pos], Col: colOf[pos]})
		pos = end
		if d.BlockExtraQuotes && kind == "BlockString" {
			// the defective lexer consumes the surplus quotes (they are in the value) but leaves
			// them out of the token's extent
			for pos < len(rs) && rs[pos] == '"' {
				pos++
			}
		}
	}
}

// failChar: set by the matchers on the failing path (see Result.FailChar)
var failChar, failEsc int

func fail(at int) (string, int, string, bool, bool) {
	failChar = at
	return "", 0, "", false, false
}

func at(rs []rune, i int) rune {
	if i < len(rs) {
		return rs[i]
	}
	return -1
}

func match(rs []rune, p int, d Defects) (kind string, end int, val string, ok, undecided bool) {
	r := rs[p]
	switch r {
	case '!', '$', '&', '(', ')', ':', '=', '@', '[', ']', '{', '|', '}':
		return string(r), p + 1, "", true, false
	case '.':
		if at(rs, p+1) == '.' && at(rs, p+2) == '.' {
			return "...", p + 3, "", true, false
		}
		if at(rs, p+1) == '.' {
			return fail(p + 2)
		}
		return fail(p + 1)
	case '#':
		e := p + 1
		for e < len(rs) && rs[e] != '\n' && rs[e] != '\r' && isSourceChar(rs[e]) {
			e++
		}
		return "Comment", e, string(rs[p+1 : e]), true, false
	case '"':
		if at(rs, p+1) == '"' && at(rs, p+2) == '"' {
			return matchBlock(rs, p, d)
		}
		return matchString(rs, p)
	}
	if isNameStart(r) {
		e := p + 1
		for e < len(rs) && isNameCont(rs[e]) {
			e++
		}
		return "Name", e, string(rs[p:e]), true, false
	}
	if r == '-' || isDigit(r) {
		return matchNumber(rs, p, d)
	}
	return "", 0, "", false, false
}

func matchNumber(rs []rune, p int, d Defects) (kind string, end int, val string, ok, undecided bool) {
	e := p
	if at(rs, e) == '-' {
		e++
	}
	if at(rs, e) == '0' {
		e++
		if isDigit(at(rs, e)) { // IntegerPart: 0 may not be followed by a digit
			return fail(e)
		}
	} else if isDigit(at(rs, e)) {
		for isDigit(at(rs, e)) {
			e++
		}
	} else {
		return fail(e)
	}
	kind = "Int"
	if at(rs, e) == '.' {
		if !isDigit(at(rs, e+1)) {
			if d.NumberLookahead {
				// the defective lexer still fails here (it expects a digit after '.')
			}
			return fail(e + 1)
		}
		e++
		for isDigit(at(rs, e)) {
			e++
		}
		kind = "Float"
	}
	if at(rs, e) == 'e' || at(rs, e) == 'E' {
		f := e + 1
		if at(rs, f) == '+' || at(rs, f) == '-' {
			f++
		}
		if !isDigit(at(rs, f)) {
			// "1e" / "1ex": the exponent indicator is a NameStart, so neither an Int nor a Float may end here.
			return fail(f)
		}
		for isDigit(at(rs, f)) {
			f++
		}
		e = f
		kind = "Float"
	}
	// look-ahead restriction: not Digit (impossible here), not '.', not NameStart
	if n := at(rs, e); n == '.' || isNameStart(n) {
		if !d.NumberLookahead {
			return fail(e)
		}
	}
	return kind, e, string(rs[p:e]), true, false
}

func matchString(rs []rune, p int) (kind string, end int, val string, ok, undecided bool) {
	var b strings.Builder
	e := p + 1
	for {
		if e >= len(rs) {
			failChar = e
			return "", 0, "", false, undecided
		}
		r := rs[e]
		switch {
		case r == '"':
			return "String", e + 1, b.String(), true, undecided
		case r == '\n' || r == '\r':
			failChar = e
			return "", 0, "", false, undecided
		case r == '\\':
			n := at(rs, e+1)
			switch n {
			case 'u':
				v := rune(0)
				for k := 2; k < 6; k++ {
					h := at(rs, e+k)
					if !isHex(h) {
						failEsc = e
						failChar = e + k
						return "", 0, "", false, undecided
					}
					v <<= 4
					switch {
					case isDigit(h):
						v |= h - '0'
					case h >= 'a':
						v |= h - 'a' + 10
					default:
						v |= h - 'A' + 10
					}
				}
				if v >= 0xD800 && v <= 0xDFFF {
					undecided = true // a UTF-16 surrogate half has no Go string representation
				}
				b.WriteRune(v)
				e += 6
			case '"', '\\', '/':
				b.WriteRune(n)
				e += 2
			case 'b':
				b.WriteByte('\b')
				e += 2
			case 'f':
				b.WriteByte('\f')
				e += 2
			case 'n':
				b.WriteByte('\n')
				e += 2
			case 'r':
				b.WriteByte('\r')
				e += 2
			case 't':
				b.WriteByte('\t')
				e += 2
			default:
				failEsc = e
				failChar = e + 1
				return "", 0, "", false, undecided
			}
		case !isSourceChar(r):
			failChar = e
			return "", 0, "", false, undecided
		default:
			b.WriteRune(r)
			e++
		}
	}
}

func matchBlock(rs []rune, p int, d Defects) (kind string, end int, val string, ok, undecided bool) {
	var raw []rune
	e := p + 3
	for {
		if e >= len(rs) {
			return fail(e)
		}
		r := rs[e]
		if r == '"' && at(rs, e+1) == '"' && at(rs, e+2) == '"' {
			if d.BlockExtraQuotes {
				n := 0
				for at(rs, e+n) == '"' {
					n++
				}
				for k := 0; k < n-3; k++ {
					raw = append(raw, '"')
				}
				return "BlockString", e + 3, BlockStringValue(string(raw), d), true, false
			}
			return "BlockString", e + 3, BlockStringValue(string(raw), d), true, false
		}
		if r == '\\' && at(rs, e+1) == '"' && at(rs, e+2) == '"' && at(rs, e+3) == '"' {
			raw = append(raw, '"', '"', '"')
			e += 4
			continue
		}
		if !isSourceChar(r) {
			return fail(e)
		}
		raw = append(raw, r)
		e++
	}
}

// BlockStringValue is the specification's algorithm of the same name.
func BlockStringValue(raw string, d Defects) string {
	// split on LineTerminator
	var lines []string
	cur := strings.Builder{}
	rs := []rune(raw)
	for i := 0; i < len(rs); i++ {
		switch {
		case rs[i] == '\r':
			if i+1 < len(rs) && rs[i+1] == '\n' {
				i++
			}
			lines = append(lines, cur.String())
			cur.Reset()
		case rs[i] == '\n':
			lines = append(lines, cur.String())
			cur.Reset()
		default:
			cur.WriteRune(rs[i])
		}
	}
	lines = append(lines, cur.String())
	indentOf := func(l string) int {
		n := 0
		for n < len(l) && (l[n] == ' ' || l[n] == '\t') {
			n++
		}
		return n
	}
	common := -1
	for i, l := range lines {
		if i == 0 && !d.BlockFirstLineIndent {
			continue
		}
		ind := indentOf(l)
		if ind < len(l) && (common == -1 || ind < common) {
			common = ind
		}
	}
	if common > 0 {
		for i := 1; i < len(lines); i++ {
			if len(lines[i]) < common {
				lines[i] = ""
			} else {
				lines[i] = lines[i][common:]
			}
		}
	}
	blank := func(l string) bool { return indentOf(l) == len(l) }
	for len(lines) > 0 && blank(lines[0]) {
		lines = lines[1:]
	}
	for len(lines) > 0 && blank(lines[len(lines)-1]) {
		lines = lines[:len(lines)-1]
	}
	return strings.Join(lines, "\n")
}
