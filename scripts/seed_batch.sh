#!/bin/bash
# (as used in rounds 8 and 9: list lines are "<ID> <seed dir> <tag>"; logs go to /tmp/seed/try-<tag>.log; needs /tmp/seed to exist)
# batch.sh <listfile> <parallel>   list lines: <ID> <dir> <tag>
run1() { id=$1; dir=$2; tag=$3; cd /verif && scripts/seed_try.sh $dir $id $tag > /tmp/seed/try-$tag.log 2>&1; }
export -f run1
cat "$1" | xargs -P "${2:-5}" -L 1 bash -c 'run1 $0 $1 $2'
while read id dir tag; do
  s=$(grep -a "^SEED " /tmp/seed/try-$tag.log | sed 's/.*apply=/apply=/'); t=$(grep -a "^SEEDTRY" /tmp/seed/try-$tag.log | sed 's/.*check=/check=/'); k=$(grep -a "violation key" /tmp/seed/try-$tag.log | head -1 | cut -c1-150)
  echo "$tag | $s | $t | $k"
done < "$1"
