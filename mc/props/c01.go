package props

import (
	"encoding/json"
	"fmt"
	"strings"
	"time"

	"github.com/vektah/gqlparser/v2/ast"
	"github.com/vektah/gqlparser/v2/lexer"
	"github.com/vektah/gqlparser/v2/parser"

	"verif/mc/explore"
	"verif/mc/gen"
)

func init() {
	register(&Prop{ID: "C01", Run: runC01, Replay: replayBySub(map[string]replayFn{
		"bytes": c01Replay, "macro": c01Replay, "tokens-exec": c01Replay, "tokens-sdl": c01Replay, "families": c01ReplayFamily, "families-two-sources": c01ReplayTwo,
	}), Assumptions: []string{
		"inputs outside the listed alphabets and length bounds are not explored",
		"running time is measured as a deterministic step count (function entries + loop iterations of the instrumented repository code); time spent inside the standard library is only bounded by a generous wall-clock guard (60 s) on the size families",
		"unlimited parsing is exercised up to 64 KiB (the property's own bound); larger inputs only under a finite token limit",
	}})
}

type c01Input struct {
	Text   string `json:"text"`
	Limits bool   `json:"limits"`
	Split  bool   `json:"split"`
}

func c01Replay(c *explore.Ctx, s *explore.SubStats, raw json.RawMessage) {
	var in c01Input
	if json.Unmarshal(raw, &in) != nil {
		return
	}
	c01Case(c, s, in.Text, in.Limits, in.Split)
}

func stepBudgetShort(n int) int64 { return 4000 + 400*int64(n) }

// c01Case runs every entry point on one input and evaluates the totality invariant.
func c01Case(c *explore.Ctx, s *explore.SubStats, text string, limits, split bool) {
	s.Executions++
	explore.Crumb(s.Name, text)
	var sm *srcMap
	budget := stepBudgetShort(len(text))
	bad := func(key, detail string) {
		c.Report(s, explore.Violation{Key: key, Input: explore.J(c01Input{text, limits, split}), Rendered: text, Detail: detail})
	}
	checkErr := func(entry string, err error, named string) string {
		if err == nil {
			return "ok"
		}
		ge, ok := errLocs(err)
		if !ok {
			return "err-plain"
		}
		if ge.Message == "" {
			bad("error/empty-message entry="+entry, "empty message")
		}
		for _, l := range ge.Locations {
			if sm == nil {
				sm = newSrcMap(text)
			}
			if !sm.inside(l.Line, l.Column) {
				bad("pos/error-outside-input entry="+entry+" msg="+normMsg(ge.Message),
					fmt.Sprintf("%s: error %q at line %d column %d lies outside the input (lines=%d)", entry, ge.Message, l.Line, l.Column, len(sm.lineLens)))
			}
		}
		return "err"
	}
	report := func(entry string, r callResult) bool {
		s.MaxOf("steps", r.Steps)
		s.MaxOf("depth", int64(r.MaxDepth))
		if r.Panicked {
			if r.Budget {
				bad("budget entry="+entry+" site="+r.Site, fmt.Sprintf("%s: %s (budget %d for %d bytes)", entry, r.PanicVal, budget, len(text)))
			} else {
				bad("panic site="+r.Site+" msg="+normMsg(r.PanicVal), fmt.Sprintf("%s panicked: %s\n%s", entry, r.PanicVal, trimStack(r.Stack)))
			}
			return false
		}
		return true
	}

	// 1. lex to the end
	ntok := 0
	lexOutcome := "eof"
	r := guarded(budget, 0, func() {
		lx := lexer.New(&ast.Source{Input: text, Name: "f"})
		prevEnd := 0
		for i := 0; ; i++ {
			if i > len(text)+1 {
				bad("lex/no-progress", "ReadToken called more than len+2 times without reaching EOF")
				return
			}
			t, err := lx.ReadToken()
			if err != nil {
				lexOutcome = checkErr("lex", err, "f")
				return
			}
			if t.Kind == lexer.EOF {
				return
			}
			ntok++
			if t.Pos.End < prevEnd || t.Pos.End < t.Pos.Start {
				bad("lex/backwards", fmt.Sprintf("token %d (%s) has Start=%d End=%d, previous End=%d", i, t.Kind, t.Pos.Start, t.Pos.End, prevEnd))
			}
			prevEnd = t.Pos.End
		}
	})
	report("lex", r)

	// 2. both parsers
	var qo, so string
	r = guarded(budget, 0, func() {
		d, err := parser.ParseQuery(&ast.Source{Input: text, Name: "f"})
		qo = checkErr("ParseQuery", err, "f")
		if err == nil && d == nil {
			bad("result/nil-document entry=ParseQuery", "nil document with nil error")
		}
	})
	report("ParseQuery", r)
	r = guarded(budget, 0, func() {
		d, err := parser.ParseSchema(&ast.Source{Input: text, Name: "f"})
		so = checkErr("ParseSchema", err, "f")
		if err == nil && d == nil {
			bad("result/nil-document entry=ParseSchema", "nil document with nil error")
		}
	})
	report("ParseSchema", r)
	// the same source flagged built-in (the flag is copied onto the definitions after parsing)
	r = guarded(budget, 0, func() {
		d, err := parser.ParseSchema(&ast.Source{Input: text, Name: "f", BuiltIn: true})
		if o := checkErr("ParseSchema(BuiltIn)", err, "f"); o != so {
			bad("result/builtin-flag-changes-outcome entry=ParseSchema", "ParseSchema succeeds for one value of Source.BuiltIn and fails for the other")
		}
		if err == nil && d == nil {
			bad("result/nil-document entry=ParseSchema(BuiltIn)", "nil document with nil error")
		}
	})
	report("ParseSchema(BuiltIn)", r)
	s.Outcome("lex:" + lexOutcome + " query:" + qo + " schema:" + so)
	if ntok > 0 {
		s.Nontrivial++
	}
	s.Validated += 4

	// 3. every token limit
	if limits {
		for l := -1; l <= ntok+2; l++ {
			lim := l
			r = guarded(budget, 0, func() {
				d, err := parser.ParseQueryWithTokenLimit(&ast.Source{Input: text, Name: "f"}, lim)
				checkErr("ParseQueryWithTokenLimit", err, "f")
				if err == nil && d == nil {
					bad("result/nil-document entry=ParseQueryWithTokenLimit", "nil document with nil error")
				}
			})
			report(fmt.Sprintf("ParseQueryWithTokenLimit(%d)", lim), r)
			r = guarded(budget, 0, func() {
				d, err := parser.ParseSchemaWithLimit(&ast.Source{Input: text, Name: "f"}, lim)
				checkErr("ParseSchemaWithLimit", err, "f")
				if err == nil && d == nil {
					bad("result/nil-document entry=ParseSchemaWithLimit", "nil document with nil error")
				}
			})
			report(fmt.Sprintf("ParseSchemaWithLimit(%d)", lim), r)
			s.Validated += 2
		}
	}
	// 4. two sources, split at every space
	if split {
		for i := 0; i < len(text); i++ {
			if text[i] != ' ' {
				continue
			}
			a, b := text[:i], text[i+1:]
			r = guarded(2*budget, 0, func() {
				d, err := parser.ParseSchemas(&ast.Source{Input: a, Name: "a", BuiltIn: i%2 == 0}, &ast.Source{Input: b, Name: "b", BuiltIn: i%3 == 0})
				if err == nil && d == nil {
					bad("result/nil-document entry=ParseSchemas", "nil document with nil error")
				}
				if ge, ok := errLocs(err); ok {
					for _, l := range ge.Locations {
						f, _ := ge.Extensions["file"].(string)
						src := a
						if f == "b" {
							src = b
						}
						if !newSrcMap(src).inside(l.Line, l.Column) {
							bad("pos/error-outside-input entry=ParseSchemas msg="+normMsg(ge.Message),
								fmt.Sprintf("ParseSchemas(%q,%q): error %q file %q at %d:%d outside that source", a, b, ge.Message, f, l.Line, l.Column))
						}
					}
				}
			})
			report("ParseSchemas", r)
			s.Validated++
		}
	}
	s.Sample(func() any { return text })
}

func trimStack(st string) string {
	lines := strings.Split(st, "\n")
	var out []string
	for i := 0; i < len(lines); i++ {
		if strings.Contains(lines[i], "gqlparser/v2") && !strings.Contains(lines[i], "verifhook") {
			out = append(out, lines[i])
			if i+1 < len(lines) {
				out = append(out, lines[i+1])
			}
			if len(out) > 16 {
				break
			}
		}
	}
	return strings.Join(out, "\n")
}

func runC01(c *explore.Ctx) {
	start := time.Now()
	seqSub := func(name string, alpha []string, n int, desc string) {
		s := c.Sub(name, fmt.Sprintf("every string of ≤ %d symbols over %s (%d symbols): %d-ary tree, every prefix is a case", n, desc, len(alpha), len(alpha)),
			"lex to end + ParseQuery + ParseSchema (also from a source flagged built-in) return normally; nil error ⇒ document; error locations inside the input; ReadToken makes progress; step budget 4000+400·len",
			"input yields at least one token before EOF/error")
		if s == nil {
			return
		}
		t0 := time.Now()
		st, tr, complete := explore.Seqs(len(alpha), n, c.Shard, c.NShards, c.Expired, func(sym []int) bool {
			c01Case(c, s, gen.RenderStrs(alpha, sym), false, false)
			return true
		})
		s.States, s.Transitions = st, tr
		if !complete {
			s.Cap("deadline reached; shards not finished")
		}
		s.WallS = time.Since(t0).Seconds()
	}
	seqSub("bytes", gen.SigmaByte, c.Pick(5, 6), "Σ_byte")
	seqSub("macro", gen.SigmaMacro, c.Pick(4, 5), "Σ_macro")

	tokSub := func(name string, alpha []gen.Tok, n int) {
		s := c.Sub(name, fmt.Sprintf("every token sequence of ≤ %d tokens over %d token classes, rendered with single spaces (sequences of 2–4 tokens also with one token per line); × every token limit −1..tokens+2; × every two-source split (≤ 4 tokens)", n, len(alpha)),
			"as bytes, plus the limited entry points and ParseSchemas",
			"input yields at least one token")
		if s == nil {
			return
		}
		t0 := time.Now()
		st, tr, complete := explore.Seqs(len(alpha), n, c.Shard, c.NShards, c.Expired, func(sym []int) bool {
			text := gen.Render(alpha, sym)
			c01Case(c, s, text, true, len(sym) <= 4)
			if len(sym) >= 2 && len(sym) <= 4 {
				// every token on a line of its own (an error reported "after the previous token"
				// must still lie on that token's line); the split at spaces does not apply
				c01Case(c, s, strings.ReplaceAll(text, " ", "\n"), true, false)
			}
			return true
		})
		s.States, s.Transitions = st, tr
		if !complete {
			s.Cap("deadline reached; shards not finished")
		}
		s.WallS = time.Since(t0).Seconds()
	}
	{
		lineAlpha := []string{"", " ", "  ", "    ", "a", " a", "  a", "    a", "\ta", "  \t"}
		nl := c.Pick(5, 6)
		s := c.Sub("block-lines", fmt.Sprintf("every block string of ≤ %d lines over %d line shapes (blank lines of 0–4 spaces, text at indents 0, 1, 2, 4, tabs), terminated and unterminated, as an argument value and as a description", nl, len(lineAlpha)), "as bytes", "always")
		if s != nil {
			t0 := time.Now()
			st, tr, complete := explore.Seqs(len(lineAlpha), nl, c.Shard, c.NShards, c.Expired, func(sym []int) bool {
				if len(sym) == 0 {
					return true
				}
				ls := make([]string, len(sym))
				for i, x := range sym {
					ls[i] = lineAlpha[x]
				}
				body := strings.Join(ls, "\n")
				c01Case(c, s, `{a(x:"""`+body+`""")}`, false, false)
				c01Case(c, s, `"""`+body+`""" scalar A`, false, false)
				c01Case(c, s, `"""`+body, false, false)
				return true
			})
			s.States, s.Transitions = st, tr
			if !complete {
				s.Cap("deadline reached; shards not finished")
			}
			s.WallS = time.Since(t0).Seconds()
		}
	}
	tokSub("tokens-exec", gen.SigmaExec, c.Pick(4, 5))
	tokSub("tokens-sdl", gen.SigmaSDL, c.Pick(4, 5))
	c01Families(c)
	_ = start
}
