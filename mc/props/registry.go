// Package props holds one check per property. Each check enumerates its bounded spaces
// completely and evaluates its oracle on every execution against the real code.
package props

import (
	"encoding/json"
	"sort"

	"verif/mc/explore"
)

type Prop struct {
	ID          string
	Run         func(c *explore.Ctx)
	Replay      func(c *explore.Ctx, s *explore.SubStats, v explore.Violation)
	Assumptions []string
}

var registry = map[string]*Prop{}

func register(p *Prop) { registry[p.ID] = p }

func Get(id string) *Prop { return registry[id] }

func IDs() []string {
	var ids []string
	for k := range registry {
		ids = append(ids, k)
	}
	sort.Strings(ids)
	return ids
}

// replayers: sub-check name → function that re-executes one recorded input.
type replayFn func(c *explore.Ctx, s *explore.SubStats, raw json.RawMessage)

func replayBySub(m map[string]replayFn) func(c *explore.Ctx, s *explore.SubStats, v explore.Violation) {
	return func(c *explore.Ctx, s *explore.SubStats, v explore.Violation) {
		if f, ok := m[v.Sub]; ok {
			f(c, s, v.Input)
		}
	}
}
