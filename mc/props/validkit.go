package props

import (
	"strings"
	"sync"

	gqlparser "github.com/vektah/gqlparser/v2"
	"github.com/vektah/gqlparser/v2/ast"

	"verif/mc/explore"
	"verif/mc/gen"
	"verif/mc/ref/refgrammar"
)

// Shared harness of the validation checks (C02, C08, C09, C10, C18, C20): the schemas of
// the validation kit, loaded once per process, and the enumeration of its documents.

var (
	kitOnce         sync.Once
	kitSchemas      []*ast.Schema
	kitModelSchemas []*ast.Schema
	kitAltSchemas   []*ast.Schema
)

func kitLoad() {
	kitOnce.Do(func() {
		for j, sdl := range gen.ValidSchemas {
			for k := 0; k < 3; k++ {
				s, err := gqlparser.LoadSchema(&ast.Source{Name: "kit-schema.graphql", Input: sdl})
				if err != nil {
					panic("validation kit schema " + string(rune('0'+j)) + " does not load: " + err.Error())
				}
				switch k {
				case 0:
					kitSchemas = append(kitSchemas, s)
				case 1:
					kitModelSchemas = append(kitModelSchemas, s)
				default:
					kitAltSchemas = append(kitAltSchemas, s)
				}
			}
		}
	})
}

// kitSchema: the instance handed to the library (shared by all cases of a worker process,
// so that state leaking into the schema shows up in later cases).
func kitSchema(i int) *ast.Schema {
	kitLoad()
	return kitSchemas[i]
}

// kitModelSchema: a second instance loaded from the same text that is only ever read by
// the reference models and never passed to the library.
func kitModelSchema(i int) *ast.Schema {
	kitLoad()
	return kitModelSchemas[i]
}

// kitAltSchema: a third instance of the same text, for validating a document a second time
// against "another schema" (a reloaded one): everything the walk records must then belong to it.
func kitAltSchema(i int) *ast.Schema {
	kitLoad()
	return kitAltSchemas[i]
}

type kitDoc struct {
	Schema  int    `json:"schema"`
	Profile string `json:"profile"`
	Choice  []int  `json:"choice,omitempty"`
	Doc     string `json:"doc"`
}

// forEachProfileDoc enumerates every document of every profile (sharded by index).
func forEachProfileDoc(c *explore.Ctx, s *explore.SubStats, only string, visit func(d kitDoc)) {
	idx := 0
	for pi := range gen.ValidProfiles {
		p := &gen.ValidProfiles[pi]
		if only != "" && !strings.HasPrefix(p.Name, only) {
			continue
		}
		p.Expand(func(doc string, choice []int) {
			idx++
			if idx%c.NShards != c.Shard || !s.Exhaustive {
				return
			}
			if idx&255 == 0 && c.Expired() {
				s.Cap("deadline")
				return
			}
			s.States++
			visit(kitDoc{Schema: p.Schema, Profile: p.Name, Choice: append([]int{}, choice...), Doc: doc})
		})
	}
}

func profileDocCount() int {
	n := 0
	for i := range gen.ValidProfiles {
		n += gen.ValidProfiles[i].Size()
	}
	return n
}

// kitVocab: names substituted for the generic name in type-blind documents.
var kitVocab = []string{"id", "node", "pet", "Pet", "Query", "F", "nope", "name", "Kind", "search"}

// forEachBlindDoc enumerates type-blind documents: every sentence of ≤ n tokens of the
// executable grammar G¹ (keywords only in keyword positions) with every assignment of the
// vocabulary to its name positions.
func forEachBlindDoc(c *explore.Ctx, s *explore.SubStats, n int, visit func(d kitDoc)) {
	alpha := blindAlpha()
	ss := language(execSide, execSide.grammar(), "blind", alpha, n, true)
	idx := 0
	for _, se := range ss {
		var pos []int
		for i, x := range se.Classes {
			if alpha[x].Text == "a" {
				pos = append(pos, i)
			}
		}
		if len(pos) > 4 {
			continue // more than four free names: covered by the profiles instead
		}
		toks := make([]string, len(se.Classes))
		for i, x := range se.Classes {
			toks[i] = alpha[x].Text
		}
		radix := make([]int, len(pos))
		for i := range radix {
			radix[i] = len(kitVocab)
		}
		if len(pos) == 0 {
			radix = []int{1}
		}
		explore.Product(radix, 0, 1, nil, func(d []int) {
			idx++
			if idx%c.NShards != c.Shard || !s.Exhaustive {
				return
			}
			if idx&1023 == 0 && c.Expired() {
				s.Cap("deadline")
				return
			}
			for i, p := range pos {
				toks[p] = kitVocab[d[i]]
			}
			s.States++
			visit(kitDoc{Schema: 0, Profile: "blind", Doc: strings.Join(toks, " ")})
		})
	}
}

// blindAlpha: the executable alphabet without comments, invalid tokens and the string "on".
func blindAlpha() []gen.Tok {
	var out []gen.Tok
	for _, t := range gen.SigmaExec {
		if t.Kind == "Comment" || t.Kind == "Invalid" || t.Text == `"on"` || t.Text == `"""b"""` {
			continue
		}
		out = append(out, t)
	}
	return out
}

var _ = refgrammar.IsKeywordLike
