package props

import (
	"encoding/json"
	"fmt"
	"sort"
	"strings"
	"time"

	gqlparser "github.com/vektah/gqlparser/v2"
	"github.com/vektah/gqlparser/v2/ast"
	"github.com/vektah/gqlparser/v2/gqlerror"
	"github.com/vektah/gqlparser/v2/parser"
	"github.com/vektah/gqlparser/v2/validator"

	"verif/mc/explore"
	"verif/mc/gen"
)

// C17: schema loading is independent of definition order and of how sources are split.

func init() {
	register(&Prop{ID: "C17", Run: runC17, Replay: func(c *explore.Ctx, s *explore.SubStats, v explore.Violation) {
		var in c17Input
		if json.Unmarshal(v.Input, &in) == nil {
			c17Case(c, s, in, nil)
		}
	}, Assumptions: []string{
		"differential oracle: every ordering × every split is compared with the canonical order in one source (loads ⇔ loads; equal canonical dumps with fields, interfaces, members, enum values, directive uses and relation entries compared as sets per type)",
		"the unit of permutation is a top-level definition or extension from the schema kit; the 15 base definitions move as three blocks (implementers / interfaces / unions, enums, inputs, scalars, directives) so that implementers come before and after their interfaces, members before and after their unions, directive uses before and after their definitions",
		"file oracle: a load error must carry the name of a source that holds a definition or extension ref/refschema marks as involved in some broken rule (the defining and the referring definition); which of several broken rules is reported is not prescribed",
	}})
}

// base blocks (indices into gen.KitBase)
func c17Blocks() [][]string {
	var impl, ifaces, rest []string
	for _, d := range gen.KitBase {
		switch {
		case strings.HasPrefix(d, "type "):
			impl = append(impl, d)
		case strings.HasPrefix(d, "interface "):
			ifaces = append(ifaces, d)
		default:
			rest = append(rest, d)
		}
	}
	return [][]string{impl, ifaces, rest}
}

type c17Input struct {
	Items []int `json:"items"` // menu items
	Perm  []int `json:"perm"`  // order of the units (3 base blocks, then the items)
	Cuts  []int `json:"cuts"`  // unit indices (in permuted order) at which a new source starts
}

func (in c17Input) units() []string {
	var u []string
	for _, b := range c17Blocks() {
		u = append(u, strings.Join(b, "\n"))
	}
	for _, i := range in.Items {
		u = append(u, gen.KitMenu[i])
	}
	return u
}

func (in c17Input) sources() []*ast.Source {
	u := in.units()
	order := in.Perm
	if order == nil {
		for i := range u {
			order = append(order, i)
		}
	}
	cut := map[int]bool{}
	for _, c := range in.Cuts {
		cut[c] = true
	}
	var srcs []*ast.Source
	var cur []string
	flush := func() {
		if len(cur) > 0 {
			srcs = append(srcs, &ast.Source{Name: fmt.Sprintf("s%d.graphql", len(srcs)), Input: strings.Join(cur, "\n")})
			cur = nil
		}
	}
	for pos, ui := range order {
		if cut[pos] {
			flush()
		}
		cur = append(cur, u[ui])
	}
	flush()
	return srcs
}

// schemaDump: canonical, order-insensitive dump of a loaded schema.
func schemaDump(s *ast.Schema) string {
	var b strings.Builder
	setOf := func(xs []string) string {
		xs = append([]string{}, xs...)
		sort.Strings(xs)
		return strings.Join(xs, ",")
	}
	dirs := func(ds ast.DirectiveList) string {
		var xs []string
		for _, d := range ds {
			xs = append(xs, "@"+d.Name+"("+projArgs(d.Arguments)+")")
		}
		return setOf(xs)
	}
	args := func(as ast.ArgumentDefinitionList) string {
		var xs []string
		for _, a := range as {
			xs = append(xs, a.Name+":"+a.Type.String()+"="+projValue(a.DefaultValue)+" "+dirs(a.Directives)+" "+qs(a.Description))
		}
		return strings.Join(xs, ";")
	}
	root := func(d *ast.Definition) string {
		if d == nil {
			return "-"
		}
		return d.Name
	}
	fmt.Fprintf(&b, "roots %s %s %s desc=%q schemadirs[%s]\n", root(s.Query), root(s.Mutation), root(s.Subscription), s.Description, dirs(s.SchemaDirectives))
	var names []string
	for n := range s.Types {
		names = append(names, n)
	}
	sort.Strings(names)
	defNames := func(ds []*ast.Definition) string {
		var xs []string
		for _, d := range ds {
			if d == nil {
				xs = append(xs, "<nil>")
			} else {
				xs = append(xs, d.Name)
			}
		}
		return setOf(xs)
	}
	for _, n := range names {
		d := s.Types[n]
		if d == nil {
			fmt.Fprintf(&b, "type %s <nil>\n", n)
			continue
		}
		var fs, vs []string
		for _, f := range d.Fields {
			fs = append(fs, f.Name+"("+args(f.Arguments)+"):"+f.Type.String()+"="+projValue(f.DefaultValue)+" "+dirs(f.Directives)+" "+qs(f.Description))
		}
		for _, v := range d.EnumValues {
			vs = append(vs, v.Name+" "+dirs(v.Directives)+" "+qs(v.Description))
		}
		fmt.Fprintf(&b, "type %s %s desc=%q builtin=%v ifaces[%s] members[%s] dirs[%s] fields{%s} values{%s} possible[%s] implements[%s]\n",
			d.Kind, n, d.Description, d.BuiltIn, setOf(d.Interfaces), setOf(d.Types), dirs(d.Directives), setOf(fs), setOf(vs), defNames(s.PossibleTypes[n]), defNames(s.Implements[n]))
	}
	var dn []string
	for n := range s.Directives {
		dn = append(dn, n)
	}
	sort.Strings(dn)
	for _, n := range dn {
		d := s.Directives[n]
		var locs []string
		for _, l := range d.Locations {
			locs = append(locs, string(l))
		}
		fmt.Fprintf(&b, "directive %s(%s) repeatable=%v on[%s] desc=%q\n", n, args(d.Arguments), d.IsRepeatable, setOf(locs), d.Description)
	}
	return b.String()
}

type c17Canon struct {
	loads    bool
	dump     string
	involved map[string]bool // refschema's involved definitions over all broken rules
	valid    bool
}

// definedBy lists the "type:X" / "directive:X" / "schema" keys a source text defines or extends.
func definedBy(text string) map[string]bool {
	out := map[string]bool{}
	doc, err := parser.ParseSchema(&ast.Source{Input: text, Name: "u"})
	if err != nil {
		return out
	}
	for _, d := range doc.Definitions {
		out["type:"+d.Name] = true
	}
	for _, d := range doc.Extensions {
		out["type:"+d.Name] = true
	}
	for _, d := range doc.Directives {
		out["directive:"+d.Name] = true
	}
	if len(doc.Schema)+len(doc.SchemaExtension) > 0 {
		out["schema"] = true
	}
	return out
}

func c17Canonical(items []int) *c17Canon {
	in := c17Input{Items: items}
	srcs := in.sources()
	cn := &c17Canon{involved: map[string]bool{}}
	if m, err := schemaModel(srcs...); err == nil {
		cn.valid = m.Valid()
		for _, b := range m.Broken {
			for _, i := range b.Involved {
				cn.involved[i] = true
			}
		}
	}
	sch, err := gqlparser.LoadSchema(srcs...)
	cn.loads = err == nil
	if err == nil {
		cn.dump = schemaDump(sch)
	}
	return cn
}

func c17Case(c *explore.Ctx, s *explore.SubStats, in c17Input, cn *c17Canon) {
	if cn == nil {
		cn = c17Canonical(in.Items)
	}
	srcs := in.sources()
	var rb strings.Builder
	for _, x := range srcs {
		fmt.Fprintf(&rb, "--- %s\n%s\n", x.Name, x.Input)
	}
	rendered := rb.String()
	explore.Crumb(s.Name, rendered)
	s.Executions++
	bad := func(key, detail, exp, obs string) {
		c.Report(s, explore.Violation{Key: key, Input: explore.J(in), Rendered: rendered, Detail: detail, Expected: exp, Observed: obs})
	}
	var sch *ast.Schema
	var err error
	r := guarded(4000000, 0, func() { sch, err = gqlparser.LoadSchema(srcs...) })
	if r.Panicked {
		bad("panic site="+r.Site+" msg="+normMsg(r.PanicVal), "LoadSchema panicked: "+r.PanicVal+"\n"+trimStack(r.Stack), "", "")
		return
	}
	s.Validated++
	if len(srcs) == 2 && c17Monotone(in.Perm) {
		// the order in which the same two source files are passed, one of them flagged built-in
		// (a flag of the file, not of its place): same loadability, same schema
		load := func(first, second *ast.Source) (string, error) {
			var sc *ast.Schema
			var e error
			rr := guarded(4000000, 0, func() { sc, e = gqlparser.LoadSchema(first, second) })
			if rr.Panicked {
				return "panic: " + rr.PanicVal, nil
			}
			if e != nil {
				return "", e
			}
			return schemaDump(sc), nil
		}
		for flagged := 0; flagged < 2; flagged++ {
			a := &ast.Source{Name: srcs[0].Name, Input: srcs[0].Input, BuiltIn: flagged == 0}
			b := &ast.Source{Name: srcs[1].Name, Input: srcs[1].Input, BuiltIn: flagged == 1}
			d1, e1 := load(a, b)
			d2, e2 := load(b, a)
			s.Transitions += 2
			if (e1 == nil) != (e2 == nil) {
				bad(fmt.Sprintf("order/source-order-with-builtin-flag loads=%v/%v", e1 == nil, e2 == nil), fmt.Sprintf("two source files (the %s flagged built-in) load in one order and not in the other", []string{"first", "second"}[flagged]), fmt.Sprint(e1), fmt.Sprint(e2))
				break
			}
			if e1 == nil && d1 != d2 {
				bad("order/source-order-with-builtin-flag "+firstDiffLine(d1, d2), "two source files (one flagged built-in) load into different schemas depending on the order they are passed in", d1, d2)
				break
			}
		}
	}
	if len(srcs) >= 2 && c17Monotone(in.Perm) {
		// what the files are called is no part of the type system: every source under one name, and a first source
		// that is called like the library's own prelude, load into the same schema
		for _, nm := range []string{"same.graphql", "prelude.graphql"} {
			var named []*ast.Source
			for i, x := range srcs {
				n := x.Name
				if nm == "same.graphql" || i == 0 {
					n = nm
				}
				named = append(named, &ast.Source{Name: n, Input: x.Input})
			}
			var sc *ast.Schema
			var e error
			rr := guarded(4000000, 0, func() { sc, e = gqlparser.LoadSchema(named...) })
			s.Transitions++
			if rr.Panicked {
				bad("panic site="+rr.Site+" msg="+normMsg(rr.PanicVal), "LoadSchema panicked with sources named "+nm+": "+rr.PanicVal, "", "")
				break
			}
			if (e == nil) != (err == nil) {
				bad(fmt.Sprintf("order/source-names loads=%v/%v names=%s", err == nil, e == nil, nm), "whether the sources load depends on what the files are called", fmt.Sprint(err), fmt.Sprint(e))
				break
			}
			if e == nil && schemaDump(sc) != schemaDump(sch) {
				bad("order/source-names schema names="+nm+" "+firstDiffLine(schemaDump(sch), schemaDump(sc)), "the loaded schema depends on what the source files are called", schemaDump(sch), schemaDump(sc))
				break
			}
		}
	}
	if (err == nil) != cn.loads {
		e := "loads"
		if err != nil {
			e = err.Error()
		}
		bad(fmt.Sprintf("order/loadability canonical=%v", cn.loads), "whether the definitions load depends on their order or on the split into sources", fmt.Sprintf("loads=%v (canonical order, one source)", cn.loads), e)
		s.Outcome("loadability-differs")
		return
	}
	if err == nil {
		s.Nontrivial++
		if d := schemaDump(sch); d != cn.dump {
			bad("order/schema "+firstDiffLine(cn.dump, d), "the loaded schema depends on the order of the definitions or on the split into sources", cn.dump, d)
			s.Outcome("schema-differs")
			return
		}
		s.Outcome(fmt.Sprintf("same-schema sources=%d", len(srcs)))
		s.Sample(func() any { return in })
		return
	}
	// error: the file named must hold an involved definition
	s.Outcome(fmt.Sprintf("same-rejection sources=%d", len(srcs)))
	ge, ok := err.(*gqlerror.Error)
	if !ok {
		if l, isList := err.(gqlerror.List); isList && len(l) > 0 {
			ge = l[0]
		}
	}
	if ge == nil {
		return
	}
	file, _ := ge.Extensions["file"].(string)
	if file == "" {
		bad("order/error-without-file msg="+normMsg(ge.Message), "a load error from named sources carries no file: "+ge.Message, "", "")
		return
	}
	var src *ast.Source
	for _, x := range srcs {
		if x.Name == file {
			src = x
		}
	}
	if src == nil && file == validator.Prelude.Name {
		// an error located in the built-in definitions: acceptable when one of them is involved
		// (e.g. an extension of a built-in type that names an undefined interface)
		src = validator.Prelude
	}
	if src == nil {
		bad("order/error-unknown-file", fmt.Sprintf("the load error names file %q which is not one of the sources: %s", file, ge.Message), "", "")
		return
	}
	if len(cn.involved) == 0 {
		s.Undecided++ // the reference model sees no broken rule (C07's business): no file expectation
		return
	}
	holds := false
	for k := range definedBy(src.Input) {
		if cn.involved[k] {
			holds = true
		}
	}
	if !holds {
		var inv []string
		for k := range cn.involved {
			inv = append(inv, k)
		}
		sort.Strings(inv)
		bad("order/error-file msg="+msgTemplate(ge.Message, map[string]bool{}), fmt.Sprintf("the load error %q names %s, which holds none of the definitions involved (%s)", ge.Message, file, strings.Join(inv, " ")), "", "")
	}
}

func firstDiffLine(a, b string) string {
	al, bl := strings.Split(a, "\n"), strings.Split(b, "\n")
	for i := 0; i < len(al) && i < len(bl); i++ {
		if al[i] != bl[i] {
			f := strings.Fields(al[i])
			if len(f) >= 3 && f[0] == "type" {
				// which component differs
				for _, comp := range []string{"ifaces[", "members[", "dirs[", "fields{", "values{", "possible[", "implements["} {
					if part(al[i], comp) != part(bl[i], comp) {
						return "type " + f[1] + " " + strings.TrimRight(comp, "[{")
					}
				}
				return "type " + f[1]
			}
			if len(f) > 0 {
				return f[0]
			}
		}
	}
	return "length"
}

func part(line, comp string) string {
	i := strings.Index(line, comp)
	if i < 0 {
		return ""
	}
	rest := line[i:]
	end := strings.IndexAny(rest[len(comp):], "]}")
	if end < 0 {
		return rest
	}
	return rest[:len(comp)+end]
}

func runC17(c *explore.Ctx) {
	k := c.Pick(1, 2)
	s := c.Sub("permute-split", fmt.Sprintf("every type system = base (3 blocks) + ≤ %d of %d menu items (valid and faulty), (quick: plus every pair of extension items, every extension × described-definition pair, every implements-only item × input object, every directive declaration × item using that directive; every two-source layout of the canonical order and its mirror also in both source orders with either source flagged built-in) under every permutation of its units and every cut of the permuted sequence into 1–3 named sources", k, len(gen.KitMenu)),
		"(both tiers: plus 5 item triples — two union extensions, one with an undefined member, and an implementer narrowing to the defined member; an interface that gets its two parents from two extensions and an implementer listing one of them — under all 720 orders) loads ⇔ the canonical order loads; the loaded schemas have equal canonical dumps; a load error names a source that holds a definition involved in a broken rule", "orderings that load")
	if s == nil {
		return
	}
	t0 := time.Now()
	idx := 0
	// the pairs first (quick tier): should a deadline cut the run short, it cuts the singles
	if k < 2 {
		// quick tier: additionally every pair of extension items (the order-sensitive ones)
		var exts []int
		for i, it := range gen.KitMenu {
			if strings.HasPrefix(it, "extend ") {
				exts = append(exts, i)
			}
		}
		// … and every (extension, described definition) pair: a description is per definition
		var pairs [][2]int
		for a := 0; a < len(exts); a++ {
			for b := a + 1; b < len(exts); b++ {
				pairs = append(pairs, [2]int{exts[a], exts[b]})
			}
			for i, it := range gen.KitMenu {
				if strings.HasPrefix(it, `"`) {
					pairs = append(pairs, [2]int{exts[a], i})
				}
			}
		}
		// … and every directive (re)declaration with every item that uses a directive of that name
		for i, it := range gen.KitMenu {
			if !strings.HasPrefix(it, "directive @") {
				continue
			}
			name := it[len("directive "):]
			if k := strings.IndexAny(name, "( "); k > 0 {
				name = name[:k]
			}
			for j, use := range gen.KitMenu {
				if j != i && !strings.HasPrefix(use, "directive "+name) && (strings.Contains(use, name+" ") || strings.Contains(use, name+"(") || strings.Contains(use, name+")")) {
					pairs = append(pairs, [2]int{i, j})
				}
			}
		}
		// … and every definition or extension that ends with its implements clause with every input object definition
		for i, it := range gen.KitMenu {
			if !strings.Contains(it, " implements ") || strings.ContainsAny(it, "{@") {
				continue
			}
			for j, other := range gen.KitMenu {
				if strings.HasPrefix(other, "input ") {
					pairs = append(pairs, [2]int{i, j})
				}
			}
		}
		for _, pr := range pairs {
			{
				idx++
				if idx%c.NShards != c.Shard {
					continue
				}
				if c.Expired() {
					s.Cap("deadline")
					break
				}
				its := []int{pr[0], pr[1]}
				if its[0] > its[1] {
					its[0], its[1] = its[1], its[0]
				}
				cn := c17Canonical(its)
				s.States++
				explore.Perms(5, func(p []int) {
					perm := append([]int{}, p...)
					c17Case(c, s, c17Input{its, perm, nil}, cn)
					s.Transitions++
					for x := 1; x < 5; x++ {
						c17Case(c, s, c17Input{its, perm, []int{x}}, cn)
						s.Transitions++
						for y := x + 1; y < 5; y++ {
							c17Case(c, s, c17Input{its, perm, []int{x, y}}, cn)
							s.Transitions++
						}
					}
				})
			}
		}
	}
	// three items that only matter together: a union that gets an undefined and a defined member through two
	// extensions, and an implementer (in a file of its own) that narrows an interface field to the defined member
	for _, tr := range c17Triples() {
		idx++
		if idx%c.NShards != c.Shard || c.Expired() {
			continue
		}
		cn := c17Canonical(tr)
		s.States++
		explore.Perms(6, func(p []int) {
			perm := append([]int{}, p...)
			c17Case(c, s, c17Input{tr, perm, nil}, cn)
			s.Transitions++
			for x := 1; x < 6; x++ {
				c17Case(c, s, c17Input{tr, perm, []int{x}}, cn)
				s.Transitions++
				for y := x + 1; y < 6; y++ {
					c17Case(c, s, c17Input{tr, perm, []int{x, y}}, cn)
					s.Transitions++
				}
			}
		})
	}
	explore.Subsets(len(gen.KitMenu), k, func(items []int) {
		idx++
		if idx%c.NShards != c.Shard || !s.Exhaustive {
			return
		}
		if c.Expired() {
			s.Cap("deadline")
			return
		}
		its := append([]int{}, items...)
		cn := c17Canonical(its)
		n := 3 + len(its)
		s.States++
		explore.Perms(n, func(p []int) {
			perm := append([]int{}, p...)
			// cuts: none, one, two
			c17Case(c, s, c17Input{its, perm, nil}, cn)
			s.Transitions++
			for a := 1; a < n; a++ {
				c17Case(c, s, c17Input{its, perm, []int{a}}, cn)
				s.Transitions++
				for b := a + 1; b < n; b++ {
					c17Case(c, s, c17Input{its, perm, []int{a, b}}, cn)
					s.Transitions++
				}
			}
		})
	})
	s.WallS = time.Since(t0).Seconds()
}

// c17Monotone: the permutation is the identity or its reversal (the source-order swap with a
// built-in flag is tried on those layouts: every cut of the canonical order and of its mirror).
func c17Monotone(p []int) bool {
	asc, desc := true, true
	for i := 1; i < len(p); i++ {
		if p[i] < p[i-1] {
			asc = false
		}
		if p[i] > p[i-1] {
			desc = false
		}
	}
	return asc || desc
}

// c17Triples: item triples (sorted menu indexes) explored under every permutation and layout.
func c17Triples() [][]int {
	find := func(text string) int {
		for i, it := range gen.KitMenu {
			if it == text {
				return i
			}
		}
		panic("C17: no menu item " + text)
	}
	var out [][]int
	for _, tr := range [][]string{
		{"extend union Result = Extra2", "extend union Result = Spare", "type AR implements HasResult { r: Spare }"},
		{"extend union Result = Kind", "extend union Result = Spare", "type AR implements HasResult { r: Spare }"},
		{"extend type Spare implements HasS", "input P10 { ok: [[Kind!]!]! = [[DOG]] d: [Date] }", "extend union Result = Spare"},
		{"extend interface RE implements Node { id: ID! }", "extend interface RE implements HasNode { n: Node }", "type TE implements RE & Node { id: ID! n: Node }"},
		{"extend interface RE implements Node { id: ID! }", "extend interface RE implements HasNode { n: Node }", "type TE2 implements RE & HasNode { id: ID! n: Node }"},
	} {
		its := []int{find(tr[0]), find(tr[1]), find(tr[2])}
		sort.Ints(its)
		out = append(out, its)
	}
	return out
}
