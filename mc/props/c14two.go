package props

import (
	"fmt"

	gqlparser "github.com/vektah/gqlparser/v2"
	"github.com/vektah/gqlparser/v2/ast"
	"github.com/vektah/gqlparser/v2/validator"

	"verif/mc/explore"
)

// two-schemas: coercion is a function of (schema, operation, variables). Two schemas of one
// process declare an enum and an input object of the same names with other members; every
// sequence of ≤ 3 coercions over {schema} × {value} must give each call the verdict its own
// schema prescribes, whatever ran before.

const c14TwoA = `enum Colour { RED GREEN A1 A2 A3 A4 A5 A6 A7 A8 } input Box { w: Int! colour: Colour } type Query { f(c: Colour, b: Box): Int }`
const c14TwoB = `enum Colour { RED BLUE B1 B2 B3 B4 B5 B6 B7 B8 } input Box { h: Int! colour: Colour } type Query { f(c: Colour, b: Box): Int }`

type c14TwoCall struct {
	Schema int    `json:"schema"`
	Value  string `json:"value"`
}

func init() {
	prev := registry["C14"].Run
	registry["C14"].Run = func(c *explore.Ctx) {
		prev(c)
		values := []struct {
			name string
			vars map[string]any
			ok   [2]bool
		}{
			{"c=GREEN", map[string]any{"c": "GREEN"}, [2]bool{true, false}},
			{"c=BLUE", map[string]any{"c": "BLUE"}, [2]bool{false, true}},
			{"c=RED", map[string]any{"c": "RED"}, [2]bool{true, true}},
			{"b={w:1}", map[string]any{"b": map[string]any{"w": 1}}, [2]bool{true, false}},
			{"b={h:1,colour:B8}", map[string]any{"b": map[string]any{"h": 1, "colour": "B8"}}, [2]bool{false, true}},
		}
		s := c.Sub("two-schemas", fmt.Sprintf("two schemas in one process that declare an enum (10 values) and an input object of the same names with other members; every sequence of ≤ 3 coercions over 2 schemas × %d values", len(values)),
			"every call gets the verdict its own schema prescribes (error ⇔ the value does not conform to that schema), whatever ran before", "every sequence")
		if s == nil {
			return
		}
		var schemas [2]*ast.Schema
		var ops [2]*ast.OperationDefinition
		for i, sdl := range []string{c14TwoA, c14TwoB} {
			sch, err := gqlparser.LoadSchema(&ast.Source{Name: fmt.Sprintf("two%d.graphql", i), Input: sdl})
			if err != nil {
				panic(err)
			}
			doc, errs := gqlparser.LoadQuery(sch, `query Q($c: Colour, $b: Box) { f(c: $c, b: $b) }`)
			if errs != nil {
				panic(errs)
			}
			schemas[i], ops[i] = sch, doc.Operations[0]
		}
		k := len(values) * 2
		st, tr, _ := explore.Seqs(k, 3, c.Shard, c.NShards, c.Expired, func(sym []int) bool {
			if len(sym) == 0 {
				return true
			}
			s.Executions++
			var calls []c14TwoCall
			for _, x := range sym {
				si, vi := x%2, x/2
				calls = append(calls, c14TwoCall{si, values[vi].name})
				vars := map[string]any{}
				for kk, vv := range values[vi].vars {
					if m, ok := vv.(map[string]any); ok {
						cp := map[string]any{}
						for a, b := range m {
							cp[a] = b
						}
						vv = cp
					}
					vars[kk] = vv
				}
				var err error
				r := guarded(0, 0, func() { _, err = validator.VariableValues(schemas[si], ops[si], vars) })
				if r.Panicked {
					c.Report(s, explore.Violation{Key: "panic two-schemas site=" + r.Site, Input: explore.J(calls), Rendered: fmt.Sprint(calls), Detail: r.PanicVal})
					return false
				}
				if (err == nil) != values[vi].ok[si] {
					c.Report(s, explore.Violation{Key: fmt.Sprintf("coerce/two-schemas accepted=%v after=%d earlier calls", err == nil, len(calls)-1), Input: explore.J(calls), Rendered: fmt.Sprint(calls),
						Detail: fmt.Sprintf("call %d (schema %d, %s): accepted=%v, the schema prescribes %v (error: %v)", len(calls), si, values[vi].name, err == nil, values[vi].ok[si], err)})
					return false
				}
			}
			s.Validated++
			s.Nontrivial++
			return true
		})
		s.States, s.Transitions = st, tr
	}
}
