// Package explore is the bounded-exhaustive exploration engine: static product
// enumeration (odometer / sequence trees), a stateless choice-tree search with prefix
// replay and deviation bounding, sharding, accounting, and violation/known-finding
// bookkeeping. It knows nothing about gqlparser.
package explore

import (
	"encoding/json"
	"fmt"
	"os"
	"sort"
	"strconv"
	"time"
)

type Violation struct {
	Property string          `json:"property"`
	Sub      string          `json:"sub"`
	Key      string          `json:"key"`
	Input    json.RawMessage `json:"input"`
	Rendered string          `json:"rendered,omitempty"`
	Detail   string          `json:"detail"`
	Expected string          `json:"expected,omitempty"`
	Observed string          `json:"observed,omitempty"`
}

type KnownHit struct {
	Key     string `json:"key"`
	Count   int64  `json:"count"`
	Example string `json:"example"`
	Detail  string `json:"detail"`
}

// SubStats is the accounting of one sub-check (one enumerated space + one oracle).
type SubStats struct {
	Name        string `json:"name"`
	Space       string `json:"space"` // alphabet and bound, in words
	Oracle      string `json:"oracle"`
	Executions  int64  `json:"executions"`
	States      int64  `json:"states"`
	Transitions int64  `json:"transitions"`
	Validated   int64  `json:"traces_validated_against_impl"`
	Undecided   int64  `json:"undecided"`
	Skipped     int64  `json:"skipped"`
	// Outcomes counts executions per observable outcome class (guard against vacuity).
	Outcomes map[string]int64 `json:"outcomes"`
	// Nontrivial: distinct cases that are non-trivial by the sub-check's rule.
	Nontrivial     int64                `json:"distinct_nontrivial"`
	NontrivialRule string               `json:"nontrivial_rule"`
	Samples        []any                `json:"samples"`
	Known          map[string]*KnownHit `json:"known_findings_hit,omitempty"`
	Violations     []Violation          `json:"violations,omitempty"`
	ViolationCount int64                `json:"violation_count"`
	ViolationKeys  map[string]int64     `json:"violation_keys,omitempty"`
	Exhaustive     bool                 `json:"exhaustive"`
	CapHit         string               `json:"cap_hit,omitempty"`
	Max            map[string]int64     `json:"max,omitempty"`
	Extra          map[string]any       `json:"extra,omitempty"`
	WallS          float64              `json:"wall_s"`
	seenOutcomes   int
}

type Ctx struct {
	Property string
	Tier     string
	Shard    int
	NShards  int
	Deadline time.Time
	Known    map[string]bool // cause keys listed as findings for this property
	Subs     []*SubStats
	cur      *SubStats
	Only     string // run only this sub-check ("" = all)
	Verbose  bool
}

func (c *Ctx) Thorough() bool { return c.Tier == "thorough" }

// Pick returns q on the quick tier and t on the thorough tier.
func (c *Ctx) Pick(q, t int) int {
	if c.Thorough() {
		// VERIF_EXTRA=k: a campaign run k steps beyond the thorough bounds (not a registered tier;
		// run by hand with a longer --deadline to look for what lies just outside them)
		if x, err := strconv.Atoi(os.Getenv("VERIF_EXTRA")); err == nil && x > 0 {
			return t + x
		}
		return t
	}
	return q
}

func (c *Ctx) Expired() bool { return !c.Deadline.IsZero() && time.Now().After(c.Deadline) }

// Sub starts (and returns) the accounting of a sub-check; returns nil if filtered out.
func (c *Ctx) Sub(name, space, oracle, nontrivialRule string) *SubStats {
	if c.Only != "" && c.Only != name {
		return nil
	}
	s := &SubStats{Name: name, Space: space, Oracle: oracle, NontrivialRule: nontrivialRule,
		Outcomes: map[string]int64{}, Known: map[string]*KnownHit{}, Exhaustive: true, Max: map[string]int64{}, Extra: map[string]any{}}
	c.Subs = append(c.Subs, s)
	c.cur = s
	return s
}

func (s *SubStats) Outcome(class string) {
	if _, ok := s.Outcomes[class]; !ok {
		if len(s.Outcomes) >= 4000 {
			class = "(other)"
		}
	}
	s.Outcomes[class]++
}

func (s *SubStats) MaxOf(name string, v int64) {
	if v > s.Max[name] {
		s.Max[name] = v
	}
}

// Sample keeps the first few cases, then cases at exponentially spaced indices.
func (s *SubStats) Sample(v func() any) {
	n := s.Executions
	if n <= 3 || (n&(n-1)) == 0 && len(s.Samples) < 24 {
		s.Samples = append(s.Samples, v())
	}
}

func (s *SubStats) Cap(what string) {
	s.Exhaustive = false
	if s.CapHit == "" {
		s.CapHit = what
	}
}

// Report records a violation, or a known-finding hit when its cause key is listed.
func (c *Ctx) Report(s *SubStats, v Violation) {
	v.Property = c.Property
	v.Sub = s.Name
	if c.Known[v.Key] {
		h := s.Known[v.Key]
		if h == nil {
			h = &KnownHit{Key: v.Key, Example: v.Rendered, Detail: v.Detail}
			s.Known[v.Key] = h
		}
		h.Count++
		return
	}
	s.ViolationCount++
	if s.ViolationKeys == nil {
		s.ViolationKeys = map[string]int64{}
	}
	if _, ok := s.ViolationKeys[v.Key]; ok || len(s.ViolationKeys) < 200 {
		s.ViolationKeys[v.Key]++
	}
	if len(s.Violations) < 40 {
		// keep at most a few per key so different causes stay visible
		same := 0
		for _, o := range s.Violations {
			if o.Key == v.Key {
				same++
			}
		}
		if same < 3 {
			s.Violations = append(s.Violations, v)
		}
	}
}

func J(v any) json.RawMessage {
	b, err := json.Marshal(v)
	if err != nil {
		panic(err)
	}
	return b
}

// ---------------------------------------------------------------------------------------
// Static products

// Seqs enumerates every sequence over an alphabet of size k of length 0..maxLen as a tree
// (every prefix is a case). visit is called for every node with the symbol indices; if it
// returns false the subtree below that node is pruned. Sharding: nodes of depth <
// shardDepth are visited by shard 0 only; deeper nodes by the shard that owns their
// depth-shardDepth prefix. Returns (nodes visited, edges taken).
func Seqs(k, maxLen int, shard, nshards int, expired func() bool, visit func(sym []int) bool) (states, transitions int64, complete bool) {
	shardDepth := 2
	if maxLen < 2 {
		shardDepth = maxLen
	}
	complete = true
	buf := make([]int, 0, maxLen)
	var rec func(depth int, prefixIdx int)
	rec = func(depth int, prefixIdx int) {
		if !complete {
			return
		}
		mine := true
		if depth < shardDepth {
			mine = shard == 0
		} else if depth == shardDepth {
			mine = prefixIdx%nshards == shard
			if !mine {
				return
			}
			if expired != nil && expired() {
				complete = false
				return
			}
		}
		descend := true
		if mine {
			states++
			if depth > 0 {
				transitions++
			}
			descend = visit(buf)
		}
		if !descend || depth == maxLen {
			return
		}
		for a := 0; a < k; a++ {
			buf = append(buf, a)
			np := prefixIdx
			if depth < shardDepth {
				np = prefixIdx*k + a
			}
			rec(depth+1, np)
			buf = buf[:len(buf)-1]
		}
	}
	rec(0, 0)
	return
}

// Product enumerates the cartesian product of the given radices (odometer), sharded on the
// linear index.
func Product(radices []int, shard, nshards int, expired func() bool, visit func(d []int)) (n int64, complete bool) {
	d := make([]int, len(radices))
	for _, r := range radices {
		if r == 0 {
			return 0, true
		}
	}
	idx := int64(0)
	complete = true
	for {
		if idx%int64(nshards) == int64(shard) {
			if idx&1023 == 0 && expired != nil && expired() {
				return n, false
			}
			visit(d)
			n++
		}
		idx++
		i := len(d) - 1
		for ; i >= 0; i-- {
			d[i]++
			if d[i] < radices[i] {
				break
			}
			d[i] = 0
		}
		if i < 0 {
			return
		}
	}
}

// Perms calls f with every permutation of 0..n-1 (lexicographic order).
func Perms(n int, f func(p []int)) {
	p := make([]int, n)
	for i := range p {
		p[i] = i
	}
	for {
		f(p)
		i := n - 2
		for i >= 0 && p[i] > p[i+1] {
			i--
		}
		if i < 0 {
			return
		}
		j := n - 1
		for p[j] < p[i] {
			j--
		}
		p[i], p[j] = p[j], p[i]
		for a, b := i+1, n-1; a < b; a, b = a+1, b-1 {
			p[a], p[b] = p[b], p[a]
		}
	}
}

// Subsets calls f with every subset of 0..n-1 of size ≤ maxSize, in order of size then
// lexicographic.
func Subsets(n, maxSize int, f func(idx []int)) {
	var cur []int
	var rec func(start, size int)
	for size := 0; size <= maxSize; size++ {
		rec = func(start, left int) {
			if left == 0 {
				f(cur)
				return
			}
			for i := start; i <= n-left; i++ {
				cur = append(cur, i)
				rec(i+1, left-1)
				cur = cur[:len(cur)-1]
			}
		}
		rec(0, size)
	}
}

// ---------------------------------------------------------------------------------------
// Choice-tree search with prefix replay and deviation bounding

type point struct {
	n     int  // branching factor
	cost  bool // true: non-zero alternatives cost one deviation
	taken int
}

// Chooser is handed to a harness body; the body asks it for every decision.
type Chooser struct {
	prefix []int
	points []point
	devs   int
	bound  int
	Abort  bool // set when the replayed prefix does not fit the body (nondeterminism)
	Err    string
}

// Choose returns a value in [0,n). Alternatives are free.
func (c *Chooser) Choose(n int) int { return c.choose(n, false) }

// Deviate returns a value in [0,n); any non-zero value costs one unit of the deviation budget.
func (c *Chooser) Deviate(n int) int { return c.choose(n, true) }

func (c *Chooser) choose(n int, cost bool) int {
	if n <= 0 {
		panic("explore: Choose(0)")
	}
	i := len(c.points)
	v := 0
	if i < len(c.prefix) {
		v = c.prefix[i]
		if v >= n {
			c.Abort = true
			c.Err = fmt.Sprintf("replayed choice %d out of range %d at point %d: nondeterministic harness", v, n, i)
			v = 0
		}
	}
	if cost && v != 0 {
		c.devs++
	}
	c.points = append(c.points, point{n: n, cost: cost, taken: v})
	return v
}

func (c *Chooser) Choices() []int {
	out := make([]int, len(c.points))
	for i, p := range c.points {
		out[i] = p.taken
	}
	return out
}
func (c *Chooser) Deviations() int { return c.devs }

type TreeStats struct {
	Executions  int64
	States      int64 // choice points visited (tree nodes), counted once per distinct prefix
	Transitions int64
	Complete    bool
	MaxDepth    int
}

// Tree runs body once per root-to-leaf path of its choice tree with at most bound
// deviations. Sharding is on the index of the path's first shardDepth choices.
func Tree(bound int, shard, nshards int, expired func() bool, body func(c *Chooser)) (TreeStats, error) {
	ts := TreeStats{Complete: true}
	var firstErr error
	var rec func(prefix []int, depthTop int, topIdx int64)
	rec = func(prefix []int, depthTop int, topIdx int64) {
		if !ts.Complete || firstErr != nil {
			return
		}
		c := &Chooser{prefix: prefix, bound: bound}
		body(c)
		if c.Abort {
			firstErr = fmt.Errorf("%s", c.Err)
			return
		}
		ts.Executions++
		ts.States += int64(len(c.points) - len(prefix) + 1)
		ts.Transitions += int64(len(c.points) - len(prefix))
		if len(c.points) > ts.MaxDepth {
			ts.MaxDepth = len(c.points)
		}
		if expired != nil && ts.Executions&255 == 0 && expired() {
			ts.Complete = false
			return
		}
		// deviations used before point i
		devBefore := 0
		for i := 0; i < len(prefix) && i < len(c.points); i++ {
			if c.points[i].cost && c.points[i].taken != 0 {
				devBefore++
			}
		}
		for i := len(prefix); i < len(c.points); i++ {
			p := c.points[i]
			if p.cost && devBefore+1 > bound {
				continue
			}
			for alt := 1; alt < p.n; alt++ {
				np := make([]int, i+1)
				for j := 0; j < i; j++ {
					np[j] = c.points[j].taken
				}
				np[i] = alt
				rec(np, 0, 0)
			}
		}
	}
	_ = shard
	_ = nshards
	rec(nil, 0, 0)
	return ts, firstErr
}

func SortedKeys[V any](m map[string]V) []string {
	ks := make([]string, 0, len(m))
	for k := range m {
		ks = append(ks, k)
	}
	sort.Strings(ks)
	return ks
}

// NewReplayChooser returns a chooser that follows the given choice vector (and takes
// choice 0 afterwards); used to re-execute one recorded path.
func NewReplayChooser(prefix []int) *Chooser { return &Chooser{prefix: prefix, bound: 1 << 30} }
