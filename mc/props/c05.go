package props

import (
	"encoding/json"
	"fmt"
	"strings"
	"sync"
	"time"

	"github.com/vektah/gqlparser/v2/ast"
	"github.com/vektah/gqlparser/v2/parser"

	"verif/mc/explore"
	"verif/mc/gen"
	"verif/mc/ref/refgrammar"
)

// C05 / C06: the parsers accept exactly the grammar and build a faithful tree.
// Both checks share this file; they differ in grammar, alphabet and entry point.

func init() {
	register(&Prop{ID: "C05", Run: func(c *explore.Ctx) { runGram(c, execSide) }, Replay: gramReplay(execSide), Assumptions: gramAssumptions})
	register(&Prop{ID: "C06", Run: func(c *explore.Ctx) { runGram(c, sdlSide) }, Replay: gramReplay(sdlSide), Assumptions: gramAssumptions})
}

var gramAssumptions = []string{
	"the grammar is ref/refgrammar's transcription of the October-2021 grammar (executable: plus variable definitions on fragment definitions); it is validated on every run against the repository's parser corpora (query_test.yml / schema_test.yml) and by requiring its two independent consumers (bottom-up enumerator, all-paths recogniser) to agree on every short sequence",
	"token classes: one representative per punctuator, per keyword the grammar distinguishes, per literal kind; names that are not keywords are represented by `a`",
	"the empty document is not derivable (Definition+) but both parsers and every caller treat it as the empty document; it is counted as undecided",
	"trees are compared through canonical projections that omit positions and comments; `a` and `a: a` project identically (the AST does not distinguish them)",
}

type gramDefect struct {
	key     string
	grammar *refgrammar.Grammar
}

type gramSide struct {
	defects  []gramDefect
	id       string
	name     string
	grammar  func() *refgrammar.Grammar
	alpha    []gen.Tok
	core     []gen.Tok
	parse    func(text string) (proj string, err error)
	seqQuick int
	seqThor  int
	coreQ    int
	coreT    int
}

var execSide = &gramSide{id: "C05", name: "exec", grammar: refgrammar.Exec, alpha: gen.SigmaExec, core: gen.SigmaExecCore,
	parse: func(text string) (string, error) {
		d, err := parser.ParseQuery(&ast.Source{Input: text, Name: "f"})
		if err != nil {
			return "", err
		}
		return projExec(d), nil
	}, seqQuick: 4, seqThor: 5, coreQ: 5, coreT: 7}

var sdlSide = &gramSide{defects: []gramDefect{{"accept/enum-value-keyword", refgrammar.SDLWith(refgrammar.Defects{EnumValueAnyName: true})}}, id: "C06", name: "sdl", grammar: refgrammar.SDL, alpha: gen.SigmaSDL, core: gen.SigmaSDLCore,
	parse: func(text string) (string, error) {
		d, err := parser.ParseSchema(&ast.Source{Input: text, Name: "f"})
		if err != nil {
			return "", err
		}
		return projSDL(d), nil
	}, seqQuick: 4, seqThor: 5, coreQ: 5, coreT: 6}

type gramInput struct {
	Text string `json:"text"`
	// Base, when set, is the default rendering whose tree the text must reproduce.
	Base string `json:"base,omitempty"`
}

func gramReplay(side *gramSide) func(c *explore.Ctx, s *explore.SubStats, v explore.Violation) {
	return func(c *explore.Ctx, s *explore.SubStats, v explore.Violation) {
		var in gramInput
		if json.Unmarshal(v.Input, &in) != nil {
			return
		}
		if v.Sub == "call-histories" {
			var hi histInput
			if json.Unmarshal(v.Input, &hi) == nil && len(hi.Calls) > 0 {
				alone := map[parseCall]string{}
				for _, pc := range histAlphabet() {
					alone[pc] = pc.run()
				}
				histCase(c, s, alone, hi.Calls)
			}
			return
		}
		if v.Sub == "sources" {
			var si sourcesInput
			if json.Unmarshal(v.Input, &si) == nil && len(si.Sources) > 0 {
				sourcesCase(c, s, side, si)
				return
			}
		}
		gramCase(c, s, side, side.grammar(), in, nil, false)
	}
}

// gramCase: one source text. expect, when non-nil, is the verdict already known from the
// enumerated language (OK + tree); otherwise the all-paths recogniser decides.
func gramCase(c *explore.Ctx, s *explore.SubStats, side *gramSide, g *refgrammar.Grammar, in gramInput, expect *refgrammar.ParseResult, knownLexInvalid bool) {
	s.Executions++
	explore.Crumb(s.Name, in.Text)
	bad := func(key, detail, exp, obs string) {
		c.Report(s, explore.Violation{Key: key, Input: explore.J(in), Rendered: in.Text, Detail: detail, Expected: exp, Observed: obs})
	}
	var proj string
	var err error
	r := guarded(0, 0, func() { proj, err = side.parse(in.Text) })
	if r.Panicked {
		bad("panic site="+r.Site, r.PanicVal+"\n"+trimStack(r.Stack), "", "")
		return
	}
	var want refgrammar.ParseResult
	var toks []refgrammar.Tok
	lexedOK := false
	if expect != nil {
		want = *expect
	} else {
		var lexOK bool
		toks, lexOK = gramToks(in.Text)
		lexedOK = lexOK
		if !lexOK {
			if knownLexInvalid {
				want = refgrammar.ParseResult{}
			} else {
				// lexically invalid or undecided text: the lexer checks own this case
				s.Undecided++
				s.Outcome("lex-invalid")
				return
			}
		} else {
			want = g.Parse(toks)
			if want.Ambiguous != "" {
				panic("reference grammar ambiguous: " + want.Ambiguous)
			}
		}
	}
	if !want.OK && len(toks) == 0 && expect == nil && (lexedOK || strings.TrimSpace(strings.ReplaceAll(in.Text, ",", "")) == "") {
		// no token at all (ignored characters and comments only): the empty document
		s.Undecided++
		s.Outcome("empty-document")
		return
	}
	s.Validated++
	switch {
	case want.OK && err != nil:
		s.Outcome("false-reject")
		bad("reject/"+rejectClass(side, in.Text, err), fmt.Sprintf("the grammar derives this %s document but the parser rejects it: %v", side.name, err), want.Tree, "error: "+err.Error())
	case !want.OK && err == nil:
		s.Outcome("false-accept")
		if toks == nil {
			toks, _ = gramToks(in.Text)
		}
		// a recorded defect explains the case only if the grammar with exactly that defect
		// emulated derives exactly the tree the parser built
		for _, d := range side.defects {
			if r := d.grammar.Parse(toks); r.OK && r.Tree == proj {
				bad(d.key, "known defect emulated by the reference grammar reproduces the parser's tree", "reject", proj)
				return
			}
		}
		if len(toks) == 0 {
			// lexically invalid (no token sequence to explain the acceptance with)
			bad("accept/lexically-invalid-text", fmt.Sprintf("the text is no sequence of tokens of the lexical grammar but the %s parser accepts it", side.name), "reject", proj)
			return
		}
		bad("accept/"+acceptClass(side, g, toks, in.Text, proj), fmt.Sprintf("the grammar does not derive this %s document (viable prefix: %d tokens) but the parser accepts it", side.name, want.Furthest), "reject", proj)
	case want.OK:
		s.Outcome("accept")
		s.Nontrivial++
		if proj != want.Tree {
			bad("tree/"+treeClass(want.Tree, proj), "the parser's tree differs from the derivation tree", want.Tree, proj)
		}
	default:
		s.Outcome("reject")
	}
	s.Sample(func() any { return in })
}

// ---- cause keys (narrow classifiers; see DESIGN.md Appendix B) ---------------------------

func rejectClass(side *gramSide, text string, err error) string {
	return normMsg(err.Error())
}

func tokDesc(t refgrammar.Tok) string {
	switch {
	case t.Kind == "Name" && refgrammar.IsKeywordLike(t.Value):
		return t.Value
	case t.Kind == "Name":
		return "Name"
	case t.Kind == "String" && refgrammar.IsKeywordLike(t.Value):
		return "String(" + t.Value + ")"
	}
	return t.Kind
}

// acceptClass names the cause of a false accept by the smallest repair that explains the
// parser's tree: the single token substitution / deletion / insertion after which the
// reference grammar derives exactly the tree the parser built ("the parser took X for Y").
// When no single repair explains it, the key is the production context at the point where
// the recogniser loses every path.
func acceptClass(side *gramSide, g *refgrammar.Grammar, toks []refgrammar.Tok, text, implTree string) string {
	if toks == nil {
		toks, _ = gramToks(text)
	}
	cands := []refgrammar.Tok{{Kind: "Name", Value: "a"}, {Kind: "{"}, {Kind: "}"}, {Kind: "("}, {Kind: ")"}, {Kind: "]"}, {Kind: "Int", Value: "1"}}
	for kwd := range map[string]bool{"on": true, "query": true, "implements": true, "schema": true, "repeatable": true, "extend": true} {
		cands = append(cands, refgrammar.Tok{Kind: "Name", Value: kwd})
	}
	try := func(ts []refgrammar.Tok) bool {
		r := g.Parse(ts)
		return r.OK && r.Tree == implTree
	}
	ctx := func(i int) string {
		if i <= 0 {
			return "^"
		}
		return tokDesc(toks[i-1])
	}
	for i := range toks {
		// deletion
		if try(append(append([]refgrammar.Tok{}, toks[:i]...), toks[i+1:]...)) {
			return "ignored " + tokDesc(toks[i]) + " after " + ctx(i)
		}
	}
	for i := range toks {
		for _, cd := range cands {
			if cd == toks[i] {
				continue
			}
			m := append([]refgrammar.Tok{}, toks...)
			m[i] = cd
			if try(m) {
				return "took " + tokDesc(toks[i]) + " for " + tokDesc(cd) + " after " + ctx(i)
			}
		}
	}
	for i := 0; i <= len(toks); i++ {
		for _, cd := range cands {
			m := append(append(append([]refgrammar.Tok{}, toks[:i]...), cd), toks[i:]...)
			if try(m) {
				nxt := "$"
				if i < len(toks) {
					nxt = tokDesc(toks[i])
				}
				return "supplied missing " + tokDesc(cd) + " after " + ctx(i) + " before " + nxt
			}
		}
	}
	// no single repair: the shortest prefix that is not viable
	lo := 0
	for n := 1; n <= len(toks); n++ {
		if g.Parse(toks[:n]).Furthest < 0 {
			break
		}
		lo = n
	}
	_ = lo
	// context-free fallback: the kinds of the tokens that appear in a non-constant way
	var feats []string
	seen := map[string]bool{}
	for i, t := range toks {
		if t.Kind == "$" && i > 0 {
			f := "variable"
			if !seen[f] {
				seen[f] = true
				feats = append(feats, f)
			}
		}
	}
	return "unexplained " + strings.Join(feats, "+") + " first=" + tokDesc(toks[0])
}

func treeClass(want, got string) string {
	// first differing node tag
	n := 0
	for n < len(want) && n < len(got) && want[n] == got[n] {
		n++
	}
	st := strings.LastIndexAny(want[:n], "{[( ,")
	tag := want[st+1 : n]
	if j := strings.LastIndexByte(want[:n], '{'); j >= 0 {
		k := strings.LastIndexAny(want[:j], "{[( ,")
		tag = want[k+1:j] + "." + tag
	}
	if len(tag) > 40 {
		tag = tag[:40]
	}
	return tag
}

// ---- enumerated languages (computed once per process) -----------------------------------

type langKey struct {
	side     string
	alpha    string
	n        int
	restrict bool
}

var (
	langMu    sync.Mutex
	langCache = map[langKey][]refgrammar.Sentence{}
)

func language(side *gramSide, g *refgrammar.Grammar, which string, alpha []gen.Tok, n int, restrict bool) []refgrammar.Sentence {
	langMu.Lock()
	defer langMu.Unlock()
	k := langKey{side.id, which, n, restrict}
	if l, ok := langCache[k]; ok {
		return l
	}
	ga := newGramAlpha(alpha)
	// the grammar never sees comments or invalid tokens
	var toks []refgrammar.Tok
	var back []int
	for i, t := range ga.toks {
		if ga.ignorable[i] || ga.invalid[i] {
			continue
		}
		toks = append(toks, t)
		back = append(back, i)
	}
	ss := g.Enumerate(toks, n, restrict)
	for i := range ss {
		for j, cl := range ss[i].Classes {
			ss[i].Classes[j] = byte(back[cl])
		}
	}
	refgrammar.SortSentences(ss)
	langCache[k] = ss
	return ss
}

func renderClasses(alpha []gen.Tok, cls []byte, sep string) string {
	var b strings.Builder
	for i, x := range cls {
		if i > 0 {
			b.WriteString(sep)
		}
		b.WriteString(alpha[x].Text)
	}
	return b.String()
}

func runGram(c *explore.Ctx, side *gramSide) {
	g := side.grammar()
	gramSelfTest(c, side, g)

	// 1. every token sequence over the class alphabet: acceptance ⇔ membership, tree equality
	sweep := func(name, which string, alpha []gen.Tok, n int) {
		s := c.Sub(name, fmt.Sprintf("every token sequence of ≤ %d tokens over %d token classes of the %s grammar (single-space separated)", n, len(alpha), side.name),
			"parser accepts ⇔ the sequence is in the enumerated language of the reference grammar; when accepted, the projection of the parser's tree equals the derivation tree", "sequences in the language")
		if s == nil {
			return
		}
		t0 := time.Now()
		ga := newGramAlpha(alpha)
		lang := refgrammar.Index(language(side, g, which, alpha, n, false))
		s.Extra["language_size"] = float64(0)
		if c.Shard == 0 {
			s.Extra["language_size"] = float64(len(lang))
		}
		key := make([]byte, 0, n)
		st, tr, complete := explore.Seqs(len(alpha), n, c.Shard, c.NShards, c.Expired, func(sym []int) bool {
			key = key[:0]
			invalid := false
			for _, x := range sym {
				if ga.invalid[x] {
					invalid = true
				}
				if !ga.ignorable[x] {
					key = append(key, byte(x))
				}
			}
			text := gen.Render(alpha, sym)
			if len(key) == 0 {
				s.Executions++
				s.Undecided++
				s.Outcome("empty-document")
				return true
			}
			var want refgrammar.ParseResult
			if !invalid {
				if t, ok := lang[string(key)]; ok {
					want = refgrammar.ParseResult{OK: true, Tree: t}
				}
			}
			gramCase(c, s, side, g, gramInput{Text: text}, &want, invalid)
			return true
		})
		s.States += st
		s.Transitions += tr
		if !complete {
			s.Cap("deadline")
		}
		s.WallS = time.Since(t0).Seconds()
	}
	sweep("seq-full", "full", side.alpha, c.Pick(side.seqQuick, side.seqThor))
	sweep("seq-core", "core", side.core, c.Pick(side.coreQ, side.coreT))

	// 2. single-token mutations of valid sentences (edit-distance-1 neighbourhood)
	mut := func(name, which string, alpha []gen.Tok, n int, restrict bool) {
		what := "full-name grammar"
		if restrict {
			what = "grammar G¹ (keywords only in keyword positions)"
		}
		s := c.Sub(name, fmt.Sprintf("every sentence of ≤ %d tokens of the %s %s, with every bracket pair emptied / removed with its content and every single-token mutation: delete, duplicate, swap with neighbour, substitute by / insert each of %d classes", n, side.name, what, len(alpha)),
			"parser accepts ⇔ the all-paths reference recogniser derives the mutated token sequence; trees equal when accepted", "mutants in the language")
		if s == nil {
			return
		}
		t0 := time.Now()
		ga := newGramAlpha(alpha)
		ss := language(side, g, which, alpha, n, restrict)
		if c.Shard == 0 {
			s.Extra["base_sentences"] = float64(len(ss))
		}
		run := func(cls []byte) {
			for _, x := range cls {
				if ga.invalid[x] {
					gramCase(c, s, side, g, gramInput{Text: renderClasses(alpha, cls, " ")}, &refgrammar.ParseResult{}, true)
					return
				}
			}
			gramCase(c, s, side, g, gramInput{Text: renderClasses(alpha, cls, " ")}, nil, false)
		}
		for i, sent := range ss {
			if i%c.NShards != c.Shard {
				continue
			}
			if i&63 == 0 && c.Expired() {
				s.Cap("deadline")
				break
			}
			s.States++
			cls := sent.Classes
			buf := make([]byte, 0, len(cls)+1)
			for p := range cls {
				// delete
				buf = append(append(buf[:0], cls[:p]...), cls[p+1:]...)
				run(buf)
				// duplicate
				buf = append(append(append(buf[:0], cls[:p+1]...), cls[p]), cls[p+1:]...)
				run(buf)
				// swap
				if p+1 < len(cls) && cls[p] != cls[p+1] {
					buf = append(buf[:0], cls...)
					buf[p], buf[p+1] = buf[p+1], buf[p]
					run(buf)
				}
				// substitute
				for a := range alpha {
					if byte(a) == cls[p] || ga.ignorable[a] {
						continue
					}
					buf = append(buf[:0], cls...)
					buf[p] = byte(a)
					run(buf)
				}
				s.Transitions += int64(len(alpha)) + 2
			}
			// insert
			for p := 0; p <= len(cls); p++ {
				for a := range alpha {
					if ga.ignorable[a] {
						continue
					}
					buf = append(append(append(buf[:0], cls[:p]...), byte(a)), cls[p:]...)
					run(buf)
				}
				s.Transitions += int64(len(alpha))
			}
		}
		s.WallS = time.Since(t0).Seconds()
	}
	if side.id == "C05" {
		mut("mutate-full", "full", side.alpha, c.Pick(6, 7), false)
		mut("mutate-g1", "full", side.alpha, c.Pick(9, 12), true)
	} else {
		mut("mutate-full", "full", side.alpha, c.Pick(4, 5), false)
		mut("mutate-g1", "full", side.alpha, c.Pick(7, 9), true)
	}

	// 3. ignored tokens: every valid sentence under ≤ 2 non-default separators
	sepSub := func(name string, n int, maxDev int) {
		menu := gen.Separators
		s := c.Sub(name, fmt.Sprintf("every sentence of ≤ %d tokens of the %s grammar over the core alphabet rendered with ≤ %d non-default separators from a menu of %d (comma, LF, CR, CRLF, tab, BOM, comments, two spaces, nothing) at every combination of gaps (incl. before the first and after the last token)", n, side.name, maxDev, len(menu)),
			"parser accepts and builds the derivation tree whatever ignored tokens stand between the tokens (renderings whose tokens would fuse are skipped)", "every rendering")
		if s == nil {
			return
		}
		t0 := time.Now()
		ss := language(side, g, "core", side.core, n, false)
		alpha := side.core
		if c.Shard == 0 {
			s.Extra["base_sentences"] = float64(len(ss))
		}
		for i, sent := range ss {
			if i%c.NShards != c.Shard {
				continue
			}
			if i&15 == 0 && c.Expired() {
				s.Cap("deadline")
				break
			}
			s.States++
			toks := make([]string, len(sent.Classes))
			for j, x := range sent.Classes {
				toks[j] = alpha[x].Text
			}
			base := strings.Join(toks, " ")
			want := refgrammar.ParseResult{OK: true, Tree: sent.Tree}
			try := func(dev map[int]string) {
				text := renderGapsSep(toks, dev)
				// tokens must not fuse and separators must lex as ignored tokens only
				if !sameTokens(text, toks) {
					s.Skipped++
					return
				}
				s.Transitions++
				gramCase(c, s, side, g, gramInput{Text: text, Base: base}, &want, false)
			}
			gaps := len(toks) + 1
			for a := 0; a < gaps; a++ {
				for _, x := range menu {
					if x == " " {
						continue
					}
					try(map[int]string{a: x})
					if maxDev < 2 {
						continue
					}
					for b := a + 1; b < gaps; b++ {
						for _, y := range menu {
							if y == " " {
								continue
							}
							try(map[int]string{a: x, b: y})
						}
					}
				}
			}
		}
		s.WallS = time.Since(t0).Seconds()
	}
	if side.id == "C05" {
		sepSub("separators", c.Pick(5, 7), 2)
		mutProfiles(c, side, g, gen.ExecProfiles)
		sepProfiles(c, side, g, gen.ExecProfiles)
	} else {
		sepSub("separators", c.Pick(4, 5), 2)
		mutProfiles(c, side, g, gen.SDLProfiles)
		sepProfiles(c, side, g, gen.SDLProfiles)
		sourcesSub(c, side, g)
	}
	valuesSub(c, side, g)
	histSub(c)
	garbageSub(c, side, g)
	familiesAcceptSub(c, side, g)
	corpusSub(c, side, g)
}

// renderGapsSep: like renderGaps, but a deviation *replaces* the default single space
// (gap 0 and gap len(toks) have no default separator).
func renderGapsSep(toks []string, dev map[int]string) string {
	var b strings.Builder
	for i, t := range toks {
		if sep, ok := dev[i]; ok {
			b.WriteString(sep)
		} else if i > 0 {
			b.WriteByte(' ')
		}
		b.WriteString(t)
	}
	if sep, ok := dev[len(toks)]; ok {
		b.WriteString(sep)
	}
	return b.String()
}

func sameTokens(text string, toks []string) bool {
	got := tokenTextsNoComments(text)
	if len(got) != len(toks) {
		return false
	}
	for i := range got {
		if got[i] != toks[i] {
			return false
		}
	}
	return true
}

// gramSelfTest binds the grammar model to itself: the enumerator and the recogniser, two
// independent consumers of the same grammar data, must agree on every short sequence.
func gramSelfTest(c *explore.Ctx, side *gramSide, g *refgrammar.Grammar) {
	s := c.Sub("model-selftest", fmt.Sprintf("every token sequence of ≤ 3 tokens over the %d-class alphabet, plus every enumerated sentence of ≤ 6 (type-system: 4) tokens", len(side.alpha)),
		"bottom-up enumerator and all-paths recogniser of ref/refgrammar agree on membership and tree (model consistency; no repository code involved)", "sentences")
	if s == nil || c.Shard != 0 {
		return
	}
	ga := newGramAlpha(side.alpha)
	stN := 6
	if side.id == "C06" {
		stN = 4
	}
	lang := refgrammar.Index(language(side, g, "full", side.alpha, stN, false))
	explore.Seqs(len(side.alpha), 3, 0, 1, nil, func(sym []int) bool {
		var toks []refgrammar.Tok
		var key []byte
		for _, x := range sym {
			if ga.invalid[x] {
				return true
			}
			if ga.ignorable[x] {
				continue
			}
			toks = append(toks, ga.toks[x])
			key = append(key, byte(x))
		}
		s.Executions++
		s.States++
		s.Transitions++
		r := g.Parse(toks)
		t, in := lang[string(key)]
		if r.OK != in || (in && t != r.Tree) {
			panic(fmt.Sprintf("refgrammar self-test: enumerator and recogniser disagree on %q: enum=%v recog=%v", gen.Render(side.alpha, sym), in, r.OK))
		}
		return true
	})
	for k, t := range lang {
		var toks []refgrammar.Tok
		for _, x := range []byte(k) {
			toks = append(toks, ga.toks[x])
		}
		r := g.Parse(toks)
		s.Executions++
		if !r.OK || r.Tree != t || r.Ambiguous != "" {
			panic(fmt.Sprintf("refgrammar self-test: recogniser rejects or differs on enumerated sentence %q (%s)", renderClasses(side.alpha, []byte(k), " "), r.Ambiguous))
		}
		s.Nontrivial++
	}
	s.Validated = 0
	s.Outcome("agree")
}

// mutProfiles: every single-token mutation of long hand-written documents that contain
// every construct (constant contexts at depth, all definition kinds); decided by the
// all-paths recogniser.
func mutProfiles(c *explore.Ctx, side *gramSide, g *refgrammar.Grammar, docs []string) {
	alpha := side.alpha
	s := c.Sub("mutate-profiles", fmt.Sprintf("%d profile documents of the %s grammar containing every construct (up to ~250 tokens), with every single-token mutation: delete, duplicate, swap with neighbour, substitute by / insert each of %d classes", len(docs), side.name, len(alpha)),
		"parser accepts ⇔ the all-paths reference recogniser derives the mutated token sequence; trees equal when accepted", "mutants in the language")
	if s == nil {
		return
	}
	t0 := time.Now()
	ga := newGramAlpha(alpha)
	idx := 0
	run := func(toks []string) {
		idx++
		if idx%c.NShards != c.Shard {
			return
		}
		s.Transitions++
		gramCase(c, s, side, g, gramInput{Text: strings.Join(toks, " ")}, nil, false)
	}
	for _, doc := range docs {
		toks := tokenTextsNoComments(doc)
		s.States++
		run(toks)
		for p := 0; p <= len(toks); p++ {
			if c.Expired() {
				s.Cap("deadline")
				return
			}
			if p < len(toks) {
				if cl, ok := map[string]string{"(": ")", "{": "}", "[": "]"}[toks[p]]; ok {
					// the bracket pair emptied, and the bracketed group removed
					depth, q := 0, -1
					for k := p; k < len(toks); k++ {
						if toks[k] == toks[p] {
							depth++
						} else if toks[k] == cl {
							depth--
							if depth == 0 {
								q = k
								break
							}
						}
					}
					if q > p+1 {
						run(append(append([]string{}, toks[:p+1]...), toks[q:]...))
						run(append(append([]string{}, toks[:p]...), toks[q+1:]...))
					}
				}
				run(append(append([]string{}, toks[:p]...), toks[p+1:]...))
				run(append(append(append([]string{}, toks[:p+1]...), toks[p]), toks[p+1:]...))
				if p+1 < len(toks) {
					m := append([]string{}, toks...)
					m[p], m[p+1] = m[p+1], m[p]
					run(m)
				}
			}
			for a := range alpha {
				if ga.ignorable[a] || ga.invalid[a] {
					continue
				}
				if p < len(toks) && alpha[a].Text != toks[p] {
					m := append([]string{}, toks...)
					m[p] = alpha[a].Text
					run(m)
				}
				run(append(append(append([]string{}, toks[:p]...), alpha[a].Text), toks[p:]...))
			}
		}
	}
	s.WallS = time.Since(t0).Seconds()
}

// sepProfiles: the long profile documents under every single non-default separator at
// every gap, and every pair of separators at neighbouring gaps.
func sepProfiles(c *explore.Ctx, side *gramSide, g *refgrammar.Grammar, docs []string) {
	menu := gen.Separators
	s := c.Sub("separators-profiles", fmt.Sprintf("%d profile documents of the %s grammar containing every construct, with one non-default separator from a menu of %d at every gap, and every pair of separators at two neighbouring gaps", len(docs), side.name, len(menu)),
		"parser accepts and builds the derivation tree whatever ignored tokens stand between the tokens", "every rendering")
	if s == nil {
		return
	}
	t0 := time.Now()
	idx := 0
	for _, doc := range docs {
		toks := tokenTextsNoComments(doc)
		gt, ok := gramToks(strings.Join(toks, " "))
		if !ok {
			continue
		}
		want := g.Parse(gt)
		if !want.OK {
			panic("profile document is not in the reference language: " + doc)
		}
		s.States++
		base := strings.Join(toks, " ")
		try := func(dev map[int]string) {
			idx++
			if idx%c.NShards != c.Shard {
				return
			}
			text := renderGapsSep(toks, dev)
			if !sameTokens(text, toks) {
				s.Skipped++
				return
			}
			s.Transitions++
			gramCase(c, s, side, g, gramInput{Text: text, Base: base}, &want, false)
		}
		for a := 0; a <= len(toks); a++ {
			if c.Expired() {
				s.Cap("deadline")
				return
			}
			for _, x := range menu {
				if x == " " {
					continue
				}
				try(map[int]string{a: x})
				if a < len(toks) {
					for _, y := range menu {
						if y != " " {
							try(map[int]string{a: x, a + 1: y})
						}
					}
				}
			}
		}
	}
	s.WallS = time.Since(t0).Seconds()
}
