#!/usr/bin/env python3
"""Validate MANIFEST.json and every evidence file against the given schemas (run with python3-vt)."""
import json, sys, os, jsonschema
root = os.path.dirname(os.path.dirname(os.path.abspath(__file__)))
m = json.load(open(os.path.join(root, 'MANIFEST.json')))
jsonschema.validate(m, json.load(open('/root/.vp/MANIFEST.schema.json')))
es = json.load(open('/root/.vp/EVIDENCE.schema.json'))
bad = 0
for c in m['checks']:
    p = os.path.join(root, c['evidence_file'])
    try:
        jsonschema.validate(json.load(open(p)), es); print(c['property_id'], 'evidence ok')
    except Exception as e:
        bad += 1; print(c['property_id'], 'EVIDENCE INVALID:', str(e)[:200])
ids = {json.loads(l)['id'] for l in open(os.path.join(root, 'properties.jsonl'))}
claimed = {c['property_id'] for c in m['checks']}; na = {n['property_id'] for n in m.get('not_applicable', [])}
assert claimed | na == ids and not (claimed & na), (ids - claimed - na, claimed & na)
print('manifest ok; claimed', len(claimed), 'not_applicable', len(na)); sys.exit(1 if bad else 0)
