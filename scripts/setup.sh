#!/bin/bash
# One-time setup after a fresh restore: warm the build cache by building every harness flavour.
set -e
. "$(dirname "$0")/env.sh"
mkdir -p "$VERIF_ROOT/bin" "$VERIF_ROOT/.work" "$VERIF_ROOT/evidence" "$VERIF_ROOT/replays"
"$VERIF_ROOT/scripts/build.sh" inst
"$VERIF_ROOT/scripts/build.sh" plain
"$VERIF_ROOT/scripts/build.sh" race
echo setup ok
