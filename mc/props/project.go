package props

import (
	"strconv"
	"strings"

	"github.com/vektah/gqlparser/v2/ast"

	"verif/mc/gen"
	"verif/mc/ref/refgrammar"
	"verif/mc/ref/reflex"
)

// Canonical projections of the documents the real parsers build (own walkers over the
// exported fields; positions and comments ignored). The format is the one the tree
// constructors of ref/refgrammar produce, so the two can be compared as strings.

func qs(s string) string { return strconv.Quote(s) }

func projValue(v *ast.Value) string {
	if v == nil {
		return ""
	}
	switch v.Kind {
	case ast.Variable:
		return "var:" + v.Raw
	case ast.IntValue:
		return "int:" + v.Raw
	case ast.FloatValue:
		return "float:" + v.Raw
	case ast.StringValue:
		return "str:" + qs(v.Raw)
	case ast.BlockValue:
		return "block:" + qs(v.Raw)
	case ast.BooleanValue:
		return "bool:" + v.Raw
	case ast.NullValue:
		return "null"
	case ast.EnumValue:
		return "enum:" + v.Raw
	case ast.ListValue:
		var xs []string
		for _, c := range v.Children {
			if c == nil {
				xs = append(xs, "<nil>")
				continue
			}
			xs = append(xs, projValue(c.Value))
		}
		return "list[" + strings.Join(xs, ",") + "]"
	case ast.ObjectValue:
		var xs []string
		for _, c := range v.Children {
			if c == nil {
				xs = append(xs, "<nil>")
				continue
			}
			xs = append(xs, c.Name+":"+projValue(c.Value))
		}
		return "obj{" + strings.Join(xs, ",") + "}"
	}
	return "kind?" + strconv.Itoa(int(v.Kind)) + ":" + v.Raw
}

func projType(t *ast.Type) string {
	if t == nil {
		return "<niltype>"
	}
	s := t.NamedType
	if t.Elem != nil {
		s = "[" + projType(t.Elem) + "]"
		if t.NamedType != "" {
			s += "?named=" + t.NamedType
		}
	}
	if t.NonNull {
		s += "!"
	}
	return s
}

func projArgs(as ast.ArgumentList) string {
	var xs []string
	for _, a := range as {
		if a == nil {
			xs = append(xs, "<nil>")
			continue
		}
		xs = append(xs, "arg{"+a.Name+" "+projValue(a.Value)+"}")
	}
	return strings.Join(xs, ",")
}

func projDirs(ds ast.DirectiveList) string {
	var xs []string
	for _, d := range ds {
		if d == nil {
			xs = append(xs, "<nil>")
			continue
		}
		xs = append(xs, "dir{"+d.Name+" ["+projArgs(d.Arguments)+"]}")
	}
	return strings.Join(xs, ",")
}

func projVarDefs(vs ast.VariableDefinitionList) string {
	var xs []string
	for _, v := range vs {
		if v == nil {
			xs = append(xs, "<nil>")
			continue
		}
		xs = append(xs, "var{"+v.Variable+" "+projType(v.Type)+" default("+projValue(v.DefaultValue)+") dirs["+projDirs(v.Directives)+"]}")
	}
	return strings.Join(xs, ",")
}

func projSel(ss ast.SelectionSet) string {
	var xs []string
	for _, s := range ss {
		switch s := s.(type) {
		case *ast.Field:
			xs = append(xs, "field{"+s.Alias+" "+s.Name+" args["+projArgs(s.Arguments)+"] dirs["+projDirs(s.Directives)+"] sel["+projSel(s.SelectionSet)+"]}")
		case *ast.FragmentSpread:
			xs = append(xs, "spread{"+s.Name+" dirs["+projDirs(s.Directives)+"]}")
		case *ast.InlineFragment:
			xs = append(xs, "inline{"+qs(s.TypeCondition)+" dirs["+projDirs(s.Directives)+"] sel["+projSel(s.SelectionSet)+"]}")
		default:
			xs = append(xs, "<nil-selection>")
		}
	}
	return strings.Join(xs, ",")
}

func projExec(d *ast.QueryDocument) string {
	if d == nil {
		return "<nil>"
	}
	var ops, frags []string
	for _, o := range d.Operations {
		if o == nil {
			ops = append(ops, "<nil>")
			continue
		}
		ops = append(ops, "op{"+string(o.Operation)+" "+qs(o.Name)+" vars["+projVarDefs(o.VariableDefinitions)+"] dirs["+projDirs(o.Directives)+"] sel["+projSel(o.SelectionSet)+"]}")
	}
	for _, f := range d.Fragments {
		if f == nil {
			frags = append(frags, "<nil>")
			continue
		}
		frags = append(frags, "frag{"+f.Name+" vars["+projVarDefs(f.VariableDefinition)+"] on "+f.TypeCondition+" dirs["+projDirs(f.Directives)+"] sel["+projSel(f.SelectionSet)+"]}")
	}
	return "doc{ops[" + strings.Join(ops, ",") + "] frags[" + strings.Join(frags, ",") + "]}"
}

func projArgDefs(as ast.ArgumentDefinitionList) string {
	var xs []string
	for _, a := range as {
		if a == nil {
			xs = append(xs, "<nil>")
			continue
		}
		xs = append(xs, "argdef{"+qs(a.Description)+" "+a.Name+" "+projType(a.Type)+" default("+projValue(a.DefaultValue)+") dirs["+projDirs(a.Directives)+"]}")
	}
	return strings.Join(xs, ",")
}

func projFieldDefs(fs ast.FieldList) string {
	var xs []string
	for _, f := range fs {
		if f == nil {
			xs = append(xs, "<nil>")
			continue
		}
		xs = append(xs, "fielddef{"+qs(f.Description)+" "+f.Name+" args["+projArgDefs(f.Arguments)+"] "+projType(f.Type)+" default("+projValue(f.DefaultValue)+") dirs["+projDirs(f.Directives)+"]}")
	}
	return strings.Join(xs, ",")
}

func projDef(tag string, d *ast.Definition, withDesc bool) string {
	if d == nil {
		return "<nil>"
	}
	var vals []string
	for _, v := range d.EnumValues {
		if v == nil {
			vals = append(vals, "<nil>")
			continue
		}
		desc := v.Description
		if !withDesc {
			desc = ""
		}
		vals = append(vals, "enumval{"+qs(desc)+" "+v.Name+" dirs["+projDirs(v.Directives)+"]}")
	}
	desc := d.Description
	if !withDesc {
		desc = ""
	}
	return tag + "{" + string(d.Kind) + " " + qs(desc) + " " + d.Name + " ifaces[" + strings.Join(d.Interfaces, ",") + "] dirs[" + projDirs(d.Directives) +
		"] fields[" + projFieldDefs(d.Fields) + "] types[" + strings.Join(d.Types, ",") + "] values[" + strings.Join(vals, ",") + "]}"
}

func projSchemaDef(tag string, s *ast.SchemaDefinition) string {
	if s == nil {
		return "<nil>"
	}
	var ops []string
	for _, o := range s.OperationTypes {
		if o == nil {
			ops = append(ops, "<nil>")
			continue
		}
		ops = append(ops, string(o.Operation)+":"+o.Type)
	}
	return tag + "{" + qs(s.Description) + " dirs[" + projDirs(s.Directives) + "] ops[" + strings.Join(ops, ",") + "]}"
}

func projSDL(d *ast.SchemaDocument) string {
	if d == nil {
		return "<nil>"
	}
	var a, b, c, e, f []string
	for _, s := range d.Schema {
		a = append(a, projSchemaDef("schema", s))
	}
	for _, s := range d.SchemaExtension {
		b = append(b, projSchemaDef("schemaext", s))
	}
	for _, x := range d.Directives {
		if x == nil {
			c = append(c, "<nil>")
			continue
		}
		var locs []string
		for _, l := range x.Locations {
			locs = append(locs, string(l))
		}
		c = append(c, "dirdef{"+qs(x.Description)+" "+x.Name+" args["+projArgDefs(x.Arguments)+"] repeatable="+strconv.FormatBool(x.IsRepeatable)+" on["+strings.Join(locs, ",")+"]}")
	}
	for _, x := range d.Definitions {
		e = append(e, projDef("def", x, true))
	}
	for _, x := range d.Extensions {
		f = append(f, projDef("ext", x, true))
	}
	return "sdoc{schema[" + strings.Join(a, ",") + "] schemaext[" + strings.Join(b, ",") + "] directives[" + strings.Join(c, ",") +
		"] defs[" + strings.Join(e, ",") + "] exts[" + strings.Join(f, ",") + "]}"
}

// ---- alphabets as grammar tokens --------------------------------------------------------

// gramAlpha converts a token-class alphabet into grammar tokens; ignorable[i] is true for
// classes the grammar never sees (comments), invalid[i] for classes that are no token.
type gramAlpha struct {
	toks      []refgrammar.Tok
	ignorable []bool
	invalid   []bool
	src       []gen.Tok
}

func newGramAlpha(alpha []gen.Tok) *gramAlpha {
	ga := &gramAlpha{src: alpha}
	for _, a := range alpha {
		r := reflex.Lex(a.Text, reflex.Defects{})
		switch {
		case a.Kind == "Comment":
			ga.toks = append(ga.toks, refgrammar.Tok{Kind: "Comment"})
			ga.ignorable = append(ga.ignorable, true)
			ga.invalid = append(ga.invalid, false)
		case r.FailAt >= 0 || len(r.Tokens) != 1:
			ga.toks = append(ga.toks, refgrammar.Tok{Kind: "Invalid"})
			ga.ignorable = append(ga.ignorable, false)
			ga.invalid = append(ga.invalid, true)
		default:
			ga.toks = append(ga.toks, refgrammar.Tok{Kind: r.Tokens[0].Kind, Value: r.Tokens[0].Value})
			ga.ignorable = append(ga.ignorable, false)
			ga.invalid = append(ga.invalid, false)
		}
	}
	return ga
}

// gramToks lexes a source text with the reference lexer into grammar tokens (comments
// dropped). ok is false when the text is not lexically valid (or undecided).
func gramToks(text string) (toks []refgrammar.Tok, ok bool) {
	r := reflex.Lex(text, reflex.Defects{})
	if r.FailAt >= 0 || r.Undecided {
		return nil, false
	}
	for _, t := range r.Tokens {
		if t.Kind == "Comment" {
			continue
		}
		toks = append(toks, refgrammar.Tok{Kind: t.Kind, Value: t.Value})
	}
	return toks, true
}
