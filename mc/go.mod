module verif/mc

go 1.22.0

toolchain go1.23.5

require (
	github.com/vektah/gqlparser/v2 v2.0.0-00010101000000-000000000000
	golang.org/x/tools v0.29.0
	gopkg.in/yaml.v3 v3.0.1
)

require (
	github.com/agnivade/levenshtein v1.2.1 // indirect
	golang.org/x/mod v0.22.0 // indirect
	golang.org/x/sync v0.10.0 // indirect
)

replace github.com/vektah/gqlparser/v2 => /repo
