package props

import (
	"encoding/json"
	"fmt"
	"regexp"
	"sort"
	"strings"
	"time"

	"github.com/vektah/gqlparser/v2/ast"
	"github.com/vektah/gqlparser/v2/gqlerror"
	"github.com/vektah/gqlparser/v2/parser"
	"github.com/vektah/gqlparser/v2/validator"
	"github.com/vektah/gqlparser/v2/validator/rules"

	"verif/mc/explore"
)

// C18: rule sets compose: a rule reports the same errors alone or with other rules.

func init() {
	register(&Prop{ID: "C18", Run: runC18, Replay: func(c *explore.Ctx, s *explore.SubStats, v explore.Violation) {
		if v.Sub == "registry" {
			var in regInput
			if json.Unmarshal(v.Input, &in) == nil {
				regCase(c, s, in.Ops)
			}
			return
		}
		var in kitDoc
		if json.Unmarshal(v.Input, &in) == nil {
			c18Doc(c, s, in, true)
		}
	}, Assumptions: []string{
		"the exported rules are the 27 standard rules of validator/rules in registration order and the 4 'WithoutSuggestions' variants; every Validate call gets a freshly parsed document",
		"errors are compared as multisets of (rule name, message, locations); for a variant, the standard rule's messages with a trailing ' Did you mean …?' removed and the rule name replaced by the variant's",
	}})
}

var c18Standard = []validator.Rule{
	rules.FieldsOnCorrectTypeRule, rules.FragmentsOnCompositeTypesRule, rules.KnownArgumentNamesRule, rules.KnownDirectivesRule, rules.KnownFragmentNamesRule,
	rules.KnownRootTypeRule, rules.KnownTypeNamesRule, rules.LoneAnonymousOperationRule, rules.MaxIntrospectionDepth, rules.NoFragmentCyclesRule, rules.NoUndefinedVariablesRule,
	rules.NoUnusedFragmentsRule, rules.NoUnusedVariablesRule, rules.OverlappingFieldsCanBeMergedRule, rules.PossibleFragmentSpreadsRule, rules.ProvidedRequiredArgumentsRule,
	rules.ScalarLeafsRule, rules.SingleFieldSubscriptionsRule, rules.UniqueArgumentNamesRule, rules.UniqueDirectivesPerLocationRule, rules.UniqueFragmentNamesRule,
	rules.UniqueInputFieldNamesRule, rules.UniqueOperationNamesRule, rules.UniqueVariableNamesRule, rules.ValuesOfCorrectTypeRule, rules.VariablesAreInputTypesRule,
	rules.VariablesInAllowedPositionRule,
}

var c18Variants = []struct{ variant, standard validator.Rule }{
	{rules.FieldsOnCorrectTypeRuleWithoutSuggestions, rules.FieldsOnCorrectTypeRule},
	{rules.KnownArgumentNamesRuleWithoutSuggestions, rules.KnownArgumentNamesRule},
	{rules.KnownTypeNamesRuleWithoutSuggestions, rules.KnownTypeNamesRule},
	{rules.ValuesOfCorrectTypeRuleWithoutSuggestions, rules.ValuesOfCorrectTypeRule},
}

type errItem struct{ Rule, Msg, Loc string }

func errItems(errs gqlerror.List) []errItem {
	var out []errItem
	for _, e := range errs {
		out = append(out, errItem{e.Rule, e.Message, fmt.Sprint(e.Locations)})
	}
	return out
}

func multiset(items []errItem) string {
	var xs []string
	for _, i := range items {
		xs = append(xs, i.Rule+" | "+i.Msg+" | "+i.Loc)
	}
	sort.Strings(xs)
	return strings.Join(xs, "\n")
}

var didYouMeanRe = regexp.MustCompile(` Did you mean .*\?$`)

func c18Doc(c *explore.Ctx, s *explore.SubStats, d kitDoc, thorough bool) {
	explore.Crumb(s.Name, d.Doc)
	schema := kitSchema(d.Schema)
	if _, err := parser.ParseQuery(&ast.Source{Name: "q.graphql", Input: d.Doc}); err != nil {
		s.Skipped++
		return
	}
	s.Executions++
	bad := func(key, detail, exp, obs string) {
		c.Report(s, explore.Violation{Key: key, Input: explore.J(d), Rendered: d.Doc, Detail: detail, Expected: exp, Observed: obs})
	}
	panicked := false
	run := func(rs ...validator.Rule) []errItem {
		doc, _ := parser.ParseQuery(&ast.Source{Name: "q.graphql", Input: d.Doc})
		var errs gqlerror.List
		r := guarded(c02DocBudget, 5000, func() { errs = validator.Validate(schema, doc, rs...) })
		s.Transitions++
		if r.Panicked {
			panicked = true
			return []errItem{{"panic", r.PanicVal, r.Site}}
		}
		return errItems(errs)
	}
	def := run()
	full := run(c18Standard...)
	s.Validated++
	if len(def) == 0 {
		s.Outcome("valid")
	} else {
		s.Nontrivial++
		s.Outcome("invalid")
	}
	if multiset(def) != multiset(full) {
		bad("compose/default-vs-explicit "+c18FirstRule(def, full), "the default rule set reports other errors than the explicit list of all standard rules", multiset(full), multiset(def))
	}
	// singletons
	var union []errItem
	for _, r := range c18Standard {
		alone := run(r)
		for _, e := range alone {
			if e.Rule != r.Name {
				bad("compose/wrong-tag rule="+r.Name+" tagged="+e.Rule, fmt.Sprintf("rule %s run alone reports an error tagged %q: %s", r.Name, e.Rule, e.Msg), r.Name, e.Rule)
			}
		}
		union = append(union, alone...)
		// the rule's errors inside the full set
		var inFull []errItem
		for _, e := range full {
			if e.Rule == r.Name {
				inFull = append(inFull, e)
			}
		}
		if multiset(alone) != multiset(inFull) {
			bad("compose/alone-vs-in-set rule="+r.Name, fmt.Sprintf("rule %s reports different errors alone than within the full set", r.Name), multiset(inFull), multiset(alone))
		}
	}
	if multiset(union) != multiset(full) && !panicked {
		bad("compose/union "+c18FirstRule(union, full), "the errors of the full set are not the union of the errors of its members", multiset(union), multiset(full))
	}
	// the empty rule list reports nothing (it is the union of no rules, not the default set)
	if got := run([]validator.Rule{}...); len(got) > 0 && !panicked {
		bad("compose/empty-list rule="+got[0].Rule, "validating with an explicit empty rule list reports errors", "", multiset(got))
	}
	// rules that share a name (two of the caller's own rules left unnamed, or named alike, or named like a standard
	// rule next to it): a list is a list, every member runs and its errors carry the name it was given
	{
		mk := func(name, tag string) validator.Rule {
			return validator.Rule{Name: name, RuleFunc: func(observers *validator.Events, addError validator.AddErrFunc) {
				observers.OnOperation(func(walker *validator.Walker, op *ast.OperationDefinition) {
					addError(validator.Message("%s saw an operation", tag), validator.At(op.Position))
				})
			}}
		}
		for _, names := range [][2]string{{"", ""}, {"Mine", "Mine"}, {"ScalarLeafs", "ScalarLeafs"}} {
			a, b := mk(names[0], "first"), mk(names[1], "second")
			got := run(a, rules.ScalarLeafsRule, b)
			want := append(append(run(a), run(rules.ScalarLeafsRule)...), run(b)...)
			if multiset(got) != multiset(want) && !panicked {
				bad(fmt.Sprintf("compose/same-name name=%q", names[0]), fmt.Sprintf("two rules of the caller named %q and %q around ScalarLeafs: the list does not report the union of what its members report alone", names[0], names[1]), multiset(want), multiset(got))
			}
		}
	}
	// reverse order
	rev := make([]validator.Rule, len(c18Standard))
	for i, r := range c18Standard {
		rev[len(rev)-1-i] = r
	}
	if got := run(rev...); multiset(got) != multiset(full) {
		bad("compose/order "+c18FirstRule(got, full), "the explicit list in reverse order reports other errors", multiset(full), multiset(got))
	}
	// variants
	for _, v := range c18Variants {
		std := run(v.standard)
		va := run(v.variant)
		var want []errItem
		for _, e := range std {
			want = append(want, errItem{v.variant.Name, didYouMeanRe.ReplaceAllString(e.Msg, ""), e.Loc})
		}
		if multiset(want) != multiset(va) {
			bad("compose/variant rule="+v.variant.Name, fmt.Sprintf("%s does not report the errors of %s with the 'Did you mean' suffix removed", v.variant.Name, v.standard.Name), multiset(want), multiset(va))
		}
		for _, e := range va {
			if strings.Contains(e.Msg, "Did you mean") {
				bad("compose/variant-suggests rule="+v.variant.Name, "a without-suggestions variant produced a suggestion: "+e.Msg, "", "")
			}
		}
	}
	if thorough && len(full) > 0 {
		// pairs and leave-one-out, over the rules that report something or observe values
		idx := map[string]int{}
		for i, r := range c18Standard {
			idx[r.Name] = i
		}
		byRule := map[string][]errItem{}
		for _, e := range full {
			byRule[e.Rule] = append(byRule[e.Rule], e)
		}
		for i, a := range c18Standard {
			for j := i + 1; j < len(c18Standard); j++ {
				b := c18Standard[j]
				if len(byRule[a.Name])+len(byRule[b.Name]) == 0 && (i+j)%5 != 0 {
					continue // silent pairs: every fifth one only
				}
				got := run(a, b)
				want := append(append([]errItem{}, byRule[a.Name]...), byRule[b.Name]...)
				if multiset(got) != multiset(want) {
					bad("compose/pair "+a.Name+" with "+b.Name, "a pair of rules reports other errors than its members do in the full set", multiset(want), multiset(got))
				}
			}
			// leave one out
			var rest []validator.Rule
			var want []errItem
			for j, b := range c18Standard {
				if j != i {
					rest = append(rest, b)
					want = append(want, byRule[b.Name]...)
				}
			}
			if got := run(rest...); multiset(got) != multiset(want) {
				bad("compose/leave-one-out without="+a.Name, "removing one rule changes what the other rules report", multiset(want), multiset(got))
			}
		}
	}
	s.Sample(func() any { return d })
}

func c18FirstRule(a, b []errItem) string {
	ma, mb := map[string]int{}, map[string]int{}
	for _, e := range a {
		ma[e.Rule+"|"+e.Msg+"|"+e.Loc]++
	}
	for _, e := range b {
		mb[e.Rule+"|"+e.Msg+"|"+e.Loc]++
	}
	var rs []string
	for k, n := range ma {
		if mb[k] != n {
			rs = append(rs, strings.SplitN(k, "|", 2)[0])
		}
	}
	for k, n := range mb {
		if ma[k] != n {
			rs = append(rs, strings.SplitN(k, "|", 2)[0])
		}
	}
	sort.Strings(rs)
	if len(rs) == 0 {
		return "rule=?"
	}
	return "rule=" + rs[0]
}

func runC18(c *explore.Ctx) {
	s := c.Sub("profiles", fmt.Sprintf("every document of the validation-kit profiles (%d) × rule sets: default, explicit full list, reverse order, each of the 27 standard rules alone, each of the 4 without-suggestions variants; thorough: every pair of rules and every leave-one-out set on documents with errors", profileDocCount()),
		"multiset(errors(set)) = ⨄ multiset(errors({r})) with every error tagged by its rule; default = explicit full list; variant = standard rule minus the ' Did you mean …?' suffix", "documents with at least one error")
	if s != nil {
		t0 := time.Now()
		forEachProfileDoc(c, s, "", func(d kitDoc) { c18Doc(c, s, d, c.Thorough()) })
		s.WallS = time.Since(t0).Seconds()
	}
	n := c.Pick(5, 9)
	s = c.Sub("type-blind", fmt.Sprintf("every type-blind document of ≤ %d tokens × the same rule sets", n), "as above", "documents with at least one error")
	if s != nil {
		t0 := time.Now()
		forEachBlindDoc(c, s, n, func(d kitDoc) { c18Doc(c, s, d, false) })
		s.WallS = time.Since(t0).Seconds()
	}
	registrySub(c)
	// documents with many errors: what one rule reports must not depend on how much the others report
	s = c.Sub("cross-parent-literals", fmt.Sprintf("%d documents against schema S3 (two interfaces that declare one field name with one argument name at Float / Int, ID / String and input objects of Float / Int fields) in which one literal is given to both — × the same rule sets, pairs and leave-one-out included", len(c18CrossDocs)),
		"as above", "documents with at least one error")
	if s != nil {
		t0 := time.Now()
		for i, d := range c18CrossDocs {
			if i%c.NShards != c.Shard {
				continue
			}
			s.States++
			c18Doc(c, s, kitDoc{Schema: 2, Profile: "cross-parent-literals", Doc: d}, true)
		}
		s.WallS = time.Since(t0).Seconds()
	}
	s = c.Sub("large", "documents of 30, 60, 120 and 250 selections with two or three errors each (unknown argument, missing required argument, wrong value, unknown field, misplaced directive) × the same rule sets (with pairs and leave-one-out)", "as above", "every document")
	if s != nil && c.Shard == 0 {
		t0 := time.Now()
		for _, d := range c18LargeDocs() {
			s.States++
			c18Doc(c, s, kitDoc{Schema: 0, Doc: d}, true)
		}
		s.WallS = time.Since(t0).Seconds()
	}
}

// c18LargeDocs: documents whose error lists run into the hundreds.
// c18CrossDocs (schema S3): one literal given to two fields that answer under one name on parents that may apply
// together and declare the argument at different types — what one rule makes of the literal must not reach another
var c18CrossDocs = []string{
	`{ any { ... on Priced { cost(x: 1) } ... on Billed { cost(x: 1) } } }`,
	`{ any { ... on Billed { cost(x: 1) } ... on Priced { cost(x: 1) } } }`,
	`{ any { ... on Priced { cost(f: {v: 1, w: [1, 2]}) } ... on Billed { cost(f: {v: 1, w: [1, 2]}) } } }`,
	`{ any { ... on Priced { cost(f: {w: 1}) } ... on Billed { cost(f: {w: 1}) } } }`,
	`{ any { ... on Priced { label(s: 1) } ... on Billed { label(s: 1) } } }`,
	`{ any { ... on Priced { label(s: "1") } ... on Billed { label(s: "1") } } }`,
	`{ any { ...P ...B } } fragment P on Priced { c: cost(x: 2) } fragment B on Billed { c: cost(x: 2) }`,
	`query ($v: Int = 1) { any { ... on Priced { cost(x: $v) } ... on Billed { cost(x: $v) } } }`,
	`{ any { ... on Priced { cost(x: 1.0) } ... on Billed { cost(x: 1) } } }`,
	`{ thing { cost(x: 1) ... on Priced { cost(x: 1) } } }`,
	// one field name with other argument sets on two types, the same arguments given to both (in either order)
	`{ thing { items(first: 1, after: "x") } bill { items(first: 1, after: "x") } }`,
	`{ bill { items(first: 1, after: "x") } thing { items(first: 1, after: "x") } }`,
	`{ bill { items(last: 1) } thing { items(last: 1) } any { ... on Thing { items(last: 2) } ... on Bill { i: items(last: 2, after: "y") } } }`,
}

func c18LargeDocs() []string {
	var out []string
	for _, n := range []int{30, 60, 120, 250} {
		var a, b strings.Builder
		a.WriteString("query Q {")
		b.WriteString("query Q($u: Int) {")
		for i := 0; i < n; i++ {
			fmt.Fprintf(&a, " a%d: req(aa: %d)", i, i)
			fmt.Fprintf(&b, " b%d: pet(kind: %d) { nope%d id { x } } c%d: id @nope @once @once", i, i, i, i)
		}
		a.WriteString(" }")
		b.WriteString(" }")
		out = append(out, a.String(), b.String())
	}
	return out
}
