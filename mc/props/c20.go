package props

import (
	"encoding/json"
	"fmt"
	"math"
	"reflect"
	"strings"
	"time"

	gqlparser "github.com/vektah/gqlparser/v2"
	"github.com/vektah/gqlparser/v2/ast"
	"github.com/vektah/gqlparser/v2/gqlerror"
	"github.com/vektah/gqlparser/v2/parser"
	"github.com/vektah/gqlparser/v2/validator"

	"verif/mc/explore"
	"verif/mc/gen"
	"verif/mc/ref/refcoerce"
)

// C20: errors are well-formed: message, rule, location, file, spec-shaped JSON, path.

func init() {
	register(&Prop{ID: "C20", Run: runC20, Replay: func(c *explore.Ctx, s *explore.SubStats, v explore.Violation) {
		var in c20Input
		if json.Unmarshal(v.Input, &in) == nil {
			c20Replay(c, s, in)
		}
	}, Assumptions: []string{
		"a monitor is attached to every error produced while the entry points run over the enumerated inputs: lexing and both parsers with and without limits (named and unnamed source), schema loading from two named sources, validation under the default rules (named query source), variable coercion; distinct message templates reached are counted in the evidence",
		"JSON shape required: an object with `message` (non-empty string) and, if present, `locations` (non-empty list of objects with positive integer `line` and `column`), `path` (strings and non-negative integers), `extensions` (object); decoding it back into the error type gives the same message, locations and path",
		"'errors from a named source carry that file name': parse, load and validation errors built from a source whose Name is non-empty must have extensions.file equal to the name of one of the sources given; coercion errors have no source and carry a path instead",
	}})
}

type c20Input struct {
	Entry   string   `json:"entry"`
	Sources []string `json:"sources,omitempty"`
	Names   []string `json:"names,omitempty"`
	Query   string   `json:"query,omitempty"`
	Limit   int      `json:"limit,omitempty"`
	Path    []any    `json:"path,omitempty"`
	Schema  int      `json:"schema,omitempty"`
	BuiltIn []bool   `json:"builtin,omitempty"` // per source: marked as a built-in source
}

var knownRules = func() map[string]bool {
	m := map[string]bool{}
	for _, r := range c18Standard {
		m[r.Name] = true
	}
	for _, v := range c18Variants {
		m[v.variant.Name] = true
	}
	return m
}()

// c20Awkward: documents whose errors sit on the line on which a multi-line, non-ASCII
// block string ends (positions there are computed from both byte and character cursors).
var c20Awkward = []string{
	"{ search(q: \"\"\"\n日本語の説明文です\n\"\"\") { nope } }",
	"{ search(q: \"\"\"\r\né😀é\r\n  é\"\"\", n: \"x\") { nope } nope2 }",
	"query Q($v: Nope = \"\"\"\nääääääääää\n\"\"\" @nope) { id @nope(a: \"\"\"\nöö\nöööööö\"\"\") zz }",
	"{ id # é😀 comment\n nope(x: \"é\\u00e9\") } # ééé\n",
}

type errMonitor struct {
	c         *explore.Ctx
	s         *explore.SubStats
	templates map[string]bool
}

// check evaluates the well-formedness oracle on one error (or list).
func (m *errMonitor) check(in c20Input, err error, entry string, validation bool, names []string) {
	if err == nil {
		return
	}
	rendered := entry + ": " + strings.Join(in.Sources, "\n---\n") + in.Query
	bad := func(key, detail string) {
		m.c.Report(m.s, explore.Violation{Key: key, Input: explore.J(in), Rendered: rendered, Detail: detail})
	}
	var list gqlerror.List
	switch e := err.(type) {
	case *gqlerror.Error:
		if e == nil {
			// a non-nil error value that holds a nil *gqlerror.Error: callers see a failure whose Error() is empty
			bad("error/hollow-nil-pointer entry="+entry, entry+" returned a non-nil error holding a nil *gqlerror.Error (no message, encodes as null)")
			return
		}
		list = gqlerror.List{e}
	case gqlerror.List:
		list = e
	default:
		bad("error/not-a-graphql-error entry="+entry+" template="+c20Template(err.Error()), fmt.Sprintf("%s returned a %T (%q): it has no location, no file and no JSON shape", entry, err, err.Error()))
		return
	}
	named := false
	for _, n := range names {
		if n != "" {
			named = true
		}
	}
	for _, e := range list {
		m.s.Transitions++
		if e == nil {
			bad("error/nil-in-list entry="+entry, "nil error in the list")
			continue
		}
		tmpl := c20Template(e.Message)
		if !m.templates[entry+": "+tmpl] {
			m.templates[entry+": "+tmpl] = true
		}
		if strings.TrimSpace(e.Message) == "" {
			bad("error/empty-message entry="+entry+" rule="+e.Rule, "error with an empty message")
		}
		if validation {
			if e.Rule == "" {
				bad("error/no-rule template="+tmpl, "validation error without a rule name: "+e.Message)
			} else if !knownRules[e.Rule] {
				bad("error/unknown-rule rule="+e.Rule, "validation error names a rule that is not in the rule set: "+e.Rule)
			}
			if len(e.Locations) == 0 {
				bad("error/no-location rule="+e.Rule+" template="+tmpl, "validation error without a location: "+e.Message)
			}
		}
		for _, l := range e.Locations {
			if l.Line < 1 || l.Column < 1 {
				bad("error/nonpositive-location entry="+entry+" template="+tmpl, fmt.Sprintf("location %d:%d of %q", l.Line, l.Column, e.Message))
			}
		}
		if named && entry != "coerce" {
			f, _ := e.Extensions["file"].(string)
			ok := false
			for _, n := range append(names, "prelude.graphql") {
				if n != "" && n == f {
					ok = true
				}
			}
			if !ok {
				bad("error/no-file entry="+entry+" template="+tmpl, fmt.Sprintf("error from named source(s) %v carries file %q: %s", names, f, e.Message))
			}
		}
		m.jsonShape(e, bad, entry, tmpl)
	}
	if len(list) > 1 {
		if b, jerr := json.Marshal(list); jerr != nil {
			bad("error/json-marshal-list entry="+entry, jerr.Error())
		} else {
			var arr []map[string]any
			if jerr := json.Unmarshal(b, &arr); jerr != nil || len(arr) != len(list) {
				bad("error/json-list-shape entry="+entry, "the error list does not encode as an array of objects")
			}
		}
	}
}

func (m *errMonitor) jsonShape(e *gqlerror.Error, bad func(key, detail string), entry, tmpl string) {
	b, err := json.Marshal(e)
	if err != nil {
		bad("error/json-marshal entry="+entry+" template="+tmpl, err.Error())
		return
	}
	var obj map[string]any
	if err := json.Unmarshal(b, &obj); err != nil {
		bad("error/json-not-object entry="+entry+" template="+tmpl, string(b))
		return
	}
	where := "entry=" + entry + " template=" + tmpl
	for k := range obj {
		if k != "message" && k != "locations" && k != "path" && k != "extensions" {
			bad("error/json-extra-key "+where, "unexpected key "+k+" in "+string(b))
		}
	}
	if msg, ok := obj["message"].(string); !ok || msg == "" {
		bad("error/json-message "+where, "no message string in "+string(b))
	}
	posInt := func(v any, min float64) bool {
		f, ok := v.(float64)
		return ok && f >= min && f == math.Trunc(f)
	}
	if locs, has := obj["locations"]; has {
		arr, ok := locs.([]any)
		if !ok || len(arr) == 0 {
			bad("error/json-locations "+where, "locations is not a non-empty list in "+string(b))
		}
		for _, l := range arr {
			lm, ok := l.(map[string]any)
			if !ok || !posInt(lm["line"], 1) || !posInt(lm["column"], 1) {
				bad("error/json-location "+where, "a location lacks a positive integer line or column in "+string(b))
			}
		}
	} else if len(e.Locations) > 0 {
		bad("error/json-locations-dropped "+where, "the error has locations but its JSON has none: "+string(b))
	}
	if p, has := obj["path"]; has {
		arr, ok := p.([]any)
		if !ok {
			bad("error/json-path "+where, "path is not a list in "+string(b))
		}
		for _, x := range arr {
			if _, isStr := x.(string); !isStr && !posInt(x, 0) {
				bad("error/json-path-element "+where, "a path element is neither a string nor a non-negative integer in "+string(b))
			}
		}
	} else if len(e.Path) > 0 {
		bad("error/json-path-dropped "+where, "the error has a path but its JSON has none: "+string(b))
	}
	if x, has := obj["extensions"]; has {
		if _, ok := x.(map[string]any); !ok {
			bad("error/json-extensions "+where, "extensions is not an object in "+string(b))
		}
	}
	var back gqlerror.Error
	if err := json.Unmarshal(b, &back); err != nil {
		bad("error/json-decode "+where, "the encoded error does not decode: "+err.Error()+" "+string(b))
		return
	}
	// (a message that quotes bytes of the request which are not valid UTF-8 comes back with U+FFFD in their place: that
	// is what JSON is, not a defect of the error)
	if back.Message != strings.ToValidUTF8(e.Message, "\ufffd") || !reflect.DeepEqual(back.Locations, e.Locations) || !samePath(back.Path, e.Path) {
		bad("error/json-roundtrip "+where, fmt.Sprintf("decoded error differs: %+v vs %+v", back, *e))
	}
}

func samePath(a, b ast.Path) bool {
	if len(a) != len(b) {
		return false
	}
	for i := range a {
		if a[i] != b[i] {
			return false
		}
	}
	return true
}

func c20Template(msg string) string {
	msg = quotedRe.ReplaceAllString(msg, "Q")
	return normMsg(msg)
}

func c20Replay(c *explore.Ctx, s *explore.SubStats, in c20Input) {
	m := &errMonitor{c: c, s: s, templates: map[string]bool{}}
	c20Run(m, in)
}

// c20Run executes one case and feeds every error to the monitor.
func c20Run(m *errMonitor, in c20Input) {
	m.s.Executions++
	explore.Crumb(m.s.Name, in.Entry+" "+strings.Join(in.Sources, "|")+in.Query)
	srcs := func() []*ast.Source {
		var out []*ast.Source
		for i, t := range in.Sources {
			n := ""
			if i < len(in.Names) {
				n = in.Names[i]
			}
			out = append(out, &ast.Source{Name: n, Input: t, BuiltIn: i < len(in.BuiltIn) && in.BuiltIn[i]})
		}
		return out
	}
	var err error
	validation := false
	r := guarded(5_000_000, 5000, func() {
		switch in.Entry {
		case "ParseQuery":
			_, err = parser.ParseQuery(srcs()[0])
		case "ParseQueryWithTokenLimit":
			_, err = parser.ParseQueryWithTokenLimit(srcs()[0], in.Limit)
		case "ParseSchema":
			_, err = parser.ParseSchema(srcs()[0])
		case "ParseSchemaWithLimit":
			_, err = parser.ParseSchemaWithLimit(srcs()[0], in.Limit)
		case "ParseSchemas":
			_, err = parser.ParseSchemas(srcs()...)
		case "LoadSchema":
			_, err = gqlparser.LoadSchema(srcs()...)
		case "Validate":
			validation = true
			q, perr := parser.ParseQuery(&ast.Source{Name: in.Names[0], Input: in.Query})
			if perr != nil {
				validation = false
				err = perr
				return
			}
			if in.Limit == 1 {
				// the without-suggestions variants, explicitly
				var rs []validator.Rule
				for _, v := range c18Variants {
					rs = append(rs, v.variant)
				}
				if errs := validator.Validate(kitSchema(in.Schema), q, rs...); len(errs) > 0 {
					err = errs
				}
			} else if errs := validator.Validate(kitSchema(in.Schema), q); len(errs) > 0 {
				err = errs
			}
		case "ValidateAfterReplace":
			// every standard rule swapped in again through ReplaceRule (the documented way to exchange a rule)
			validation = true
			q, perr := parser.ParseQuery(&ast.Source{Name: in.Names[0], Input: in.Query})
			if perr != nil {
				validation = false
				err = perr
				return
			}
			regReset()
			defer regReset()
			for _, r := range c18Standard {
				validator.ReplaceRule(r.Name, r.RuleFunc) // (inside the step budget of this case)
			}
			if errs := validator.Validate(kitSchema(in.Schema), q); len(errs) > 0 {
				err = errs
			}
		case "LoadQuery":
			_, errs := gqlparser.LoadQuery(kitSchema(in.Schema), in.Query)
			if len(errs) > 0 {
				err = errs
			}
		}
	})
	if r.Panicked {
		return // totality is C01 / C02's business
	}
	m.s.Validated++
	if err != nil {
		m.s.Nontrivial++
	}
	names := in.Names
	if in.Entry == "LoadQuery" {
		names = nil
		validation = false
	}
	m.check(in, err, in.Entry, validation, names)
}

func runC20(c *explore.Ctx) {
	newMon := func(s *explore.SubStats) *errMonitor { return &errMonitor{c: c, s: s, templates: map[string]bool{}} }
	finish := func(s *explore.SubStats, m *errMonitor, t0 time.Time) {
		var ts []string
		for k := range m.templates {
			ts = append(ts, k)
		}
		s.Extra["message_templates_this_shard"] = float64(len(ts))
		if c.Shard == 0 {
			if len(ts) > 60 {
				ts = ts[:60]
			}
			s.Extra["template_examples"] = ts
		}
		for k := range m.templates {
			s.Outcome("template " + k)
		}
		s.WallS = time.Since(t0).Seconds()
	}

	// 1. syntax errors: token sequences and byte strings, named and unnamed, with limits
	n := c.Pick(3, 4)
	s := c.Sub("syntax", fmt.Sprintf("every token sequence of ≤ %d tokens over both token alphabets and every string of ≤ 3 symbols over the 28 byte classes, from a named and an unnamed source, through ParseQuery / ParseSchema / ParseSchemas / the limited entry points with limits 1 and 2", n),
		"every error is well-formed (message, positive location, file of the named source, JSON shape and round trip)", "inputs that produce an error")
	if s != nil {
		t0 := time.Now()
		m := newMon(s)
		var run func(text string, sdl bool)
		run = func(text string, sdl bool) {
			if !strings.HasPrefix(text, "\ufeff") {
				run("\ufeff"+text, sdl) // the same source saved with a byte order mark
			}
			for _, name := range []string{"named.graphql", ""} {
				if sdl {
					c20Run(m, c20Input{Entry: "ParseSchema", Sources: []string{text}, Names: []string{name}})
					first := ""
					if name != "" {
						first = "first.graphql"
					}
					c20Run(m, c20Input{Entry: "ParseSchemas", Sources: []string{"scalar Ok", text}, Names: []string{first, name}})
					for _, l := range []int{1, 2} {
						c20Run(m, c20Input{Entry: "ParseSchemaWithLimit", Sources: []string{text}, Names: []string{name}, Limit: l})
					}
				} else {
					c20Run(m, c20Input{Entry: "ParseQuery", Sources: []string{text}, Names: []string{name}})
					for _, l := range []int{1, 2} {
						c20Run(m, c20Input{Entry: "ParseQueryWithTokenLimit", Sources: []string{text}, Names: []string{name}, Limit: l})
					}
				}
			}
		}
		st, _, ok1 := explore.Seqs(len(gen.SigmaExec), n, c.Shard, c.NShards, c.Expired, func(sym []int) bool { run(gen.Render(gen.SigmaExec, sym), false); return true })
		s.States += st
		st, _, ok2 := explore.Seqs(len(gen.SigmaSDL), n, c.Shard, c.NShards, c.Expired, func(sym []int) bool { run(gen.Render(gen.SigmaSDL, sym), true); return true })
		s.States += st
		st, _, ok3 := explore.Seqs(len(gen.SigmaByte), 3, c.Shard, c.NShards, c.Expired, func(sym []int) bool {
			t := gen.RenderStrs(gen.SigmaByte, sym)
			run(t, false)
			run(t, true)
			return true
		})
		s.States += st
		if !ok1 || !ok2 || !ok3 {
			s.Cap("deadline")
		}
		finish(s, m, t0)
	}

	// 2. schema loading from two named sources
	k := c.Pick(1, 2)
	s = c.Sub("loading", fmt.Sprintf("every type system of the schema kit with ≤ %d menu items, the base in base.graphql and the menu items in items.graphql (both orders; either source also marked built-in)", k),
		"every load error is well-formed and names one of the two sources", "type systems that are rejected")
	if s != nil {
		t0 := time.Now()
		m := newMon(s)
		idx := 0
		explore.Subsets(len(gen.KitMenu), k, func(items []int) {
			idx++
			if idx%c.NShards != c.Shard || len(items) == 0 {
				return
			}
			s.States++
			var its []string
			for _, i := range items {
				its = append(its, gen.KitMenu[i])
			}
			c20Run(m, c20Input{Entry: "LoadSchema", Sources: []string{strings.Join(gen.KitBase, "\n"), strings.Join(its, "\n")}, Names: []string{"base.graphql", "items.graphql"}})
			c20Run(m, c20Input{Entry: "LoadSchema", Sources: []string{strings.Join(its, "\n"), strings.Join(gen.KitBase, "\n")}, Names: []string{"items.graphql", "base.graphql"}})
			// the same with a source marked built-in (its errors still name the file)
			c20Run(m, c20Input{Entry: "LoadSchema", Sources: []string{strings.Join(gen.KitBase, "\n"), strings.Join(its, "\n")}, Names: []string{"base.graphql", "items.graphql"}, BuiltIn: []bool{false, true}})
			c20Run(m, c20Input{Entry: "LoadSchema", Sources: []string{strings.Join(gen.KitBase, "\n"), strings.Join(its, "\n")}, Names: []string{"base.graphql", "items.graphql"}, BuiltIn: []bool{true, false}})
			// both files saved with a byte order mark
			c20Run(m, c20Input{Entry: "LoadSchema", Sources: []string{"\ufeff" + strings.Join(gen.KitBase, "\n"), "\ufeff" + strings.Join(its, "\n")}, Names: []string{"base.graphql", "items.graphql"}})
		})
		finish(s, m, t0)
	}

	// 3. validation errors of every rule
	s = c.Sub("validation", fmt.Sprintf("every document of the validation-kit profiles (%d) validated under the default rules from a named source, through LoadQuery, and (every 8th) under the default rules after each rule was re-registered with ReplaceRule", profileDocCount()),
		"every validation error has a non-empty message, a known rule name, at least one positive location, the file of the query source, JSON shape and round trip", "documents with errors")
	if s != nil {
		t0 := time.Now()
		m := newMon(s)
		if c.Shard == 0 {
			for _, q := range c20Awkward {
				s.States++
				c20Run(m, c20Input{Entry: "Validate", Query: q, Names: []string{"query.graphql"}})
				c20Run(m, c20Input{Entry: "LoadQuery", Query: q})
				c20Run(m, c20Input{Entry: "ParseQuery", Sources: []string{q + " }"}, Names: []string{"named.graphql"}})
				c20Run(m, c20Input{Entry: "ParseSchema", Sources: []string{"\"\"\"\n説明文説明文説明文\n\"\"\" type A { f: Int } } " + q}, Names: []string{"named.graphql"}})
				c20Run(m, c20Input{Entry: "LoadSchema", Sources: []string{"type Query { a: Int }", "\"\"\"\n説明文説明文説明文\n\"\"\" type A { f: Missing }"}, Names: []string{"a.graphql", "b.graphql"}})
			}
		}
		if c.Shard == 0 {
			// a lexical error exactly where a value is expected (argument, list item, object field, variable default,
			// directive argument, type-system default): every context × every kind of lexical error, from named sources
			lexErrs := []string{`"x`, `"x\q"`, `007`, `1.`, `?`, `"\u12"`, "\"a\nb\"", `"""x`, `.5`, `1e`}
			for _, le := range lexErrs {
				for _, ctx := range []string{`{ f(a: %s) }`, `{ f(a: [1, %s]) }`, `{ f(a: {k: %s}) }`, `query($n: Int = %s) { f }`, `{ f @d(x: %s) }`, `{ f(a: [[{k: [%s]}]]) }`, `fragment F on T @d(x: %s) { f }`} {
					s.States++
					q := strings.Replace(ctx, "%s", le, 1)
					c20Run(m, c20Input{Entry: "ParseQuery", Sources: []string{q}, Names: []string{"ops.graphql"}})
					c20Run(m, c20Input{Entry: "ParseQueryWithTokenLimit", Sources: []string{q}, Names: []string{"ops.graphql"}, Limit: 100})
					c20Run(m, c20Input{Entry: "LoadQuery", Query: q})
				}
				for _, ctx := range []string{`type Q { f(a: String = %s): Int }`, `input I { a: [Int] = [%s] }`, `type Q @d(x: %s) { f: Int }`, `directive @d(x: Int = %s) on FIELD`, `extend schema @d(x: {k: %s})`} {
					s.States++
					q := strings.Replace(ctx, "%s", le, 1)
					c20Run(m, c20Input{Entry: "ParseSchema", Sources: []string{q}, Names: []string{"types.graphql"}})
					c20Run(m, c20Input{Entry: "ParseSchemas", Sources: []string{"scalar Ok", q}, Names: []string{"first.graphql", "types.graphql"}})
					c20Run(m, c20Input{Entry: "LoadSchema", Sources: []string{"type Query { a: Int }", q}, Names: []string{"a.graphql", "b.graphql"}})
				}
			}
		}
		if c.Shard == 0 {
			// documents with hundreds of errors: every one of them is well-formed
			for _, q := range c18LargeDocs() {
				s.States++
				c20Run(m, c20Input{Entry: "Validate", Query: q, Names: []string{"query.graphql"}})
				c20Run(m, c20Input{Entry: "LoadQuery", Query: q})
			}
		}
		forEachProfileDoc(c, s, "", func(d kitDoc) {
			c20Run(m, c20Input{Entry: "Validate", Query: d.Doc, Names: []string{"query.graphql"}, Schema: d.Schema, Limit: 1})
			c20Run(m, c20Input{Entry: "Validate", Query: d.Doc, Names: []string{"query.graphql"}, Schema: d.Schema})
			if s.States%8 == 0 {
				c20Run(m, c20Input{Entry: "LoadQuery", Query: d.Doc, Schema: d.Schema})
				c20Run(m, c20Input{Entry: "ValidateAfterReplace", Query: d.Doc, Names: []string{"query.graphql"}, Schema: d.Schema})
				c20Run(m, c20Input{Entry: "Validate", Query: "\ufeff" + d.Doc, Names: []string{"query.graphql"}, Schema: d.Schema})
			}
		})
		finish(s, m, t0)
	}

	// 4. coercion errors
	s = c.Sub("coercion", "all 240 variable types × every value within 1 deviation of the conforming skeleton × {no default}, plus the absent / null modes", "every coercion error has a non-empty message, a path that survives JSON, and JSON shape", "cases that produce an error")
	if s != nil {
		t0 := time.Now()
		m := newMon(s)
		e := c14Setup()
		one := func(ti int, vars map[string]any, withDefault bool) {
			s.Executions++
			op := e.op(ti, withDefault)
			var err error
			r := guarded(200000, 0, func() { _, err = validator.VariableValues(e.schema, op, vars) })
			if r.Panicked {
				return
			}
			s.Validated++
			if err != nil {
				s.Nontrivial++
				m.check(c20Input{Entry: "coerce", Query: fmt.Sprintf("$v: %s value=%s", e.types[ti].String(), goRepr(vars["v"]))}, err, "coerce", false, nil)
			}
		}
		if c.Shard == 0 {
			// defaults that lex but do not convert (numbers beyond 64 bits), for built-in types (the
			// document is invalid, a caller may coerce all the same) and for a custom scalar (valid)
			sch, lerr := gqlparser.LoadSchema(&ast.Source{Name: "cd.graphql", Input: "scalar Any\ntype Query { f(i: Int, fl: Float, l: [Int], a: Any, ll: [[Float]]): Int }"})
			if lerr != nil {
				panic(lerr)
			}
			for _, decl := range []string{"$v: Int = 99999999999999999999", "$v: Float = 1e999", "$v: [Int] = [1, 99999999999999999999]", "$v: Any = 1e999", "$v: Any = [{k: 99999999999999999999}]", "$v: [[Float]] = [[1.5, -1e999]]", "$v: Int = -99999999999999999999"} {
				q := "query Q(" + decl + ") { f }"
				doc, perr := parser.ParseQuery(&ast.Source{Name: "q.graphql", Input: q})
				if perr != nil {
					continue
				}
				validator.Validate(sch, doc)
				var err error
				r := guarded(200000, 0, func() { _, err = validator.VariableValues(sch, doc.Operations[0], map[string]any{}) })
				s.States++
				s.Executions++
				if r.Panicked {
					continue
				}
				s.Validated++
				if err != nil {
					s.Nontrivial++
					m.check(c20Input{Entry: "coerce", Query: q}, err, "coerce", false, nil)
				}
			}
		}
		for ti := range e.types {
			if ti%c.NShards != c.Shard {
				continue
			}
			s.States++
			explore.Tree(1, 0, 1, c.Expired, func(ch *explore.Chooser) {
				one(ti, map[string]any{"v": genValue(ch, c14Schema, e.types[ti], 0)}, false)
			})
			one(ti, map[string]any{}, false)
			one(ti, map[string]any{"v": nil}, true)
		}
		finish(s, m, t0)
	}

	// 5. paths
	s = c.Sub("paths", "every path of ≤ 5/6 elements over {name a, empty name, name \"0\", index 0, index 1, index 7, a name with a C0 control character, a name of DEL and a non-printable astral character, a name with quote, backslash, < and U+2028}", "json.Marshal followed by json.Unmarshal is the identity on the path; an error carrying it has the spec shape", "every path")
	if s != nil {
		t0 := time.Now()
		m := newMon(s)
		elems := []ast.PathElement{ast.PathName("a"), ast.PathName(""), ast.PathName("0"), ast.PathIndex(0), ast.PathIndex(1), ast.PathIndex(7),
			// names are map keys of the caller's variables: any string at all
			ast.PathName("na\ame"), ast.PathName("\x7f\U000e0001"), ast.PathName("é\"\\<\u2028")}
		st, tr, ok := explore.Seqs(len(elems), c.Pick(5, 6), c.Shard, c.NShards, c.Expired, func(sym []int) bool {
			s.Executions++
			p := ast.Path{}
			for _, x := range sym {
				p = append(p, elems[x])
			}
			b, err := json.Marshal(p)
			var back ast.Path
			if err == nil {
				err = json.Unmarshal(b, &back)
			}
			s.Validated++
			s.Nontrivial++
			if err == nil {
				// a destination that held another path before (decoders reuse what they are given)
				for _, prev := range []ast.Path{{ast.PathName("old"), ast.PathIndex(9), ast.PathName("x"), ast.PathName("y"), ast.PathIndex(3), ast.PathName("z"), ast.PathName("w")}, {ast.PathName("o")}} {
					dst := append(ast.Path{}, prev...)
					if e2 := json.Unmarshal(b, &dst); e2 != nil || !samePath(dst, p) {
						c.Report(s, explore.Violation{Key: "error/path-decode-into-used", Input: explore.J(c20Input{Entry: "path", Path: pathAny(p)}), Rendered: string(b), Detail: fmt.Sprintf("path %s decoded into a destination that held %v gives %v (%v)", b, prev, dst, e2)})
						break
					}
				}
			}
			if err != nil || !samePath(back, p) {
				c.Report(s, explore.Violation{Key: "error/path-roundtrip", Input: explore.J(c20Input{Entry: "path", Path: pathAny(p)}), Rendered: string(b), Detail: fmt.Sprintf("path %v encodes to %s and decodes to %v (%v)", p, b, back, err)})
			}
			if len(sym) >= 5 || len(sym) <= 2 {
				m.check(c20Input{Entry: "path", Path: pathAny(p)}, gqlerror.ErrorPathf(p, "m"), "path", false, nil)
			}
			return true
		})
		s.States += st
		s.Transitions += tr
		if !ok {
			s.Cap("deadline")
		}
		s.WallS = time.Since(t0).Seconds()
	}
}

func pathAny(p ast.Path) []any {
	var out []any
	for _, e := range p {
		switch x := e.(type) {
		case ast.PathName:
			out = append(out, string(x))
		case ast.PathIndex:
			out = append(out, int(x))
		}
	}
	return out
}

var _ = refcoerce.Yes
