# sourced by every script: offline Go settings and paths
export GOFLAGS=-mod=mod GOPROXY=off GOSUMDB=off GOTOOLCHAIN=local
export VERIF_ROOT="${VERIF_ROOT:-/verif}"
export VERIF_REPO="${VERIF_REPO:-/repo}"
