package props

import (
	"fmt"
	"os"
	"sort"
	"strings"
	"time"

	"github.com/vektah/gqlparser/v2/ast"
	"github.com/vektah/gqlparser/v2/parser"
	"gopkg.in/yaml.v3"

	"verif/mc/explore"
	"verif/mc/ref/refgrammar"
	"verif/mc/ref/reflex"
)

func tokenTextsNoComments(text string) []string {
	rs := []rune(text)
	r := reflex.Lex(text, reflex.Defects{})
	if r.FailAt >= 0 {
		return nil
	}
	var out []string
	for _, t := range r.Tokens {
		if t.Kind == "Comment" {
			continue
		}
		out = append(out, string(rs[t.Start:t.End]))
	}
	return out
}

// ---- C06: several sources and the built-in flag ------------------------------------------

type sourcesInput struct {
	Sources []string `json:"sources"`
	BuiltIn []bool   `json:"builtin"`
}

func sourcesCase(c *explore.Ctx, s *explore.SubStats, side *gramSide, in sourcesInput) {
	g := side.grammar()
	s.Executions++
	rendered := strings.Join(in.Sources, "\n---\n")
	explore.Crumb(s.Name, rendered)
	bad := func(key, detail, exp, obs string) {
		c.Report(s, explore.Violation{Key: key, Input: explore.J(in), Rendered: rendered, Detail: detail, Expected: exp, Observed: obs})
	}
	var srcs []*ast.Source
	var all []refgrammar.Tok
	for i, t := range in.Sources {
		srcs = append(srcs, &ast.Source{Name: fmt.Sprintf("s%d", i), Input: t, BuiltIn: in.BuiltIn[i]})
		tk, ok := gramToks(t)
		if !ok {
			s.Undecided++
			return
		}
		all = append(all, tk...)
	}
	want := g.Parse(all)
	var doc *ast.SchemaDocument
	var err error
	r := guarded(0, 0, func() { doc, err = parser.ParseSchemas(srcs...) })
	if r.Panicked {
		bad("panic site="+r.Site, r.PanicVal+"\n"+trimStack(r.Stack), "", "")
		return
	}
	s.Validated++
	if !want.OK {
		// not every source is a type-system document: the concatenation is not derivable either
		if err == nil {
			bad("sources/accept", "ParseSchemas accepts sources whose concatenation is not derivable", "", projSDL(doc))
		}
		return
	}
	if err != nil {
		bad("sources/reject", "each source is a derivable type-system document but ParseSchemas rejects them: "+err.Error(), want.Tree, err.Error())
		return
	}
	if p := projSDL(doc); p != want.Tree {
		bad("sources/tree", "ParseSchemas over several sources differs from the tree of their concatenation", want.Tree, p)
	}
	// built-in flag: every definition and extension carries the flag of the source it was written in
	flagOf := func(pos *ast.Position) (bool, bool) {
		if pos == nil || pos.Src == nil {
			return false, false
		}
		return pos.Src.BuiltIn, true
	}
	check := func(kind string, ds ast.DefinitionList) {
		for _, d := range ds {
			f, ok := flagOf(d.Position)
			if !ok {
				bad("sources/builtin-nopos", kind+" "+d.Name+" has no position/source", "", "")
				continue
			}
			if d.BuiltIn != f {
				bad("sources/builtin-flag", fmt.Sprintf("%s %s from source %s (BuiltIn=%v) is marked BuiltIn=%v", kind, d.Name, d.Position.Src.Name, f, d.BuiltIn), "", "")
			}
		}
	}
	check("definition", doc.Definitions)
	check("extension", doc.Extensions)
	nb := 0
	for _, b := range in.BuiltIn {
		if b {
			nb++
		}
	}
	s.Nontrivial++
	s.Outcome(fmt.Sprintf("sources=%d builtin=%d", len(in.Sources), nb))
	s.Sample(func() any { return in })
}

func sourcesSub(c *explore.Ctx, side *gramSide, g *refgrammar.Grammar) {
	n := c.Pick(3, 4)
	_ = n
	s := c.Sub("sources", fmt.Sprintf("every ordered pair (and, thorough, triple of the first 40) of type-system sentences over the core alphabet (all of ≤ %d tokens, plus one definition and one extension of every kind and the schema definitions / extensions one token longer), as separate sources, × every assignment of the built-in flag", n),
		"ParseSchemas succeeds, its tree equals the derivation tree of the concatenated token sequence (definitions in source order), and every definition/extension carries the BuiltIn flag of its own source", "every case")
	if s == nil {
		return
	}
	t0 := time.Now()
	var texts []string
	for _, sent := range language(side, g, "core", side.core, n+1, false) {
		// all sentences of ≤ n tokens, and the longer ones that are made of schema definitions /
		// extensions only (the document parts that are easiest to lose in a merge)
		if len(sent.Classes) <= n || (strings.Contains(sent.Tree, "defs[]") && strings.Contains(sent.Tree, "exts[]") && strings.Contains(sent.Tree, "directives[]")) {
			texts = append(texts, renderClasses(side.core, sent.Classes, " "))
		}
	}
	// one definition and one extension of every kind (longer than the sweep reaches)
	texts = append(texts, sourcesExtras...)
	if c.Shard == 0 {
		s.Extra["sentences"] = float64(len(texts))
	}
	idx := 0
	for _, a := range texts {
		for _, b := range texts {
			idx++
			if idx%c.NShards != c.Shard {
				continue
			}
			if idx&255 == 0 && c.Expired() {
				s.Cap("deadline")
				return
			}
			s.States++
			for m := 0; m < 4; m++ {
				s.Transitions++
				sourcesCase(c, s, side, sourcesInput{Sources: []string{a, b}, BuiltIn: []bool{m&1 != 0, m&2 != 0}})
			}
		}
	}
	if c.Thorough() {
		short := texts
		if len(short) > 40 {
			short = short[:40]
		}
		for _, a := range short {
			for _, b := range short {
				for _, d := range short {
					idx++
					if idx%c.NShards != c.Shard {
						continue
					}
					s.States++
					for m := 0; m < 8; m++ {
						s.Transitions++
						sourcesCase(c, s, side, sourcesInput{Sources: []string{a, b, d}, BuiltIn: []bool{m&1 != 0, m&2 != 0, m&4 != 0}})
					}
				}
			}
		}
	}
	s.WallS = time.Since(t0).Seconds()
}

var sourcesExtras = []string{
	"extend type a @ a", "extend type a { a : a }", "extend interface a @ a", "extend union a = a", "extend enum a { a }", "extend input a @ a", "extend scalar a @ a",
	"scalar a", "enum a { a }", "directive @ a on FIELD", "union a = a", "input a { a : a }",
}

// ---- corpus binding -----------------------------------------------------------------------

type parserSpec struct {
	Name  string    `yaml:"name"`
	Input string    `yaml:"input"`
	Error *struct{} `yaml:"error"`
}

// corpusSub replays the repository's parser corpus through the reference recogniser. The
// corpus records what this library does, so a disagreement is not automatically a model
// bug: each one is listed in the evidence and must be one of the reviewed deviations
// below (cases where the library's pinned behaviour departs from the grammar).
func corpusSub(c *explore.Ctx, side *gramSide, g *refgrammar.Grammar) {
	file := "parser/query_test.yml"
	if side.id == "C06" {
		file = "parser/schema_test.yml"
	}
	s := c.Sub("model-corpus", "every case of "+file, "the reference recogniser's verdict equals the corpus expectation (error / no error), except for the reviewed deviations listed under extra.deviations", "every corpus case")
	if s == nil || c.Shard != 0 {
		return
	}
	b, err := os.ReadFile(repoRoot() + "/" + file)
	if err != nil {
		s.Cap("corpus not readable: " + err.Error())
		return
	}
	var feats map[string][]parserSpec
	if err := yaml.Unmarshal(b, &feats); err != nil {
		s.Cap("corpus not parseable: " + err.Error())
		return
	}
	var names []string
	for k := range feats {
		names = append(names, k)
	}
	sort.Strings(names)
	var dev []string
	for _, f := range names {
		for _, sp := range feats[f] {
			s.Executions++
			s.States++
			s.Transitions++
			toks, ok := gramToks(sp.Input)
			var model bool
			if ok {
				r := g.Parse(toks)
				if r.Ambiguous != "" {
					panic("reference grammar ambiguous on corpus case " + sp.Name + ": " + r.Ambiguous)
				}
				model = r.OK
			}
			corpus := sp.Error == nil
			if len(toks) == 0 && ok {
				s.Undecided++
				continue
			}
			if model == corpus {
				s.Nontrivial++
				s.Outcome("agree")
			} else {
				s.Outcome("deviation")
				dev = append(dev, fmt.Sprintf("%s / %s: corpus accepts=%v, grammar derives=%v", f, sp.Name, corpus, model))
			}
		}
	}
	s.Extra["deviations"] = dev
	s.Extra["model_corpus_agreements"] = float64(s.Nontrivial)
}
