package props

import (
	"crypto/sha256"
	"encoding/json"
	"fmt"
	"os"
	"os/exec"
	"path/filepath"
	"sort"
	"strings"
	"time"

	gqlparser "github.com/vektah/gqlparser/v2"
	"github.com/vektah/gqlparser/v2/ast"
	"github.com/vektah/gqlparser/v2/gqlerror"
	"github.com/vektah/gqlparser/v2/parser"
	"github.com/vektah/gqlparser/v2/validator"
	"github.com/vektah/gqlparser/v2/verifhook"

	"verif/mc/explore"
	"verif/mc/gen"
)

// C10: validation is deterministic and repeatable.

func init() {
	register(&Prop{ID: "C10", Run: runC10, Replay: func(c *explore.Ctx, s *explore.SubStats, v explore.Violation) {
		if v.Sub == "schemas" {
			var in kitInput
			if json.Unmarshal(v.Input, &in) == nil {
				c10Schema(c, s, in)
			}
			return
		}
		if v.Sub == "schemas-multi-source" {
			var in kitInput
			if json.Unmarshal(v.Input, &in) == nil && len(in.Items) == 2 {
				c10SchemaMulti(c, s, in)
			}
			return
		}
		if v.Sub == "schemas-sharing-names" {
			var in c10TwinInput
			if json.Unmarshal(v.Input, &in) == nil {
				c10Twin(c, s, in)
			}
			return
		}
		var in kitDoc
		if json.Unmarshal(v.Input, &in) == nil {
			c10Doc(c, s, in)
		}
	}, Assumptions: []string{
		"the only sources of nondeterminism in the code under test are Go's randomised map iteration order and (across processes) hash seeds; every `range` over a map in the repository is rewritten by the build overlay to iterate the key order chosen by the explorer (ascending, descending, every rotation up to the largest map seen, and every permutation of maps of ≤ 4 keys)",
		"that the seam owns the nondeterminism is itself checked: three fresh processes of the un-instrumented build (native map iteration, fresh hash seeds) must produce the digest of the ascending-order execution",
		"an error list is compared completely: message (with suggestions), rule, locations, path and extensions of every error, in order",
	}})
}

func errSig(errs gqlerror.List) string {
	var b strings.Builder
	for _, e := range errs {
		if e == nil {
			b.WriteString("<nil>\n")
			continue
		}
		var ext []string
		for k, v := range e.Extensions {
			ext = append(ext, fmt.Sprintf("%s=%v", k, v))
		}
		sort.Strings(ext)
		fmt.Fprintf(&b, "%s | rule=%s | loc=%v | path=%v | ext=%v\n", e.Message, e.Rule, e.Locations, e.Path, ext)
	}
	return b.String()
}

func errToList(err error) gqlerror.List {
	switch e := err.(type) {
	case nil:
		return nil
	case gqlerror.List:
		return e
	case *gqlerror.Error:
		return gqlerror.List{e}
	}
	return gqlerror.List{{Message: "plain error: " + err.Error()}}
}

// orderPolicies runs f under every map-order policy; f returns the observable signature.
// It reports the first policy whose signature differs from the ascending one.
func orderPolicies(f func() string) (base string, diffPolicy string, diff string, runs int) {
	set := func(p int, perm []int) {
		verifhook.OrderPolicy = p
		verifhook.Perm = perm
	}
	defer set(0, nil)
	set(0, nil)
	verifhook.MaxMapLen = 0
	base = f()
	runs = 1
	maxLen := verifhook.MaxMapLen
	if maxLen > 48 {
		maxLen = 48
	}
	try := func(name string) bool {
		runs++
		if got := f(); got != base {
			diffPolicy, diff = name, got
			return true
		}
		return false
	}
	set(1, nil)
	if try("descending") {
		return
	}
	for k := 1; k < maxLen; k++ {
		set(1+k, nil)
		if try(fmt.Sprintf("ascending rotated by %d", k)) {
			return
		}
	}
	for n := 2; n <= 4 && n <= verifhook.MaxMapLen; n++ {
		stop := false
		explore.Perms(n, func(p []int) {
			if stop {
				return
			}
			set(0, append([]int{}, p...))
			if try(fmt.Sprintf("maps of %d keys in order %v", n, p)) {
				stop = true
			}
		})
		if stop {
			return
		}
	}
	return
}

func c10Doc(c *explore.Ctx, s *explore.SubStats, d kitDoc) {
	explore.Crumb(s.Name, d.Doc)
	schema := kitSchema(d.Schema)
	if _, err := parser.ParseQuery(&ast.Source{Name: "q.graphql", Input: d.Doc}); err != nil {
		s.Skipped++
		return
	}
	s.Executions++
	bad := func(key, detail, exp, obs string) {
		c.Report(s, explore.Violation{Key: key, Input: explore.J(d), Rendered: d.Doc, Detail: detail, Expected: exp, Observed: obs})
	}
	var again string
	run := func() string {
		doc, _ := parser.ParseQuery(&ast.Source{Name: "q.graphql", Input: d.Doc})
		var errs gqlerror.List
		r := guarded(c02DocBudget, 5000, func() {
			errs = validator.Validate(schema, doc)
			again = errSig(validator.Validate(schema, doc)) // the same tree, validated again
		})
		if r.Panicked {
			return "panic: " + r.PanicVal
		}
		return errSig(errs)
	}
	base, pol, diff, runs := orderPolicies(run)
	s.Transitions += int64(runs)
	s.Validated++
	if base == "" {
		s.Outcome("valid")
	} else {
		s.Nontrivial++
		s.Outcome("invalid")
	}
	if pol != "" {
		bad("nondet/map-order "+c10Template(base, diff), "the error list depends on map iteration order ("+pol+")", base, diff)
		return
	}
	// re-validation of the already validated tree (checked under the ascending policy)
	verifhook.OrderPolicy, verifhook.Perm = 0, nil
	first := run()
	if again != first {
		bad("nondet/revalidation "+c10Template(first, again), "validating the same parsed document a second time gives a different error list", first, again)
	}
	if strings.Count(first, "\n") >= 2 {
		// the default rule set after every rule was registered again under its own name
		// (ReplaceRule keeps a rule's place): same errors, same order
		// all of them, and single ones (a rule that is taken out and appended would change places)
		for _, which := range []string{"", "FieldsOnCorrectType", "KnownArgumentNames", "ScalarLeafs", "ValuesOfCorrectType"} {
			regReset()
			for _, r := range c18Standard {
				if which == "" || r.Name == which {
					if !replaceRuleBounded(r.Name, r.RuleFunc) {
						break
					}
				}
			}
			after := run()
			regReset()
			s.Transitions++
			if after != first {
				bad("nondet/after-replace-rule "+c10Template(first, after), "after ReplaceRule("+which+") of a rule by itself (empty: every rule) the same document gets a different error list", first, after)
				break
			}
		}
	}
	s.Sample(func() any { return d })
}

// c10ManyDocs: near misses of names that have nine equally close candidates each.
var c10ManyDocs = []string{
	`{ ...F } fragment F on Taa { x }`,
	`{ ... on Taa { x } }`,
	`query ($v: Taa) { q(xab: $v) }`,
	`{ faa { x } }`,
	`{ q(xaa: 1) }`,
	`{ e(v: VAA) }`,
	`{ i(v: {iaa: 1}) }`,
	`{ q @daa }`,
	`{ ...F faa { x } q(xaa: 1, xa: 2) e(v: VAA) i(v: {iaa: 1, ia: 2}) q2: q @daa } fragment F on Taa { x }`,
	`{ ...G } fragment G on Ta { x }`,
	`{ ... on Tabb { x } fabb { x } }`,
	// a near miss of a meta field before the meta field itself, on one type
	`{ fab { __typenam __typename } fac { __typename __typenam } __typenam __typename }`,
}

// c10Template: the rule (or message template) of the first error that differs.
func c10Template(a, b string) string {
	al, bl := strings.Split(a, "\n"), strings.Split(b, "\n")
	for i := 0; i < len(al) || i < len(bl); i++ {
		x, y := "", ""
		if i < len(al) {
			x = al[i]
		}
		if i < len(bl) {
			y = bl[i]
		}
		if x != y {
			line := x
			if line == "" {
				line = y
			}
			if j := strings.Index(line, "rule="); j >= 0 {
				r := line[j:]
				if k := strings.IndexByte(r, ' '); k > 0 {
					r = r[:k]
				}
				return r
			}
			return "msg=" + msgTemplate(line, map[string]bool{})
		}
	}
	return "?"
}

func c10Schema(c *explore.Ctx, s *explore.SubStats, in kitInput) {
	text := strings.Join(in.defs(), "\n")
	explore.Crumb(s.Name, text)
	s.Executions++
	bad := func(key, detail, exp, obs string) {
		c.Report(s, explore.Violation{Key: key, Input: explore.J(in), Rendered: strings.Join(in.defs()[len(gen.KitBase):], "\n"), Detail: detail, Expected: exp, Observed: obs})
	}
	run := func() string {
		var err error
		var sch *ast.Schema
		r := guarded(3_000_000, 5000, func() { sch, err = gqlparser.LoadSchema(&ast.Source{Name: "kit.graphql", Input: text}) })
		if r.Panicked {
			return "panic: " + r.PanicVal
		}
		if err == nil {
			return "loaded\n" + schemaDump(sch)
		}
		return errSig(errToList(err))
	}
	base, pol, diff, runs := orderPolicies(run)
	s.Transitions += int64(runs)
	s.Validated++
	if strings.HasPrefix(base, "loaded") {
		s.Outcome("loaded")
	} else {
		s.Nontrivial++
		s.Outcome("rejected")
	}
	if pol != "" {
		bad("nondet/load-map-order "+c10Template(base, diff), "the result of loading depends on map iteration order ("+pol+")", base, diff)
	}
}

// c10SchemaMulti loads base + items, every item as a source file of its own.
func c10SchemaMulti(c *explore.Ctx, s *explore.SubStats, in kitInput) {
	explore.Crumb(s.Name, fmt.Sprint(in.Items))
	s.Executions++
	srcs := func() []*ast.Source {
		out := []*ast.Source{{Name: "base.graphql", Input: strings.Join(gen.KitBase, "\n")}}
		for _, i := range in.Items {
			out = append(out, &ast.Source{Name: fmt.Sprintf("item%d.graphql", i), Input: gen.KitMenu[i]})
		}
		return out
	}
	run := func() string {
		var err error
		var sch *ast.Schema
		r := guarded(3_000_000, 5000, func() { sch, err = gqlparser.LoadSchema(srcs()...) })
		if r.Panicked {
			return "panic: " + r.PanicVal
		}
		if err == nil {
			return "loaded\n" + schemaDump(sch)
		}
		return errSig(errToList(err))
	}
	base, pol, diff, runs := orderPolicies(run)
	s.Transitions += int64(runs)
	s.Validated++
	if strings.HasPrefix(base, "loaded") {
		s.Outcome("loaded")
	} else {
		s.Nontrivial++
		s.Outcome("rejected")
	}
	// the caller's slice of sources (with spare capacity) is the caller's: loading it twice gives
	// the same result and leaves it as it was
	{
		verifhook.OrderPolicy, verifhook.Perm = 0, nil
		ss := append(make([]*ast.Source, 0, 8), srcs()...)
		names := func() string {
			var ns []string
			for _, x := range ss {
				ns = append(ns, x.Name)
			}
			return strings.Join(ns, ",")
		}
		before := names()
		load := func() string {
			var err error
			var sch *ast.Schema
			r := guarded(3_000_000, 5000, func() { sch, err = gqlparser.LoadSchema(ss...) })
			if r.Panicked {
				return "panic: " + r.PanicVal
			}
			if err == nil {
				return "loaded\n" + schemaDump(sch)
			}
			return errSig(errToList(err))
		}
		a := load()
		b := load()
		s.Transitions += 2
		if a != b || names() != before {
			c.Report(s, explore.Violation{Key: "nondet/reload-same-sources " + c10Template(a, b), Input: explore.J(in), Rendered: gen.KitMenu[in.Items[0]] + "\n---\n" + gen.KitMenu[in.Items[1]],
				Detail: "loading the same slice of sources a second time gives another result, or the slice was changed (" + before + " → " + names() + ")", Expected: a, Observed: b})
		}
	}
	if pol != "" {
		c.Report(s, explore.Violation{Key: "nondet/load-map-order multi-source " + c10Template(base, diff), Input: explore.J(in), Rendered: gen.KitMenu[in.Items[0]] + "\n---\n" + gen.KitMenu[in.Items[1]],
			Detail: "the result of loading several source files depends on map iteration order (" + pol + ")", Expected: base, Observed: diff})
	}
}

// C10Digest: one digest over the error lists of every profile document and every kit type
// system with ≤ 1 menu item, computed with whatever map order the running build has.
func C10Digest() string {
	h := sha256.New()
	for pi := range gen.ValidProfiles {
		p := &gen.ValidProfiles[pi]
		p.Expand(func(doc string, _ []int) {
			d, err := parser.ParseQuery(&ast.Source{Name: "q.graphql", Input: doc})
			if err != nil {
				return
			}
			fmt.Fprintf(h, "%s\n%s\n", doc, errSig(validator.Validate(kitSchema(p.Schema), d)))
		})
	}
	explore.Subsets(len(gen.KitMenu), 1, func(items []int) {
		text := strings.Join(kitInput{Items: items}.defs(), "\n")
		_, err := gqlparser.LoadSchema(&ast.Source{Name: "kit.graphql", Input: text})
		fmt.Fprintf(h, "%v\n%s\n", items, errSig(errToList(err)))
	})
	return fmt.Sprintf("%x", h.Sum(nil))
}

func runC10(c *explore.Ctx) {
	s := c.Sub("documents", fmt.Sprintf("every document of the validation-kit profiles (%d) × every map-order policy (ascending, descending, every rotation up to the largest map ranged over, every permutation of maps of ≤ 4 keys), plus re-validation of the validated tree", profileDocCount()),
		"the complete error list (messages incl. suggestions, rules, locations, order) is identical under every policy; validating the same tree again gives the same list", "documents with at least one error")
	if s != nil {
		t0 := time.Now()
		forEachProfileDoc(c, s, "", func(d kitDoc) { c10Doc(c, s, d) })
		s.WallS = time.Since(t0).Seconds()
	}
	n := c.Pick(5, 9)
	s = c.Sub("type-blind", fmt.Sprintf("every type-blind document of ≤ %d tokens (unknown names of every kind: the suggestion lists) × every map-order policy", n),
		"as above", "documents with at least one error")
	if s != nil {
		t0 := time.Now()
		forEachBlindDoc(c, s, n, func(d kitDoc) { c10Doc(c, s, d) })
		s.WallS = time.Since(t0).Seconds()
	}
	k := c.Pick(1, 2)
	s = c.Sub("schemas", fmt.Sprintf("every type system of the schema kit with ≤ %d menu items (valid and faulty) × every map-order policy", k),
		"the load error (or the loaded schema's canonical dump) is identical under every policy", "type systems that are rejected")
	if s != nil {
		t0 := time.Now()
		idx := 0
		explore.Subsets(len(gen.KitMenu), k, func(items []int) {
			idx++
			if idx%c.NShards != c.Shard || !s.Exhaustive {
				return
			}
			if c.Expired() {
				s.Cap("deadline")
				return
			}
			s.States++
			c10Schema(c, s, kitInput{Items: append([]int{}, items...)})
			// chosen combinations beyond the bound: an implementer that omits several ancestors of its interface at once
			if c.Shard == 0 {
				find := func(text string) int {
					for i, it := range gen.KitMenu {
						if it == text {
							return i
						}
					}
					panic("C10: no menu item " + text)
				}
				r2, r3 := find("interface R2 implements Node & HasNode { id: ID! n: Node }"), find("interface R3 implements R2 & HasNode { id: ID! n: Node }")
				for _, items := range [][]int{{r2, find("type T2z implements R2 { id: ID! n: Node }")}, {r2, r3, find("type T3z implements R3 { id: ID! n: Node }")}, {r2, r3, find("type T2z implements R2 { id: ID! n: Node }"), find("type T3z implements R3 { id: ID! n: Node }")}} {
					sort.Ints(items)
					s.States++
					c10Schema(c, s, kitInput{Items: items})
				}
			}
		})
		s.WallS = time.Since(t0).Seconds()
	}
	// several sources: every definition starts at offset 0 of its own file, so nothing that
	// orders by position can separate them
	s = c.Sub("schemas-multi-source", fmt.Sprintf("every pair of menu items (quick: of the items that are rejected on their own) of %d, each item a source file of its own next to the base file × every map-order policy", len(gen.KitMenu)),
		"the load error (message, file, location) or the loaded schema's canonical dump is identical under every policy", "type systems that are rejected")
	if s != nil {
		t0 := time.Now()
		var cand []int
		for i := range gen.KitMenu {
			if c.Thorough() {
				cand = append(cand, i)
				continue
			}
			text := strings.Join(kitInput{Items: []int{i}}.defs(), "\n")
			verifhook.OrderPolicy, verifhook.Perm = 0, nil
			if _, err := gqlparser.LoadSchema(&ast.Source{Name: "kit.graphql", Input: text}); err != nil {
				cand = append(cand, i)
			}
		}
		idx := 0
		for x := 0; x < len(cand) && s.Exhaustive; x++ {
			for y := x + 1; y < len(cand); y++ {
				idx++
				if idx%c.NShards != c.Shard {
					continue
				}
				if c.Expired() {
					s.Cap("deadline")
					break
				}
				s.States++
				c10SchemaMulti(c, s, kitInput{Items: []int{cand[x], cand[y]}})
			}
		}
		s.WallS = time.Since(t0).Seconds()
	}
	// two schemas that use the same names for different things
	s = c.Sub("schemas-sharing-names", fmt.Sprintf("two loaded schemas whose types Pet and Kind and field k carry the same names but other fields / values / arguments; each has a twin (PetT, KindT, kt) with the content of its own Pet / Kind / k under a name the other schema never uses; %d documents with near-miss names (field, enum value, argument) × both orders of the two schemas", len(c10TwinDocs)),
		"the errors for a document against a schema are the same whether or not the other schema saw the document first: they equal, up to the twin's name, the errors of the twin document whose names no other validation has used", "documents with an error")
	if s != nil {
		t0 := time.Now()
		for i := range c10TwinDocs {
			for first := 0; first < 2; first++ {
				if (2*i+first)%c.NShards != c.Shard {
					continue
				}
				s.States++
				s.Transitions++
				c10Twin(c, s, c10TwinInput{Doc: i, First: first})
			}
		}
		s.WallS = time.Since(t0).Seconds()
	}
	// more candidates than a suggestion list shows: which ones are shown must not depend on map order
	s = c.Sub("many-candidates", fmt.Sprintf("a schema with 9 type names, 9 field names, 9 argument names, 9 enum values, 9 input fields and 9 directive names one edit apart × %d documents that miss each of them by one letter × every map-order policy", len(c10ManyDocs)),
		"identical complete error lists (which of the equally close candidates a 'Did you mean' list shows included) under every policy, and on re-validation", "documents with an error")
	if s != nil {
		t0 := time.Now()
		var sb strings.Builder
		sb.WriteString("type Query { q(")
		for _, x := range "bcdefghij" {
			fmt.Fprintf(&sb, "xa%c: Int ", x)
		}
		sb.WriteString("): Int e(v: Ea): Int i(v: Ia): Int ")
		for _, x := range "bcdefghij" {
			fmt.Fprintf(&sb, "fa%c: Ta%c ", x, x)
		}
		sb.WriteString("}\nenum Ea {")
		for _, x := range "bcdefghij" {
			fmt.Fprintf(&sb, " VA%c", x-32)
		}
		sb.WriteString(" }\ninput Ia {")
		for _, x := range "bcdefghij" {
			fmt.Fprintf(&sb, " ia%c: Int", x)
		}
		sb.WriteString(" }\n")
		for _, x := range "bcdefghij" {
			fmt.Fprintf(&sb, "type Ta%c { x: Int }\ndirective @da%c on FIELD\n", x, x)
		}
		schema, err := gqlparser.LoadSchema(&ast.Source{Name: "many.graphql", Input: sb.String()})
		if err != nil {
			panic("C10 many-candidates schema: " + err.Error())
		}
		for i, d := range c10ManyDocs {
			if i%c.NShards != c.Shard {
				continue
			}
			s.States++
			s.Executions++
			run := func() string {
				doc, perr := parser.ParseQuery(&ast.Source{Name: "q.graphql", Input: d})
				if perr != nil {
					return "parse: " + perr.Error()
				}
				var first, again string
				r := guarded(c02DocBudget, 5000, func() {
					first = errSig(validator.Validate(schema, doc))
					again = errSig(validator.Validate(schema, doc))
				})
				if r.Panicked {
					return "panic: " + r.PanicVal
				}
				if again != first {
					return first + "\n--- second validation of the same tree ---\n" + again
				}
				return first
			}
			base, pol, diff, runs := orderPolicies(run)
			s.Transitions += int64(runs)
			s.Validated++
			if base != "" {
				s.Nontrivial++
			}
			s.Outcome(fmt.Sprintf("suggestions=%v", strings.Contains(base, "Did you mean")))
			if pol != "" {
				c.Report(s, explore.Violation{Key: "nondet/map-order many-candidates " + c10Template(base, diff), Input: explore.J(map[string]any{"doc": d}), Rendered: d, Detail: "the error list depends on map iteration order (" + pol + ")", Expected: base, Observed: diff})
			} else if strings.Contains(base, "--- second validation") {
				c.Report(s, explore.Violation{Key: "nondet/revalidation many-candidates", Input: explore.J(map[string]any{"doc": d}), Rendered: d, Detail: "validating the same parsed document a second time gives a different error list", Observed: base})
			}
		}
		s.WallS = time.Since(t0).Seconds()
	}
	// fresh processes of the un-instrumented build
	s = c.Sub("fresh-processes", "three fresh processes of the un-instrumented build (native randomised map iteration, fresh hash seeds) and the instrumented ascending-order execution, over every profile document and every kit type system with ≤ 1 menu item",
		"all four digests of the complete error lists agree (the map-order seam owns the nondeterminism; results do not depend on the process)", "every process")
	if s != nil && c.Shard == 0 {
		t0 := time.Now()
		verifhook.OrderPolicy, verifhook.Perm = 0, nil
		own := C10Digest()
		s.Executions++
		s.States++
		plain := filepath.Join(filepath.Dir(os.Args[0]), "mc-plain")
		if _, err := os.Stat(plain); err != nil {
			s.Cap("un-instrumented binary bin/mc-plain not built")
		} else {
			for i := 0; i < 3; i++ {
				out, err := exec.Command(plain, "c10digest").Output()
				got := strings.TrimSpace(string(out))
				s.Executions++
				s.States++
				s.Transitions++
				s.Validated++
				if err != nil {
					c.Report(s, explore.Violation{Key: "nondet/fresh-process-failed", Input: explore.J(i), Rendered: "mc-plain c10digest", Detail: "fresh process failed: " + err.Error()})
				} else if got != own {
					c.Report(s, explore.Violation{Key: "nondet/fresh-process-digest", Input: explore.J(i), Rendered: "mc-plain c10digest", Detail: "a fresh un-instrumented process produces different error lists than the ascending-order execution", Expected: own, Observed: got})
				}
				s.Nontrivial++
			}
			s.Outcome("digest " + own[:12])
		}
		s.Samples = append(s.Samples, "digest "+own)
		s.WallS = time.Since(t0).Seconds()
	}
}

// ---- schemas that share names ----------------------------------------------------------------

var c10TwinSDL = [2]string{
	`type Query { pet: Pet twin: PetT k(v: Kind, w: Int, wide: Int): Int kt(v: KindT, w: Int, wide: Int): Int }
type Pet { id: ID name: String nick: String kind: Kind }
type PetT { id: ID name: String nick: String kind: Kind }
enum Kind { DOG CAT }
enum KindT { DOG CAT }
`,
	`type Query { pet: Pet twin: PetT k(v: Kind, x: Int, wise: Int): Int kt(v: KindT, x: Int, wise: Int): Int }
type Pet { id: ID fame: String pick: String kine: Kind }
type PetT { id: ID fame: String pick: String kine: Kind }
enum Kind { DOT CAR }
enum KindT { DOT CAR }
`,
}

// c10TwinDocs: a document and its twin (the same selection through the twin names).
var c10TwinDocs = func() [][2]string {
	var out [][2]string
	for _, f := range []string{"nam", "nic", "kin", "name", "nick", "kind", "idd", "fam", "pic", "fame", "kine", "i"} {
		out = append(out, [2]string{"{ pet { " + f + " } }", "{ twin { " + f + " } }"})
	}
	for _, v := range []string{"DOGG", "DO", "CAT", "CA", "DOG", "DOT", "CAR", "\"DOG\"", "\"CAR\""} {
		out = append(out, [2]string{"{ k(v: " + v + ") }", "{ kt(v: " + v + ") }"})
	}
	for _, a := range []string{"ww", "w", "xx", "x", "wid", "wis", "wide", "wise", "vv"} {
		out = append(out, [2]string{"{ k(" + a + ": 1) }", "{ kt(" + a + ": 1) }"})
	}
	return out
}()

type c10TwinInput struct {
	Doc   int `json:"doc"`
	First int `json:"first"` // the schema that sees the document first
}

var c10TwinSchemas [2]*ast.Schema

func c10Twin(c *explore.Ctx, s *explore.SubStats, in c10TwinInput) {
	if in.Doc < 0 || in.Doc >= len(c10TwinDocs) || in.First < 0 || in.First > 1 {
		return
	}
	if c10TwinSchemas[0] == nil {
		for i := range c10TwinSDL {
			sch, err := gqlparser.LoadSchema(&ast.Source{Name: "twin.graphql", Input: c10TwinSDL[i]})
			if err != nil {
				panic("C10: twin schema does not load: " + err.Error())
			}
			c10TwinSchemas[i] = sch
		}
	}
	verifhook.OrderPolicy, verifhook.Perm = 0, nil
	s.Executions++
	pair := c10TwinDocs[in.Doc]
	msgs := func(sch *ast.Schema, q string) string {
		d, err := parser.ParseQuery(&ast.Source{Name: "q.graphql", Input: q})
		if err != nil {
			return "parse: " + err.Error()
		}
		var b strings.Builder
		for _, e := range validator.Validate(sch, d) {
			b.WriteString(e.Rule + ": " + e.Message + "\n")
		}
		return b.String()
	}
	untwin := strings.NewReplacer("PetT", "Pet", "KindT", "Kind", `"kt"`, `"k"`, `"twin"`, `"pet"`, "Query.kt", "Query.k", "Query.twin", "Query.pet")
	other := 1 - in.First
	_ = msgs(c10TwinSchemas[in.First], pair[0])
	got := msgs(c10TwinSchemas[other], pair[0])
	want := untwin.Replace(msgs(c10TwinSchemas[other], pair[1]))
	s.Validated++
	if got != "" {
		s.Nontrivial++
	}
	s.Outcome(fmt.Sprintf("errors=%v", got != ""))
	if got != want {
		c.Report(s, explore.Violation{Key: "history/other-schema-with-the-same-names " + firstRule(got, want), Input: explore.J(in), Rendered: fmt.Sprintf("%s against schema %d after schema %d", pair[0], other, in.First),
			Detail: "the errors differ from those of the twin document, whose type / field names no earlier validation has used", Expected: want, Observed: got})
	}
}

func firstRule(a, b string) string {
	al, bl := strings.Split(a, "\n"), strings.Split(b, "\n")
	for i := 0; i < len(al) || i < len(bl); i++ {
		x, y := "", ""
		if i < len(al) {
			x = al[i]
		}
		if i < len(bl) {
			y = bl[i]
		}
		if x != y {
			if k := strings.Index(x+y, ":"); k > 0 {
				return "rule=" + (x + y)[:k]
			}
		}
	}
	return "rule=?"
}
