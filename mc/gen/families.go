package gen

import "strings"

// Family is a size-parametrised adversarial input family; Make(n) has Θ(n) bytes.
type Family struct {
	Name string
	SDL  bool // meant for the type-system grammar (both parsers are run anyway)
	Make func(n int) string
}

func rep(s string, n int) string { return strings.Repeat(s, n) }

// ParseFamilies: inputs aimed at the lexer and both parsers.
var ParseFamilies = []Family{
	{"nest-list", false, func(n int) string { return "{a(x:" + rep("[", n) + rep("]", n) + ")}" }},
	{"nest-object", false, func(n int) string { return "{a(x:" + rep("{a:", n) + "1" + rep("}", n) + ")}" }},
	{"nest-selection", false, func(n int) string { return rep("{a", n) + rep("}", n) }},
	{"nest-inline-fragment", false, func(n int) string { return "{" + rep("...{", n) + "a" + rep("}", n) + "}" }},
	{"nest-type", false, func(n int) string { return "query($v:" + rep("[", n) + "Int" + rep("]", n) + "){a}" }},
	{"unclosed-list", false, func(n int) string { return "{a(x:" + rep("[", n) }},
	{"unclosed-object", false, func(n int) string { return "{a(x:" + rep("{a:", n) }},
	{"unclosed-selection", false, func(n int) string { return rep("{a", n) }},
	{"unclosed-paren", false, func(n int) string { return rep("(", n) }},
	{"token-flood", false, func(n int) string { return "{" + rep("a ", n) + "}" }},
	{"operation-flood", false, func(n int) string { return rep("{a}", n) }},
	{"comment-flood", false, func(n int) string { return rep("#c\n", n) + "{a}" }},
	{"comma-flood", false, func(n int) string { return rep(",", n) + "{a}" }},
	{"crlf-flood", false, func(n int) string { return rep("\r\n", n) + "{a}" }},
	{"bom-flood", false, func(n int) string { return rep("\xef\xbb\xbf", n) + "{a}" }},
	{"giant-name", false, func(n int) string { return "{" + rep("a", n) + "}" }},
	{"giant-int", false, func(n int) string { return "{a(x:1" + rep("0", n) + ")}" }},
	{"giant-string", false, func(n int) string { return `{a(x:"` + rep("s", n) + `")}` }},
	{"giant-escapes", false, func(n int) string { return `{a(x:"` + rep(`é`, n) + `")}` }},
	{"giant-blockstring", false, func(n int) string { return `{a(x:"""` + rep(" s\n", n) + `""")}` }},
	{"blockstring-quotes", false, func(n int) string { return `{a(x:"""` + rep(`""\"`, n) + `""")}` }},
	{"giant-comment", false, func(n int) string { return "#" + rep("c", n) }},
	{"unterminated-string", false, func(n int) string { return `{a(x:"` + rep("s", n) }},
	{"directive-flood", false, func(n int) string { return "{a" + rep(" @d", n) + "}" }},
	{"argument-flood", false, func(n int) string { return "{a(" + rep("x:1 ", n) + ")}" }},
	{"variable-flood", false, func(n int) string { return "query(" + rep("$v:Int ", n) + "){a}" }},
	{"alias-chain", false, func(n int) string { return "{" + rep("a:", n) + "a}" }},
	{"invalid-bytes", false, func(n int) string { return rep("\x00", n) }},
	{"sdl-nest-type", true, func(n int) string { return "type A{f:" + rep("[", n) + "Int" + rep("]", n) + "}" }},
	{"sdl-nest-default", true, func(n int) string { return "input A{f:Int=" + rep("[", n) + rep("]", n) + "}" }},
	{"sdl-nest-directive-arg", true, func(n int) string { return "scalar A @d(x:" + rep("{a:", n) + "1" + rep("}", n) + ")" }},
	{"sdl-definition-flood", true, func(n int) string { return rep("type A{f:Int} ", n) }},
	{"sdl-extension-flood", true, func(n int) string { return rep("extend type A{f:Int} ", n) }},
	{"sdl-field-flood", true, func(n int) string { return "type A{" + rep("f(a:Int):Int ", n) + "}" }},
	{"sdl-description-flood", true, func(n int) string { return rep(`"d" `, n) + "scalar A" }},
	{"sdl-union-flood", true, func(n int) string { return "union U=" + rep("A|", n) + "A" }},
	{"sdl-implements-flood", true, func(n int) string { return "type A implements " + rep("I&", n) + "I{f:Int}" }},
	{"sdl-enum-flood", true, func(n int) string { return "enum E{" + rep("A ", n) + "}" }},
	{"sdl-location-flood", true, func(n int) string { return "directive @d on " + rep("FIELD|", n) + "FIELD" }},
	{"sdl-unclosed-args", true, func(n int) string { return "type A{f" + rep("(a:Int=[", n) }},
}
