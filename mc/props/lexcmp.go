package props

import (
	"fmt"
	"strconv"

	"github.com/vektah/gqlparser/v2/ast"
	"github.com/vektah/gqlparser/v2/lexer"

	"verif/mc/ref/reflex"
)

type implTok struct {
	Kind       string
	Start, End int
	Line, Col  int
	Value      string
}

type implLex struct {
	Toks    []implTok
	Failed  bool
	ErrMsg  string
	ErrLine int
	ErrCol  int
	Panic   *callResult
}

func kindName(k lexer.Type) string {
	switch k {
	case lexer.Name, lexer.Int, lexer.Float, lexer.String, lexer.BlockString, lexer.Comment:
		return k.Name()
	}
	return k.String()
}

func lexImpl(text string) implLex {
	var out implLex
	r := guarded(stepBudgetShort(len(text))*4, 0, func() {
		lx := lexer.New(&ast.Source{Input: text, Name: "f"})
		for i := 0; i <= len(text)+1; i++ {
			t, err := lx.ReadToken()
			if err != nil {
				out.Failed = true
				if ge, ok := errLocs(err); ok {
					out.ErrMsg = ge.Message
					if len(ge.Locations) > 0 {
						out.ErrLine, out.ErrCol = ge.Locations[0].Line, ge.Locations[0].Column
					}
				}
				return
			}
			if t.Kind == lexer.EOF {
				return
			}
			out.Toks = append(out.Toks, implTok{kindName(t.Kind), t.Pos.Start, t.Pos.End, t.Pos.Line, t.Pos.Column, t.Value})
		}
	})
	if r.Panicked {
		out.Panic = &r
	}
	return out
}

// lexDiff compares the implementation's token stream with the model's. It returns a
// description of the first difference in kinds/extents/values/failure point ("" if none)
// and of the first difference in line/column ("" if none).
func lexDiff(im implLex, m reflex.Result) (conform, position string) {
	conform, ps := lexDiffAll(im, m)
	if len(ps) > 0 {
		position = ps[0].Detail
	}
	return
}

type posDiff struct {
	Key    string
	Detail string
}

// lexDiffAll is lexDiff returning every line/column difference, each classified.
func lexDiffAll(im implLex, m reflex.Result) (conform string, positions []posDiff) {
	n := len(im.Toks)
	if len(m.Tokens) < n {
		n = len(m.Tokens)
	}
	for i := 0; i < n; i++ {
		a, b := im.Toks[i], m.Tokens[i]
		if conform == "" {
			switch {
			case a.Kind != b.Kind:
				conform = fmt.Sprintf("token %d: kind %s, grammar says %s", i, a.Kind, b.Kind)
			case a.Start != b.Start || a.End != b.End:
				conform = fmt.Sprintf("token %d (%s): extent [%d,%d), grammar says [%d,%d)", i, a.Kind, a.Start, a.End, b.Start, b.End)
			case a.Kind != "Comment" && a.Kind != b.Kind:
			case valueMatters(a.Kind) && a.Value != b.Value:
				conform = fmt.Sprintf("token %d (%s): value %s, grammar says %s", i, a.Kind, strconv.Quote(a.Value), strconv.Quote(b.Value))
			}
		}
		if conform != "" {
			// positions after a conformance difference are not comparable
			return
		}
		if a.Line != b.Line || a.Col != b.Col {
			key := "pos/token " + a.Kind + " column"
			if a.Line != b.Line {
				key = "pos/token " + a.Kind + " line"
			} else if a.Kind == "String" && a.Col == b.Col+1 {
				key = "pos/string-column-plus-one"
			}
			positions = append(positions, posDiff{key, fmt.Sprintf("token %d (%s) at offset %d: line %d column %d, source says line %d column %d", i, a.Kind, a.Start, a.Line, a.Col, b.Line, b.Col)})
		}
	}
	switch {
	case len(im.Toks) > len(m.Tokens):
		if m.FailAt == len(m.Tokens) {
			conform = fmt.Sprintf("token %d: lexer produced %s %q where the grammar admits no token", m.FailAt, im.Toks[m.FailAt].Kind, im.Toks[m.FailAt].Value)
		} else {
			conform = fmt.Sprintf("lexer produced %d tokens, grammar %d", len(im.Toks), len(m.Tokens))
		}
	case len(im.Toks) < len(m.Tokens):
		if im.Failed {
			conform = fmt.Sprintf("token %d: lexer failed (%s) where the grammar admits %s %q", len(im.Toks), im.ErrMsg, m.Tokens[len(im.Toks)].Kind, m.Tokens[len(im.Toks)].Value)
		} else {
			conform = fmt.Sprintf("lexer produced %d tokens, grammar %d", len(im.Toks), len(m.Tokens))
		}
	default:
		if im.Failed && m.FailAt == -1 {
			conform = fmt.Sprintf("lexer failed after %d tokens (%s) where the grammar reaches the end of input", len(im.Toks), im.ErrMsg)
		} else if !im.Failed && m.FailAt != -1 {
			conform = fmt.Sprintf("lexer reached the end of input after %d tokens where the grammar admits no token at offset %d", len(im.Toks), m.FailPos)
		}
	}
	return
}

func valueMatters(kind string) bool {
	switch kind {
	case "Name", "Int", "Float", "String", "BlockString":
		return true
	}
	return false
}

// extentOnlyDiff reports whether the implementation's token stream has the grammar's
// tokens (same count, kinds, values, same success/failure) but places some token at
// different character offsets. That is a position defect (C04), not a tokenisation one.
func extentOnlyDiff(im implLex, m reflex.Result) (key, detail string, ok bool) {
	if len(im.Toks) != len(m.Tokens) || im.Failed != (m.FailAt >= 0) {
		return "", "", false
	}
	for i := range im.Toks {
		a, b := im.Toks[i], m.Tokens[i]
		if a.Kind != b.Kind || (valueMatters(a.Kind) && a.Value != b.Value) {
			return "", "", false
		}
	}
	for i := range im.Toks {
		a, b := im.Toks[i], m.Tokens[i]
		if a.Start != b.Start || a.End != b.End {
			what := "start"
			if a.Start == b.Start {
				what = "end"
			}
			return "pos/token " + a.Kind + " offset-" + what, fmt.Sprintf("token %d (%s): offsets [%d,%d), the source has it at [%d,%d)", i, a.Kind, a.Start, a.End, b.Start, b.End), true
		}
	}
	return "", "", false
}

// positionReference returns the model token stream against which positions are judged: the
// strict grammar's, or — when the implementation's tokens (kinds, values, count, outcome)
// are exactly those of the grammar with a *recorded* lexical defect emulated — that one.
// ok is false when no such model has the implementation's tokens (a tokenisation
// difference, C03's business).
func positionReference(text string, im implLex) (m reflex.Result, ok bool) {
	same := func(m reflex.Result) bool {
		if len(im.Toks) != len(m.Tokens) || im.Failed != (m.FailAt >= 0) {
			return false
		}
		for i := range im.Toks {
			a, b := im.Toks[i], m.Tokens[i]
			if a.Kind != b.Kind || (valueMatters(a.Kind) && a.Value != b.Value) {
				return false
			}
		}
		return true
	}
	m = reflex.Lex(text, reflex.Defects{})
	if same(m) {
		return m, true
	}
	if d := reflex.Lex(text, reflex.Defects{BlockExtraQuotes: true}); same(d) {
		return d, true
	}
	return m, false
}
