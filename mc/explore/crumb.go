package explore

import (
	"encoding/binary"
	"os"
	"syscall"
)

// Breadcrumb: the case being executed is copied into a shared memory-mapped file before it
// runs, so that when a worker dies from something Go cannot recover (stack exhaustion,
// out of memory, runtime throw) the coordinator can name the input.

const crumbSize = 1 << 16

var crumb []byte

func OpenCrumb(path string) error {
	f, err := os.OpenFile(path, os.O_RDWR|os.O_CREATE|os.O_TRUNC, 0o644)
	if err != nil {
		return err
	}
	defer f.Close()
	if err := f.Truncate(crumbSize); err != nil {
		return err
	}
	b, err := syscall.Mmap(int(f.Fd()), 0, crumbSize, syscall.PROT_READ|syscall.PROT_WRITE, syscall.MAP_SHARED)
	if err != nil {
		return err
	}
	crumb = b
	return nil
}

// Crumb records "sub\x00case" as the case about to run.
func Crumb(sub, s string) {
	if crumb == nil {
		return
	}
	n := len(sub) + 1 + len(s)
	if n > crumbSize-4 {
		s = s[:crumbSize-4-len(sub)-1]
		n = crumbSize - 4
	}
	binary.LittleEndian.PutUint32(crumb, uint32(n))
	copy(crumb[4:], sub)
	crumb[4+len(sub)] = 0
	copy(crumb[5+len(sub):], s)
}

func ReadCrumb(path string) (sub, s string) {
	b, err := os.ReadFile(path)
	if err != nil || len(b) < 4 {
		return "", ""
	}
	n := int(binary.LittleEndian.Uint32(b))
	if n == 0 || n > len(b)-4 {
		return "", ""
	}
	b = b[4 : 4+n]
	for i, c := range b {
		if c == 0 {
			return string(b[:i]), string(b[i+1:])
		}
	}
	return "", string(b)
}
