package props

import (
	"encoding/json"
	"fmt"
	"reflect"
	"sort"
	"strings"
	"sync"
	"time"

	gqlparser "github.com/vektah/gqlparser/v2"
	"github.com/vektah/gqlparser/v2/ast"
	"github.com/vektah/gqlparser/v2/validator"

	"verif/mc/explore"
	"verif/mc/ref/refcoerce"
)

// C14: variable coercion is total and its results conform to the declared types.

func init() {
	register(&Prop{ID: "C14", Run: runC14, Replay: func(c *explore.Ctx, s *explore.SubStats, v explore.Violation) {
		var in c14Input
		if json.Unmarshal(v.Input, &in) == nil {
			c14Replay(c, s, in)
		}
	}, Assumptions: []string{
		"reference: ref/refcoerce, structural recursion over plain Go values transcribed from the input-coercion rules of the specification (null ⇔ nullable, list items conform, a single value coerces to a list of one at every list level, input objects hold only declared fields with every required field present, enums hold declared values)",
		"which Go kinds are compatible with a built-in scalar is taken from the library's documented table (Int ← ints, floats, integer strings; Float ← floats, ints, numeric strings; String ← string; Boolean ← bool; ID ← ints, string; json.Number counts as string); kinds outside it (unsigned, int8/16) are undecided",
		"undecided and therefore not compared: enum values that match a declared value only case-insensitively, a `__typename` key in an input object (the library tolerates both deliberately), numeric range of Int",
		"variables maps hold JSON-like Go values only (nil, bool, ints, floats, json.Number, strings, slices, typed slices, maps, typed maps); typed nil pointers are outside the property",
		"a refusal to coerce a coercible value is recorded (outcome class) but is not a violation: the property bounds what may be returned, it does not require acceptance",
	}})
}

// ---- type universe and schema -----------------------------------------------------------

var c14Named = []string{"Int", "Float", "String", "Boolean", "ID", "Kind", "In", "Any"}

var c14Schema = refcoerce.Schema{
	"Int": {Kind: "SCALAR"}, "Float": {Kind: "SCALAR"}, "String": {Kind: "SCALAR"}, "Boolean": {Kind: "SCALAR"}, "ID": {Kind: "SCALAR"}, "Any": {Kind: "SCALAR"},
	"Kind": {Kind: "ENUM", Values: []string{"DOG", "CAT"}},
	"Other": {Kind: "INPUT_OBJECT", Fields: []refcoerce.Field{
		{Name: "first", Type: &refcoerce.Type{Named: "Int"}},
		{Name: "z", Type: &refcoerce.Type{Named: "Int"}},
		{Name: "r", Type: &refcoerce.Type{Named: "Float"}},
	}},
	"In": {Kind: "INPUT_OBJECT", Fields: []refcoerce.Field{
		{Name: "aa", Type: &refcoerce.Type{Named: "Other"}},
		{Name: "a", Type: &refcoerce.Type{Named: "Int"}},
		{Name: "b", Type: &refcoerce.Type{Named: "String", NonNull: true}},
		{Name: "c", Type: &refcoerce.Type{Elem: &refcoerce.Type{Named: "In"}}},
		{Name: "d", Type: &refcoerce.Type{Named: "In"}},
		{Name: "e", Type: &refcoerce.Type{Named: "Int", NonNull: true}, HasDefault: true},
		{Name: "k", Type: &refcoerce.Type{Named: "Kind"}},
		{Name: "m", Type: &refcoerce.Type{Elem: &refcoerce.Type{Elem: &refcoerce.Type{Named: "Int", NonNull: true}}}},
	}},
}

// c14Types: list depth ≤ 3 × every non-null pattern × every named type (240 types).
func c14Types() []*refcoerce.Type {
	var out []*refcoerce.Type
	for _, n := range c14Named {
		for depth := 0; depth <= 3; depth++ {
			for mask := 0; mask < 1<<(depth+1); mask++ {
				t := &refcoerce.Type{Named: n, NonNull: mask&1 != 0}
				for d := 1; d <= depth; d++ {
					t = &refcoerce.Type{Elem: t, NonNull: mask&(1<<d) != 0}
				}
				out = append(out, t)
			}
		}
	}
	return out
}

type c14Env struct {
	schema *ast.Schema
	types  []*refcoerce.Type
	ops    map[string]*ast.OperationDefinition // key: type index + default flag
}

var (
	c14Once sync.Once
	c14E    *c14Env
)

func defaultLit(t *refcoerce.Type) (string, any) {
	if t.Elem != nil {
		l, v := defaultLit(t.Elem)
		return "[" + l + "]", []any{v}
	}
	switch t.Named {
	case "Int":
		return "1", int64(1)
	case "Float":
		return "1.5", 1.5
	case "String":
		return `"s"`, "s"
	case "Boolean":
		return "true", true
	case "ID":
		return `"id"`, "id"
	case "Kind":
		return "DOG", "DOG"
	case "In":
		return `{b: "s"}`, map[string]any{"b": "s"}
	}
	return `"any"`, "any"
}

func c14Setup() *c14Env {
	c14Once.Do(func() {
		e := &c14Env{types: c14Types(), ops: map[string]*ast.OperationDefinition{}}
		var sb strings.Builder
		sb.WriteString("scalar Any\nenum Kind { DOG CAT }\ninput Other { first: Int z: Int r: Float }\ninput In { aa: Other a: Int b: String! c: [In] d: In e: Int! = 5 k: Kind m: [[Int!]] }\ntype Query {\n")
		for i, t := range e.types {
			fmt.Fprintf(&sb, "  t%d(x: %s): Int\n", i, t.String())
		}
		sb.WriteString("}\n")
		sch, err := gqlparser.LoadSchema(&ast.Source{Name: "c14.graphql", Input: sb.String()})
		if err != nil {
			panic("C14 schema does not load: " + err.Error())
		}
		e.schema = sch
		c14E = e
	})
	return c14E
}

// op returns a freshly parsed and validated operation `query Q($u: Int = 3, $v: T [= default]) { t<i>(x: $v) u: t0(x: $u) }`.
// bareDefault: set while the "absent+bare-default" mode runs — the default literal is then
// the innermost single value, which input coercion must wrap into the declared list type.
var c14DefVariant string // "" = the canonical default literal; else one of c14DefVariants

// c14DefVariants: other ways to write a default for a type, each with the value an absent
// variable must then hold. ok is false where the variant does not apply to the type.
var c14DefVariants = []string{"bare", "empty", "empty2", "null", "nullitem", "intfloat", "object2"}

func defaultVariant(t *refcoerce.Type, variant string) (lit string, val any, ok bool) {
	inner := t
	depth := 0
	for inner.Elem != nil {
		inner = inner.Elem
		depth++
	}
	wrap := func(l string, v any, d int) (string, any) {
		for i := 0; i < d; i++ {
			l, v = "["+l+"]", []any{v}
		}
		return l, v
	}
	switch variant {
	case "":
		l, v := defaultLit(t)
		return l, v, true
	case "bare": // a single value where a list is declared: comes back wrapped to the declared depth
		if depth == 0 {
			return "", nil, false
		}
		l, _ := defaultLit(&refcoerce.Type{Named: inner.Named})
		_, v := defaultLit(t)
		return l, v, true
	case "empty":
		if depth == 0 {
			return "", nil, false
		}
		return "[]", []any{}, true
	case "empty2":
		if depth < 2 {
			return "", nil, false
		}
		return "[[]]", []any{[]any{}}, true
	case "null":
		if t.NonNull {
			return "", nil, false
		}
		return "null", nil, true
	case "nullitem":
		if depth == 0 || t.Elem.NonNull {
			return "", nil, false
		}
		return "[null]", []any{nil}, true
	case "intfloat":
		if inner.Named != "Float" {
			return "", nil, false
		}
		l, v := wrap("2", 2.0, depth)
		return l, v, true
	case "object2":
		if inner.Named != "In" {
			return "", nil, false
		}
		l, v := wrap(`{b: "s", k: CAT, c: []}`, map[string]any{"b": "s", "k": "CAT", "c": []any{}}, depth)
		return l, v, true
	}
	return "", nil, false
}

func (e *c14Env) op(i int, withDefault bool) *ast.OperationDefinition {
	t := e.types[i]
	def := ""
	if withDefault {
		l, _, _ := defaultVariant(t, c14DefVariant)
		def = " = " + l
	}
	q := fmt.Sprintf("query Q($u: Int = 3, $v: %s%s) { t%d(x: $v) u: t0(x: $u) }", t.String(), def, i)
	doc, errs := gqlparser.LoadQuery(e.schema, q)
	if errs != nil {
		panic("C14 operation does not validate: " + q + ": " + errs.Error())
	}
	return doc.Operations[0]
}

// ---- value generation under the chooser ----------------------------------------------------

type typedMap map[string]string

type namedStr string
type namedInt int64

// leafAlts: alternatives for a named type; index 0 is the canonical conforming value.
func leafAlts(name string) []any {
	canon := map[string]any{"Int": 1, "Float": 1.5, "String": "s", "Boolean": true, "ID": "id", "Kind": "DOG", "Any": "any"}[name]
	alts := []any{canon, nil, int64(2), int32(3), 2.5, float32(3.5), "7", "x", false, json.Number("5"), json.Number("1.5"), json.Number("zz"), "dog", "CAT", "BAD", "9223372036854775808", json.Number("-9999999999999999999"),
		[]any{}, []any{1}, map[string]any{}, map[string]any{"b": "s"}, uint8(4), []int{1, 2}, []string{"a"},
		namedStr("DOG"), namedStr("zz"), namedStr("12"), namedInt(3)} // strings and ints of a named Go type (what a generated client passes)
	return alts
}

func genValue(ch *explore.Chooser, s refcoerce.Schema, t *refcoerce.Type, nest int) any {
	if t.Elem != nil {
		switch ch.Deviate(12) {
		case 7:
			// typed Go slices (what a caller who builds variables by hand passes): the first item conforms
			// for some leaf type, a later one does not
			return []string{"DOG", "7", "zz"}
		case 8:
			return []json.Number{"1", "2", "abc"}
		case 9:
			return []int64{1, 2}
		case 10:
			return []string{"DOG", "CAT"}
		case 11:
			return []float64{1.5, 2}
		case 0:
			if nest == 0 {
				return []any{genValue(ch, s, t.Elem, nest+1), genValue(ch, s, t.Elem, nest+1)}
			}
			return []any{genValue(ch, s, t.Elem, nest+1)}
		case 1:
			return nil
		case 2:
			return []any{}
		case 3:
			return []any{genValue(ch, s, t.Elem, nest+1)}
		case 4:
			return genValue(ch, s, t.Elem, nest+1) // a single value where a list is expected
		case 5:
			return []any{nil}
		default:
			return []any{genValue(ch, s, t.Elem, nest+1), nil}
		}
	}
	if t.Named != "In" {
		a := leafAlts(t.Named)
		return a[ch.Deviate(len(a))]
	}
	base := func() map[string]any {
		m := map[string]any{"b": "s"}
		if nest <= 1 {
			m["a"] = genValue(ch, s, &refcoerce.Type{Named: "Int"}, nest+2)
			m["b"] = genValue(ch, s, &refcoerce.Type{Named: "String", NonNull: true}, nest+2)
		}
		return m
	}
	switch ch.Deviate(26) {
	case 0:
		return base()
	case 1:
		return nil
	case 2:
		return map[string]any{"a": 1} // required b missing
	case 3:
		m := base()
		m["zz"] = 1
		return m
	case 4:
		m := base()
		m["__typename"] = "In"
		return m
	case 5:
		return "x"
	case 6:
		return []any{base()}
	case 7:
		return typedMap{"b": "s"}
	case 8:
		m := base()
		m["a"] = nil
		return m
	case 9:
		m := base()
		m["b"] = nil
		return m
	case 10:
		m := base()
		m["e"] = nil // non-null field with a default, explicitly null
		return m
	case 11:
		m := base()
		m["e"] = 7
		m["k"] = genValue(ch, s, &refcoerce.Type{Named: "Kind"}, nest+2)
		return m
	case 12:
		m := base()
		if nest <= 1 {
			m["d"] = genValue(ch, s, &refcoerce.Type{Named: "In"}, nest+2)
		}
		return m
	case 13:
		m := base()
		if nest <= 1 {
			m["c"] = genValue(ch, s, &refcoerce.Type{Elem: &refcoerce.Type{Named: "In"}}, nest+2)
		}
		return m
	case 14:
		m := base()
		m["m"] = genValue(ch, s, &refcoerce.Type{Elem: &refcoerce.Type{Elem: &refcoerce.Type{Named: "Int", NonNull: true}}}, nest+1)
		return m
	case 15:
		return map[string]any{}
	case 16:
		m := base()
		m["__x"] = 1 // not a declared field, whatever its spelling
		return m
	case 17:
		// one Go map used at two positions of different declared types: it conforms to Other (aa)
		// but not to In (d: required b missing)
		shared := map[string]any{"first": 10}
		m := base()
		m["aa"] = shared
		m["d"] = shared
		return m
	case 18:
		shared := map[string]any{"first": 10}
		m := base()
		m["aa"] = shared
		m["c"] = []any{shared}
		return m
	case 19:
		m := base()
		m["aa"] = map[string]any{"first": 1, "z": nil}
		return m
	case 20:
		// maps with an element type of the caller's: integers are valid Float input
		m := base()
		m["aa"] = map[string]int{"first": 1, "r": 2}
		return m
	case 21:
		m := base()
		m["aa"] = map[string]int64{"r": 3, "z": 4}
		return m
	case 22:
		m := base()
		m["aa"] = map[string]float64{"r": 1.5}
		return m
	case 23:
		// an undeclared key whose value is an explicit null
		m := base()
		m["zz"] = nil
		return m
	case 24:
		// a declared key in another case, holding null
		m := base()
		m["B"] = nil
		return m
	default:
		m := base()
		var np *int
		m["zz"] = np // an undeclared key holding a nil pointer
		return m
	}
}

// goRepr renders a Go value with its dynamic types (deterministic).
func goRepr(v any) string {
	if v == nil {
		return "nil"
	}
	rv := reflect.ValueOf(v)
	switch rv.Kind() {
	case reflect.Slice:
		var xs []string
		for i := 0; i < rv.Len(); i++ {
			xs = append(xs, goRepr(rv.Index(i).Interface()))
		}
		return rv.Type().String() + "{" + strings.Join(xs, ", ") + "}"
	case reflect.Map:
		var ks []string
		for _, k := range rv.MapKeys() {
			ks = append(ks, k.String())
		}
		sort.Strings(ks)
		var xs []string
		for _, k := range ks {
			xs = append(xs, fmt.Sprintf("%q: %s", k, goRepr(rv.MapIndex(reflect.ValueOf(k)).Interface())))
		}
		return rv.Type().String() + "{" + strings.Join(xs, ", ") + "}"
	case reflect.String:
		return fmt.Sprintf("%s(%q)", rv.Type().String(), rv.String())
	}
	return fmt.Sprintf("%s(%v)", rv.Type().String(), v)
}

type c14Input struct {
	Variant string `json:"default_variant,omitempty"`
	TypeIdx int    `json:"type_index"`
	Type    string `json:"type"`
	Mode    string `json:"mode"` // supplied | supplied+default | absent | absent+default | null | null+default
	Choices []int  `json:"choices,omitempty"`
	Value   string `json:"value,omitempty"`
}

func c14Replay(c *explore.Ctx, s *explore.SubStats, in c14Input) {
	e := c14Setup()
	if in.TypeIdx < 0 || in.TypeIdx >= len(e.types) {
		return
	}
	if strings.HasPrefix(in.Mode, "supplied") {
		// replay the recorded choice vector
		ch := explore.NewReplayChooser(in.Choices)
		v := genValue(ch, c14Schema, e.types[in.TypeIdx], 0)
		c14Case(c, s, e, in.TypeIdx, in.Mode, v, true, ch.Choices())
		return
	}
	c14DefVariant = in.Variant
	c14Case(c, s, e, in.TypeIdx, in.Mode, nil, false, nil)
	c14DefVariant = ""
}

func c14Case(c *explore.Ctx, s *explore.SubStats, e *c14Env, ti int, mode string, val any, supplied bool, choices []int) {
	t := e.types[ti]
	withDefault := strings.HasSuffix(mode, "+default")
	op := e.op(ti, withDefault)
	vars := map[string]any{}
	repr := ""
	switch {
	case supplied:
		vars["v"] = val
		repr = goRepr(val)
	case strings.HasPrefix(mode, "null"):
		vars["v"] = nil
		repr = "nil"
	default:
		repr = "(absent)"
	}
	in := c14Input{c14DefVariant, ti, t.String(), mode, choices, repr}
	if c14DefVariant != "" {
		l, _, _ := defaultVariant(t, c14DefVariant)
		repr += " (default written as " + l + ")"
	}
	rendered := fmt.Sprintf("$v: %s  mode=%s  value=%s", t.String(), mode, repr)
	explore.Crumb(s.Name, rendered)
	s.Executions++
	bad := func(key, detail string) {
		c.Report(s, explore.Violation{Key: key, Input: explore.J(in), Rendered: rendered, Detail: detail})
	}
	// the reference verdict is computed before the call: the library coerces in place
	coercible := refcoerce.Yes
	whyNot := ""
	if supplied {
		coercible = c14Schema.Coercible(val, t)
		whyNot = refcoerce.LastWhy
	} else if strings.HasPrefix(mode, "null") {
		coercible = c14Schema.Coercible(nil, t)
		whyNot = refcoerce.LastWhy
	} else if !withDefault && t.NonNull {
		coercible, whyNot = refcoerce.No, "required variable absent"
	}
	var out map[string]any
	var err error
	r := guarded(200000, 0, func() { out, err = validator.VariableValues(e.schema, op, vars) })
	if r.Panicked {
		key := "panic site=" + r.Site + " msg=" + normMsg(r.PanicVal)
		bad(key+c14PanicTrigger(val, t), fmt.Sprintf("VariableValues panicked: %s\n%s", r.PanicVal, trimStack(r.Stack)))
		s.Outcome("panic")
		return
	}
	s.Validated++
	shape := typeShape(t)
	if err != nil {
		if err.Error() == "" {
			bad("error/empty-message", "coercion error with an empty message")
		}
		if !supplied && mode == "absent+default" {
			// the operation passed validation, so its default is a value of the type: an absent variable takes it
			bad("coerce/default-refused shape="+shape, fmt.Sprintf("absent variable with a valid default: VariableValues returned the error %q", err.Error()))
		}
		if coercible == refcoerce.Yes {
			s.Outcome("refused-coercible " + shape)
		} else {
			s.Outcome("error " + shape)
		}
		return
	}
	if coercible == refcoerce.No {
		bad("coerce/accepts-uncoercible why="+whyNot+" shape="+shape, fmt.Sprintf("the supplied value cannot conform to %s (%s) but values were returned: %s", t.String(), whyNot, goRepr(out["v"])))
		s.Outcome("false-accept " + shape)
		return
	}
	// every declared variable conforms
	got, present := out["v"]
	switch {
	case supplied || strings.HasPrefix(mode, "null"):
		if !present {
			bad("coerce/supplied-variable-missing shape="+shape, "a supplied variable is missing from the returned values")
		}
	case withDefault:
		_, dv, _ := defaultVariant(t, c14DefVariant)
		if dv == nil {
			// a null default: the variable is null (whether or not the key is present)
			if got != nil {
				bad("coerce/default-not-applied shape="+shape, fmt.Sprintf("absent variable with default null: expected nil, got %s", goRepr(got)))
			}
		} else if !present || got == nil || !reflect.DeepEqual(normNum(normAny(got)), normNum(normAny(dv))) {
			bad("coerce/default-not-applied shape="+shape, fmt.Sprintf("absent variable with default: expected %s, got %s (present=%v)", goRepr(dv), goRepr(got), present))
		}
	default:
		if present && got != nil {
			bad("coerce/absent-variable-has-value", fmt.Sprintf("absent variable without default came back as %s", goRepr(got)))
		}
	}
	if present {
		if v := c14Schema.Conforms(got, t); v == refcoerce.No {
			bad("coerce/nonconforming why="+refcoerce.LastWhy+" shape="+shape, fmt.Sprintf("returned value %s does not conform to %s: %s", goRepr(got), t.String(), refcoerce.LastWhy))
			s.Outcome("nonconforming " + shape)
			return
		} else if v == refcoerce.Undecided {
			s.Undecided++
		}
	}
	if u, ok := out["u"]; !ok || !reflect.DeepEqual(normNum(u), normNum(int64(3))) {
		bad("coerce/default-not-applied other-variable", fmt.Sprintf("absent $u: Int = 3 came back as %s (present=%v)", goRepr(u), ok))
	}
	s.Nontrivial++
	s.Outcome("ok " + shape)
	s.Sample(func() any { return in })
}

func typeShape(t *refcoerce.Type) string {
	d := 0
	for x := t; x.Elem != nil; x = x.Elem {
		d++
	}
	n := t
	for n.Elem != nil {
		n = n.Elem
	}
	return fmt.Sprintf("%s/depth%d", n.Named, d)
}

// c14PanicTrigger: the input feature that sets off a panic (part of the cause key).
func c14PanicTrigger(val any, t *refcoerce.Type) string {
	var walk func(v any, t *refcoerce.Type) string
	walk = func(v any, t *refcoerce.Type) string {
		if t == nil {
			return ""
		}
		if t.Elem != nil {
			rv := reflect.ValueOf(v)
			if v != nil && rv.Kind() == reflect.Slice {
				for i := 0; i < rv.Len(); i++ {
					x := rv.Index(i).Interface()
					if x == nil && t.Elem.Elem != nil {
						return " trigger=null-item-where-list-expected"
					}
					if r := walk(x, t.Elem); r != "" {
						return r
					}
				}
			}
		}
		return ""
	}
	return walk(val, t)
}

// normNum folds numeric types so that expected defaults compare by value.
func normNum(v any) any {
	switch x := v.(type) {
	case int:
		return float64(x)
	case int64:
		return float64(x)
	case int32:
		return float64(x)
	case []any:
		out := make([]any, len(x))
		for i := range x {
			out[i] = normNum(x[i])
		}
		return out
	case map[string]any:
		out := map[string]any{}
		for k, e := range x {
			out[k] = normNum(e)
		}
		return out
	}
	return v
}

func runC14(c *explore.Ctx) {
	e := c14Setup()
	bound := c.Pick(2, 4)
	s := c.Sub("values", fmt.Sprintf("all %d variable types (list depth ≤ 3 × every non-null pattern × {Int, Float, String, Boolean, ID, enum, recursive input object, custom scalar}) × every value reachable from the conforming skeleton by ≤ %d deviations (null, empty list, single value for list, null item, each of 22 leaf alternatives incl. json.Number forms and typed slices, 19 input-object variants incl. unknown / missing / null / __typename / other __-prefixed fields, typed map, nested objects and lists, one map instance used at two positions of different types) × {no default, default}", len(e.types), bound),
		"VariableValues returns normally; if the value cannot be coerced (ref/refcoerce) an error is returned; on success every declared variable conforms to its type and the absent second variable holds its default", "executions that return values")
	if s != nil {
		t0 := time.Now()
		for ti := range e.types {
			if ti%c.NShards != c.Shard {
				continue
			}
			if c.Expired() {
				s.Cap("deadline")
				break
			}
			for _, mode := range []string{"supplied", "supplied+default"} {
				if mode == "supplied+default" && !c.Thorough() && ti%4 != 0 {
					continue
				}
				ts, err := explore.Tree(bound, 0, 1, c.Expired, func(ch *explore.Chooser) {
					v := genValue(ch, c14Schema, e.types[ti], 0)
					c14Case(c, s, e, ti, mode, v, true, ch.Choices())
				})
				if err != nil {
					panic("C14 harness is nondeterministic: " + err.Error())
				}
				s.States += ts.States
				s.Transitions += ts.Transitions
				if !ts.Complete {
					s.Cap("deadline")
				}
			}
		}
		s.WallS = time.Since(t0).Seconds()
	}
	s = c.Sub("absent-null", fmt.Sprintf("all %d variable types × {absent, absent with default, explicit null, explicit null with default}", len(e.types)),
		"absent non-null without default and explicit null for non-null are errors; absent with default yields the default (also when the default literal is a single value for a list type: it comes back wrapped to the declared depth); explicit null stays null", "every case")
	if s != nil {
		for ti := range e.types {
			if ti%c.NShards != c.Shard {
				continue
			}
			for _, mode := range []string{"absent", "absent+default", "null", "null+default"} {
				s.States++
				s.Transitions++
				c14Case(c, s, e, ti, mode, nil, false, nil)
			}
			// the default written in other ways: a single value for a list type (comes back wrapped),
			// empty lists, null, a null item, an Int for a Float, a fuller input object
			for _, variant := range c14DefVariants {
				if _, _, ok := defaultVariant(e.types[ti], variant); !ok {
					continue
				}
				c14DefVariant = variant
				s.States++
				s.Transitions++
				c14Case(c, s, e, ti, "absent+default", nil, false, nil)
				c14Case(c, s, e, ti, "null+default", nil, false, nil)
				c14DefVariant = ""
			}
		}
	}
}
