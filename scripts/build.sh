#!/bin/bash
# Rebuild the instrumented harness from /repo's current working tree.
#   build.sh            → /verif/bin/mc      (instrumented: step counter, map-order seam, store/global hooks)
#   build.sh plain      → /verif/bin/mc-plain (same harness, repository code untouched; hooks idle)
#   build.sh race       → /verif/bin/mc-race  (plain + -race, for the free-running auxiliary pass)
set -e
. "$(dirname "$0")/env.sh"
mode="${1:-inst}"
cd "$VERIF_ROOT/mc"
mkdir -p "$VERIF_ROOT/bin" "$VERIF_ROOT/.work"
if [ ! -x "$VERIF_ROOT/bin/instrument" ] || [ -n "$(find instrument -newer "$VERIF_ROOT/bin/instrument" -name '*.go' 2>/dev/null)" ]; then
  go build -o "$VERIF_ROOT/bin/instrument" ./instrument
fi
case "$mode" in
  inst)
    rm -rf "$VERIF_ROOT/.work/inst"
    "$VERIF_ROOT/bin/instrument" -repo "$VERIF_REPO" -out "$VERIF_ROOT/.work/inst" -hooksrc "$VERIF_ROOT/mc/hooksrc/hook.go.src"
    go build -overlay "$VERIF_ROOT/.work/inst/overlay.json" -o "$VERIF_ROOT/bin/mc" ./cmd/mc ;;
  plain)
    rm -rf "$VERIF_ROOT/.work/plain"
    "$VERIF_ROOT/bin/instrument" -plain -repo "$VERIF_REPO" -out "$VERIF_ROOT/.work/plain" -hooksrc "$VERIF_ROOT/mc/hooksrc/hook.go.src"
    go build -overlay "$VERIF_ROOT/.work/plain/overlay.json" -o "$VERIF_ROOT/bin/mc-plain" ./cmd/mc ;;
  race)
    rm -rf "$VERIF_ROOT/.work/plain"
    "$VERIF_ROOT/bin/instrument" -plain -repo "$VERIF_REPO" -out "$VERIF_ROOT/.work/plain" -hooksrc "$VERIF_ROOT/mc/hooksrc/hook.go.src"
    go build -race -overlay "$VERIF_ROOT/.work/plain/overlay.json" -o "$VERIF_ROOT/bin/mc-race" ./cmd/mc ;;
esac
