package refgrammar

import (
	"fmt"
	"sort"
)

// ---- all-paths recogniser -------------------------------------------------------------

type res struct {
	end int
	val string
}

type parseState struct {
	g     *Grammar
	toks  []Tok
	memo  map[memoKey][]res
	ambig string
}

type memoKey struct {
	nt string
	i  int
}

// ParseResult of the reference recogniser.
type ParseResult struct {
	OK        bool
	Tree      string // canonical projection when OK
	Ambiguous string // non-empty: the grammar data derived the input in two ways (a model bug)
	// Furthest is the largest token index i such that toks[:i] is a viable prefix as far
	// as the recogniser got (diagnosis only).
	Furthest int
}

func (g *Grammar) Parse(toks []Tok) ParseResult {
	ps := &parseState{g: g, toks: toks, memo: map[memoKey][]res{}}
	rs := ps.nt(g.Start, 0)
	out := ParseResult{Ambiguous: ps.ambig}
	for k := range ps.memo {
		for _, r := range ps.memo[k] {
			if r.end > out.Furthest {
				out.Furthest = r.end
			}
		}
	}
	for _, r := range rs {
		if r.end == len(toks) {
			out.OK = true
			out.Tree = r.val
		}
	}
	return out
}

func (ps *parseState) nt(name string, i int) []res {
	key := memoKey{name, i}
	if r, ok := ps.memo[key]; ok {
		return r
	}
	ps.memo[key] = nil // no left recursion by construction; guards against it anyway
	var out []res
	add := func(end int, val string) {
		for _, o := range out {
			if o.end == end {
				if o.val != val && ps.ambig == "" {
					ps.ambig = fmt.Sprintf("%s at %d..%d: %s | %s", name, i, end, o.val, val)
				}
				return
			}
		}
		out = append(out, res{end, val})
	}
	for _, a := range ps.g.Rules[name] {
		a := a
		k := make([][]string, len(a.Syms))
		var seq func(idx, pos int)
		seq = func(idx, pos int) {
			if idx == len(a.Syms) {
				kk := make([][]string, len(k))
				copy(kk, k)
				add(pos, a.Build(kk))
				return
			}
			s := a.Syms[idx]
			if s.Opt {
				k[idx] = nil
				seq(idx+1, pos)
			}
			if !s.Plus {
				for _, r := range ps.once(s, pos) {
					k[idx] = []string{r.val}
					seq(idx+1, r.end)
				}
				return
			}
			var rep func(pos int, acc []string)
			rep = func(pos int, acc []string) {
				for _, r := range ps.once(s, pos) {
					if r.end <= pos {
						panic("refgrammar: nullable repetition in " + name)
					}
					na := append(append([]string{}, acc...), r.val)
					k[idx] = na
					seq(idx+1, r.end)
					rep(r.end, na)
				}
			}
			rep(pos, nil)
		}
		seq(0, i)
	}
	ps.memo[key] = out
	return out
}

func (ps *parseState) once(s Sym, pos int) []res {
	if s.T != nil {
		if pos < len(ps.toks) && s.T.Match(ps.toks[pos]) {
			return []res{{pos + 1, s.T.Text(ps.toks[pos])}}
		}
		return nil
	}
	return ps.nt(s.NT, pos)
}

// ---- bottom-up enumerator -------------------------------------------------------------

// Sentence is one derivable token-class sequence with its tree.
type Sentence struct {
	Classes []byte // indices into the alphabet
	Tree    string
}

type item struct {
	seq string // class indices as bytes
	val string
}

type enumState struct {
	g        *Grammar
	alpha    []Tok
	restrict bool
	memo     map[string][][]item // nt → per length → items
	maxLen   int
	termCls  map[*Term][]int
}

// Enumerate yields every sentence of 1..n tokens derivable from the start symbol over the
// given alphabet (one Tok per class), with its tree. With restrict, generic name
// terminals only expand to non-keyword names (the grammar G¹ of DESIGN.md).
// It panics if the grammar data derives a sentence with two different trees.
func (g *Grammar) Enumerate(alpha []Tok, n int, restrict bool) []Sentence {
	if len(alpha) > 255 {
		panic("alphabet too large")
	}
	es := &enumState{g: g, alpha: alpha, restrict: restrict, memo: map[string][][]item{}, maxLen: n, termCls: map[*Term][]int{}}
	var out []Sentence
	seen := map[string]string{}
	for l := 1; l <= n; l++ {
		for _, it := range es.gen(g.Start, l) {
			if prev, dup := seen[it.seq]; dup {
				if prev != it.val {
					panic(fmt.Sprintf("refgrammar: grammar %s is ambiguous on %v: %s | %s", g.Name, []byte(it.seq), prev, it.val))
				}
				continue
			}
			seen[it.seq] = it.val
			out = append(out, Sentence{Classes: []byte(it.seq), Tree: it.val})
		}
	}
	return out
}

func (es *enumState) classes(t *Term) []int {
	if c, ok := es.termCls[t]; ok {
		return c
	}
	var c []int
	for i, a := range es.alpha {
		if !t.Match(a) {
			continue
		}
		if es.restrict && t.Narrow != nil && !t.Narrow(a) {
			continue
		}
		c = append(c, i)
	}
	es.termCls[t] = c
	return c
}

// gen returns the items of exactly length l derivable from nt.
func (es *enumState) gen(name string, l int) []item {
	tab, ok := es.memo[name]
	if !ok {
		tab = make([][]item, es.maxLen+1)
		es.memo[name] = tab
	}
	if tab[l] != nil {
		return tab[l]
	}
	tab[l] = []item{} // non-nil marker (grammars are not left-recursive)
	var out []item
	for _, a := range es.g.Rules[name] {
		a := a
		k := make([][]string, len(a.Syms))
		var seq func(idx, left int, pre string)
		seq = func(idx, left int, pre string) {
			if idx == len(a.Syms) {
				if left == 0 {
					kk := make([][]string, len(k))
					copy(kk, k)
					out = append(out, item{pre, a.Build(kk)})
				}
				return
			}
			// minimal length still needed by the remaining mandatory symbols
			need := 0
			for _, s := range a.Syms[idx+1:] {
				if !s.Opt {
					need++
				}
			}
			s := a.Syms[idx]
			if s.Opt {
				k[idx] = nil
				seq(idx+1, left, pre)
			}
			if !s.Plus {
				for l1 := 1; l1 <= left-need; l1++ {
					for _, it := range es.onceLen(s, l1) {
						k[idx] = []string{it.val}
						seq(idx+1, left-l1, pre+it.seq)
					}
				}
				return
			}
			var rep func(left int, pre string, acc []string)
			rep = func(left int, pre string, acc []string) {
				for l1 := 1; l1 <= left-need; l1++ {
					for _, it := range es.onceLen(s, l1) {
						na := append(append([]string{}, acc...), it.val)
						k[idx] = na
						seq(idx+1, left-l1, pre+it.seq)
						rep(left-l1, pre+it.seq, na)
					}
				}
			}
			rep(left, pre, nil)
		}
		seq(0, l, "")
	}
	es.memo[name][l] = out
	return out
}

func (es *enumState) onceLen(s Sym, l int) []item {
	if s.T != nil {
		if l != 1 {
			return nil
		}
		var out []item
		for _, c := range es.classes(s.T) {
			out = append(out, item{string([]byte{byte(c)}), s.T.Text(es.alpha[c])})
		}
		return out
	}
	return es.gen(s.NT, l)
}

// Index builds a lookup table sentence → tree.
func Index(ss []Sentence) map[string]string {
	m := make(map[string]string, len(ss))
	for _, s := range ss {
		m[string(s.Classes)] = s.Tree
	}
	return m
}

// SortSentences orders by length, then class sequence (simplest first).
func SortSentences(ss []Sentence) {
	sort.Slice(ss, func(i, j int) bool {
		if len(ss[i].Classes) != len(ss[j].Classes) {
			return len(ss[i].Classes) < len(ss[j].Classes)
		}
		return string(ss[i].Classes) < string(ss[j].Classes)
	})
}
