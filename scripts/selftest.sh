#!/bin/bash
# selftest.sh [name-prefix]  — demonstrate detection: for every confirmed seeded change under /verif/seeded,
# re-confirm it in a scratch worktree (suite green, demo fails with / passes without) and run the check(s) it
# breaks with the change applied to /repo (undone straight afterwards). Writes evidence/selftest.json.
. "$(dirname "$0")/env.sh"
cd "$VERIF_ROOT"
out="[]"
for d in seeded/${1:-}*/; do
  name="$(basename "$d")"
  conf="$(scripts/seed_verify.sh "$d" 2>&1 | grep '^SEED ' | head -1)"
  ok=false; echo "$conf" | grep -q "apply=ok suite_exit=0 demo_with_exit=1 demo_without_exit=0" && ok=true
  for id in $(python3 -c "import json,sys; m=json.load(open('$d/meta.json')); print(' '.join(k.split()[0] for k,v in m['detected_by'].items() if 'not run' not in v))"); do
    res="$(scripts/seed_run.sh "$d" "$id" quick 2>&1 | grep '^SEEDRUN' | tail -1)"
    caught=false; echo "$res" | grep -q "exit=1" && caught=true
    echo "$name $id confirmed=$ok caught=$caught"
    out="$(python3 -c "import json,sys; a=json.loads(sys.argv[1]); a.append({'seed':sys.argv[2],'check':sys.argv[3],'confirmed':sys.argv[4]=='true','caught':sys.argv[5]=='true'}); print(json.dumps(a))" "$out" "$name" "$id" "$ok" "$caught")"
  done
done
python3 -c "import json,sys; a=json.loads(sys.argv[1]); json.dump({'seeds':a,'all_confirmed':all(x['confirmed'] for x in a),'all_caught':all(x['caught'] for x in a)}, open('evidence/selftest.json','w'), indent=1); print('selftest:', sum(x['caught'] for x in a), 'of', len(a), 'caught;', sum(x['confirmed'] for x in a), 'confirmed')" "$out"
