package gen

import "strings"

// Validation kit: schemas and document profiles. A profile is a document template with
// holes §0 §1 …; each hole has a menu whose first entry keeps the document valid. The
// space of a profile is the full product of its menus (or, when MaxDev > 0, every filling
// with at most MaxDev non-default holes). Whether a document is valid is decided by
// ref/refvalid, never by a label here.

var ValidSchemas = []string{
	// S1: rich
	`schema { query: Query mutation: Mutation subscription: Subscription }
type Query implements Node {
  id: ID!
  node(id: ID!): Node
  named: Named
  pet(kind: Kind = DOG): Pet
  person: Person
  search(q: String = "x", f: Filter, ks: [Kind!], n: Int, fl: Float, b: Boolean, i: ID): [Result!]!
  one(arg: OneIn): Int
  date(d: Date): Date
  list(xs: [[Int]!]): [Int]
  req(a: Int!, b: Int! = 2): Int
  many(fs: [Filter!]): Int
  nums(xs: [Int!] = [1, 2], ys: [[Int!]!]! = [[1]], z: Float = 2): Int
  trio: Trio
  planned: Planned
  big(b: Big = B2, bs: [Big!]): Big
  wide: Wide
  dates(ds: [Date], dd: [[Date!]]): Int
  grid: [[Pet!]!]!
  measure(u: Unit, us: [Unit!]): Int
  grid2(fss: [[Filter!]!]): Int
  cube(at: [[[Int]]]): [[[Result]]]
}
type Mutation { set(in: Filter!): Pet }
type Subscription { tick(every: Int): Int tock: Int pet: Pet }
interface Node { id: ID! }
# an interface nothing implements (yet)
interface Planned { id: ID! eta: Int }
interface Named implements Node { id: ID! name(short: Boolean): String }
type Pet implements Named & Node { id: ID! name(short: Boolean): String kind: Kind owner: Person nick: String tags: [String!] matrix: [[Int]] }
type Person implements Node & Named { id: ID! name(short: Boolean): String pets(first: Int = 1): [Pet] age: Int nick: Int tags: [String] friend: Person matrix: [[String]] }
# robots
#
# are things, not pets
type Robot @entity { id: ID! model: String matrix: [Int] }
# many fields with names one edit apart
type Wide { fa: Int fb: Int fc: Int fd: Int fe: Int ff: Int fg: Int }
# a long enumeration
enum Big { B1 B2 B3 B4 B5 B6 B7 B8 B9 B10 }
union Result = Pet | Person
union Thing = Pet | Robot
union Trio = Pet | Person | Robot
enum Kind @entity { DOG CAT }
# values whose names begin like what some non-ASCII letters lower-case to (U+212A KELVIN SIGN, U+2126 OHM SIGN)
enum Unit { KELVIN KELVIN_DELTA OHM OMEGA_2 K }
input Filter @entity { name: String = "n" kinds: [Kind!] = [DOG] sub: Filter min: Int! = 0 req: Boolean! }
input OneIn @oneOf { a: Int b: String }
scalar Date @entity
directive @entity on OBJECT | SCALAR | INTERFACE | ENUM | INPUT_OBJECT | UNION
directive @tag(name: String!, n: Int) repeatable on FIELD | QUERY | MUTATION | SUBSCRIPTION | FRAGMENT_SPREAD | INLINE_FRAGMENT | FRAGMENT_DEFINITION | VARIABLE_DEFINITION
directive @once(v: Int = 1, w: Float = 2) on FIELD | QUERY | FRAGMENT_DEFINITION
`,
	// S2: minimal, default root names, no mutation, no subscription
	`type Query { a: Int b(x: Int): String q: Query }
`,
	// S3: the same field name with the same argument name at different scalar types on parents that may apply together
	`type Query { any: Any thing: Thing bill: Bill }
interface Any { id: ID }
interface Priced { cost(x: Float, f: PF): Int label(s: ID): String }
interface Billed { cost(x: Int, f: BF): Int label(s: String): String }
type Thing implements Any & Priced { id: ID cost(x: Float, f: PF): Int label(s: ID): String items(first: Int, after: String): Int }
type Bill implements Any & Billed { id: ID cost(x: Int, f: BF): Int label(s: String): String items(first: Int, last: Int): Int }
input PF { v: Float w: [Float] }
input BF { v: Int w: [Int] }
`,
}

type Profile struct {
	Name     string
	Schema   int
	Template string
	Holes    [][]string
	MaxDev   int // 0: full product
	// Optional: fragments defined by the template that are dropped from a rendered document
	// when nothing spreads them (otherwise every such document would be invalid for the
	// unused fragment alone and the profile would say nothing about its own rules).
	Optional []string
}

// Size is the number of documents of the profile.
func (p *Profile) Size() int {
	if p.MaxDev == 0 {
		n := 1
		for _, h := range p.Holes {
			n *= len(h)
		}
		return n
	}
	n := 0
	p.Expand(func(string, []int) { n++ })
	return n
}

func (p *Profile) Render(choice []int) string {
	s := p.Template
	for pass := 0; pass < 3 && strings.Contains(s, "§"); pass++ { // a menu entry may contain further holes
		for i := len(p.Holes) - 1; i >= 0; i-- { // §10 before §1
			s = strings.ReplaceAll(s, "§"+itoa(i), p.Holes[i][choice[i]])
		}
	}
	return p.prune(s)
}

// prune removes the optional template fragments that nothing spreads (to a fixpoint).
func (p *Profile) prune(doc string) string {
	for changed := true; changed; {
		changed = false
		for _, name := range p.Optional {
			def := "fragment " + name + " on "
			i := strings.Index(doc, def)
			if i < 0 {
				continue
			}
			// end of the definition: the matching closing brace
			j := strings.IndexByte(doc[i:], '{')
			if j < 0 {
				continue
			}
			depth, end := 0, -1
			for k := i + j; k < len(doc); k++ {
				if doc[k] == '{' {
					depth++
				} else if doc[k] == '}' {
					depth--
					if depth == 0 {
						end = k + 1
						break
					}
				}
			}
			if end < 0 {
				continue
			}
			rest := doc[:i] + doc[end:]
			if !spreads(rest, name) {
				doc = rest
				changed = true
			}
		}
	}
	return doc
}

func spreads(doc, name string) bool {
	for k := 0; ; {
		i := strings.Index(doc[k:], "..."+name)
		if i < 0 {
			return false
		}
		e := k + i + 3 + len(name)
		if e >= len(doc) || !(doc[e] == '_' || doc[e] >= '0' && doc[e] <= '9' || doc[e] >= 'a' && doc[e] <= 'z' || doc[e] >= 'A' && doc[e] <= 'Z') {
			return true
		}
		k = e
	}
}

func itoa(i int) string {
	if i < 10 {
		return string(rune('0' + i))
	}
	return string(rune('0'+i/10)) + string(rune('0'+i%10))
}

// Expand visits every filling (choice vector) of the profile.
func (p *Profile) Expand(visit func(doc string, choice []int)) {
	choice := make([]int, len(p.Holes))
	var rec func(i, devs int)
	rec = func(i, devs int) {
		if i == len(p.Holes) {
			visit(p.Render(choice), choice)
			return
		}
		for a := range p.Holes[i] {
			d := devs
			if a != 0 {
				d++
			}
			if p.MaxDev > 0 && d > p.MaxDev {
				break
			}
			choice[i] = a
			rec(i+1, d)
		}
		choice[i] = 0
	}
	rec(0, 0)
}

var fieldSel = []string{
	`id`, `nope`, `node { id }`, `node`, `node(id: 1) { id }`, `id { x }`, `named { name }`, `named { name { x } }`, `__typename`,
	`__schema { types { name } }`, `__type(name: "Pet") { name kind }`, `__type { name }`, `pet { kind }`, `pet { kind { x } }`, `pet { }`,
	`search { __typename }`, `search { id }`, `search { ... on Pet { id } }`, `node(id: 1) { ... on Pet { kind } }`, `node(id: 1) { nick }`, `x: id`,
	`id: node(id: 1) { id }`, `person { pets { owner { pets { id } } } }`, `pet { __typename owner { __typename } }`, `named { __schema { types { name } } }`,
	`search { ... on Pet { m: matrix } ... on Person { m: matrix } }`, `trio { ... on Pet { m: matrix } ... on Robot { m: matrix } }`, `trio { ... on Person { m: matrix } ... on Robot { m: matrix } }`, `search { ... on Pet { m: matrix } ... on Person { m2: matrix } }`, `trio { ... on Pet { matrix } ... on Robot { id } }`,
	`pet { __typenam __typename }`, `node(id: 1) { __typename __typenam }`, `grid { id }`, `grid`, `grid { nope }`, `cube { ... on Pet { id } }`, `cube { id }`, `wide { f }`, `wide { fa fz }`, `x: big(b: B0)`, `search { ... on Named { name } }`, `search { ... on Node { id } }`, `search { ... on Robot { id } }`, `named { ... on Result { __typename } }`, `pet { ... on Thing { __typename } }`,
}

var overlapSel = []string{
	`id`, `n: name`, `n: nick`, `name`, `name(short: true)`, `name(short: false)`, `n: id`, `nick`, `owner { id }`, `owner { id: name }`, `owner: kind`, `kind`,
	`n: name(short: true)`, `tags`, `...PF`, `... on Pet { n: kind }`, `owner { ... on Person { id: age } }`, `name(short: $t)`, `name(short: $u)`,
}

// linkSel: valid selections on Query that exercise every kind of link (C09).
var linkSel = []string{
	`a1: id`,
	`a2: node(id: "1") { id ... on Pet { kind owner { id } } ... on Named { name(short: true) } }`,
	`a3: search(f: {req: true, sub: {req: false, kinds: [DOG, CAT], min: $v}, kinds: DOG, name: null}) { __typename ... on Named { name } ... on Pet { tags } }`,
	`a4: search(ks: DOG, q: """q""", fl: 1, i: 2, b: true) { ... on Person { pets(first: $v) { id } } }`,
	`a5: list(xs: [[1, $v], 2, [], null])`,
	`a6: list(xs: 3)`,
	`a7: one(arg: {a: $nn})`,
	`a8: date(d: {any: [1, {x: $v}], s: "t"})`,
	`a9: pet(kind: $k) @include(if: true) { id @tag(name: "t", n: $v) @tag(name: "t2") }`,
	`... on Query @tag(name: "i") { b1: id }`,
	`... @skip(if: false) { b2: id }`,
	`...LG @tag(name: "s")`,
	`b3: __schema { types { name fields { name } } }`,
	`b4: __type(name: "Pet") { name kind }`,
	`c1: grid { id owner { pets(first: $v) { id } } ... on Named { name(short: true) } }`,
	`c2: cube(at: [[[1, $v]], [], null]) { __typename ... on Pet { id kind } }`,
	`b5: named { __typename ... on Pet { owner { pets(first: 2) { id } } } ... on Node { id } }`,
	`b6: req(a: 1, b: $v)`,
	`b7: many(fs: {req: true, sub: {req: true}})`,
	`c1: many(fs: [{req: true}, {req: false, kinds: CAT}])`,
	`b8: person { friend { friend { nick } } pets { nick owner { age } } }`,
	`b9: search(f: $f, n: $nn) { ... on Result { __typename } }`,
	`d1: dates(ds: [1, {x: $v}, "s", [2]], dd: [[2], [{y: 1}, "t"]])`,
}

var overlapArgs = []string{
	`s: search { __typename }`, `s: search(ks: [DOG]) { __typename }`, `s: search(ks: [CAT]) { __typename }`, `s: search(ks: [DOG, CAT]) { __typename }`, `s: search(ks: DOG) { __typename }`,
	`s: search(f: {req: true}) { __typename }`, `s: search(f: {req: false}) { __typename }`, `s: search(f: {req: true, name: "a"}) { __typename }`, `s: search(f: {req: true, sub: {req: true}}) { __typename }`,
	`s: search(f: {req: true, sub: {req: false}}) { __typename }`, `s: search(q: "x") { __typename }`, `s: search(q: "y") { __typename }`, `s: search(q: """x""") { __typename }`, `s: search(q: $a) { __typename }`, `s: search(q: $b) { __typename }`,
	`s: search(n: 1) { __typename }`, `s: search(n: 2) { __typename }`, `s: search(q: "x", n: 1) { __typename }`, `s: search(n: 1, q: "x") { __typename }`, `s: search(q: null) { __typename }`, `s: search(fl: 1) { __typename }`, `s: search(fl: 1.0) { __typename }`,
	`s: pet { id }`, `s: search { ... on Pet { id } }`, `s: id`,
	// arguments written in non-alphabetical order, each with an error of its own (errors come in source order)
	// object literals with as many entries but other keys (also unknown ones), nested
	`s: search(f: {name: "a"}) { __typename }`, `s: search(f: {zz: true}) { __typename }`, `s: search(f: {req: true, sub: {name: "a"}}) { __typename }`, `s: search(f: {req: true, sub: {min: 1}}) { __typename }`,
	// two different argument names each given twice
	`s: search(q: "x", q: "y", n: 1, n: 2) { __typename }`, `s: search(n: 1, q: "x", n: 2, q: "y", ks: [DOG], ks: [CAT]) { __typename }`,
	`s: search(q: 1, n: "x") { __typename }`, `s: search(zz: 1, aa: 2, q: "x") { __typename }`,
}

var litMenu = []string{
	`1`, `2147483647`, `2147483648`, `-2147483649`, `9223372036854775808`, `1.5`, `1e400`, `"s"`, `"""b"""`, `true`, `null`, `DOG`, `BAD`, `$v`, `[1]`, `[1, "s"]`, `[[1]]`, `[null]`, `[DOG]`, `[DOG, BAD]`, `[[DOG]]`,
	`{}`, `{req: true}`, `{req: true, name: 1}`, `{req: true, zz: 1}`, `{req: true, req: false}`, `{name: "a"}`, `{req: null}`, `{req: true, sub: {req: true}}`, `{req: true, sub: {}}`,
	`{req: true, kinds: DOG}`, `{req: true, kinds: [CAT, BAD]}`, `{req: true, min: null}`, `{a: 1}`, `{a: 1, b: "x"}`, `{a: null}`, `{b: $v}`, `{a: $w}`, `[]`, `[[]]`, `"1"`, `-0`, `"DOG"`,
	// variables and objects inside list literals (also where a custom scalar takes any literal)
	`[$v]`, `[$nope]`, `[{a: 1, a: 2}]`, `{k: [$nope]}`, `[[$v, {x: $v}]]`,
	// text that a second formatting pass would mangle
	`"50%d %s"`,
	// a string with a stray byte of a multi-byte character; strings with letters whose lower-case form is shorter
	"\"25 \xe2\"", "\"\u212aelvin\"", "\"\u212a\"", "\"\u2126\"", "[\"\u212aelvin_\", \"\xff\"]",
}

var dirMenu = []string{
	``, `@skip(if: true)`, `@skip`, `@nope`, `@tag(name: "a")`, `@tag(name: "a") @tag(name: "b")`, `@once @once`, `@once`, `@deprecated`, `@include(if: $c)`, `@skip(if: 1)`,
	`@skip(if: true, unless: false)`, `@tag(name: null)`, `@tag`, `@skip(if: true) @skip(if: false)`, `@oneOf`, `@specifiedBy(url: "u")`, `@tag(name: "a", name: "b")`, `@once(v: $c)`, `@include(if: true) @skip(if: false)`,
	// a repeatable directive before / between the occurrences of one that is not
	`@tag(name: "a") @skip(if: true) @skip(if: false)`, `@once @tag(name: "a") @once`, `@tag(name: "a") @once @tag(name: "b")`, `@skip(if: true) @tag(name: "a") @include(if: true) @skip(if: true)`,
}

var ValidProfiles = []Profile{
	{Name: "fields", Template: `query Q { §0 §1 }`, Holes: [][]string{fieldSel, append([]string{``}, fieldSel...)}},
	{Name: "overlap-same-parent", Template: `query Q($t: Boolean, $u: Boolean = true) { pet { §0 } pet { §1 } ok: pet { name(short: $t) ok2: name(short: $u) } } fragment PF on Pet { n: name nick }`, Holes: [][]string{overlapSel, overlapSel}, Optional: []string{"PF"}},
	{Name: "overlap-exclusive", Template: `query Q($t: Boolean, $u: Boolean = true) { search { ... on Pet { §0 } ... on Person { §1 } } u: pet { name(short: $t) v: name(short: $u) } } fragment PF on Pet { n: name nick }`, Holes: [][]string{overlapSel, overlapSel}, Optional: []string{"PF"}},
	{Name: "overlap-interface", Template: `query Q($t: Boolean, $u: Boolean = true) { named { ... on Pet { §0 } ... on Named { §1 } } u: pet { name(short: $t) v: name(short: $u) } } fragment PF on Pet { n: name nick }`, Holes: [][]string{overlapSel, []string{`id`, `n: name`, `name`, `name(short: true)`, `n: id`, `nick`, `... on Person { n: nick }`, `name(short: $t)`}}, Optional: []string{"PF"}},
	{Name: "overlap-fragment-pairs", Template: `query Q { §0 §1 } §2`, Holes: [][]string{
		{`search { ... on Pet { o: owner { §3 } } ... on Person { o: friend { §4 } } }`, `a: id`, `search { ... on Pet { o: owner { §3 } } ... on Pet { o: owner { §4 } } }`},
		{`person { §5 }`, `b: id`, `person { friend { §5 } friend { §6 } }`},
		{`fragment A on Person { id ...B } fragment B on Person { n: name ...C } fragment C on Person { n: age }`,
			`fragment A on Person { ...B } fragment B on Person { ...C } fragment C on Person { ...A }`,
			`fragment A on Person { ...B } fragment B on Person { ...A } fragment C on Person { id }`,
			`fragment A on Person { friend { ...B } } fragment B on Person { friend { ...C } } fragment C on Person { friend { ...A } }`,
			`fragment A on Person { n: name ...B } fragment B on Person { n: age ...C } fragment C on Person { n: id ...A }`,
			`fragment A on Person { ...A } fragment B on Person { id } fragment C on Person { ...B ...B }`,
			`fragment A on Person { n: age } fragment B on Person { n: nick } fragment C on Person { id }`,
			`fragment A on Person { n: age friend { ...B } } fragment B on Person { n: nick m: id } fragment C on Person { m: name }`},
		{`...A`, `...B`, `...C`, `id`}, {`...B`, `...A`, `...C`, `id`}, {`...A ...B`, `...A`, `...B ...C`, `...C ...A`, `id`}, {`...B`, `...C`, `id`},
	}, Optional: []string{"A", "B", "C"}},
	{Name: "overlap-arguments", Template: `query Q($a: String, $b: String) { §0 §1 u: search(q: $a) { __typename } v: search(q: $b) { __typename } }`, Holes: [][]string{overlapArgs, overlapArgs}},
	{Name: "overlap-repeated-fragment", Template: `query Q { person { §0 §1 §2 } } fragment F on Person { §3 } fragment G on Person { ...F }`, Holes: [][]string{
		{`friend { ...F }`, `friend { ...G }`, `friend { id }`, ``},
		{`friend { ...F }`, `friend { ...G }`, `friend { x: id }`, ``},
		{`x: name ...F`, `...F x: name`, `x: age ...F`, `x: nick`, `...G x: age`, `...F`, `x: name ...G`},
		{`x: nick`, `x: age`, `x: name`, `id`, `x: nick friend { x: name }`},
	}, Optional: []string{"F", "G"}},
	// fields and fragments of one selection set, where comparing the fields with a fragment's fields descends into
	// sub selections that spread further fragments before the next spread of the selection set is looked at
	{Name: "overlap-spread-after-nested", Template: `query Q { person { §0 §1 } } fragment F on Person { §2 } fragment G on Person { §3 } fragment H on Person { §4 }`, Holes: [][]string{
		{`x: name friend { ...H }`, `friend { ...H }`, `x: name friend { ...G }`, `x: name`},
		{`...F ...H`, `...H ...F`, `...F ...G`, `...G ...F`, `...F`, `...F ...G ...H`},
		{`friend { ...H }`, `friend { ...H } ...G`, `friend { ...G }`, `id`},
		{`x: age`, `friend { ...H } ...F`, `x: age ...F`, `id`},
		{`x: nick`, `id`, `x: name`},
	}, Optional: []string{"F", "G", "H"}},
	{Name: "multi-conflict", Template: `query Q { pet { §0 §1 §2 } }`, Holes: [][]string{
		{`a: name a: nick`, `a: name`, `a: id a: kind`},
		{`b: id b: kind`, `b: id`, `b: name b: tags`},
		{`c: owner { id } c: tags`, `c: tags`, `c: owner { n: age } c: owner { n: name }`, `d: nick d: name e: id e: kind`},
	}},
	{Name: "arguments", Template: `query Q($k: Kind, $i: Int) { §0 §1 }`, Holes: [][]string{
		{`node(id: 1) { id }`, `node { id }`, `node(idd: 1) { id }`, `node(id: 1, id: 2) { id }`, `node(id: null) { id }`, `node(id: $i) { id }`, `node(id: "x", extra: 1) { id }`},
		{`req(a: 1)`, `req`, `req(b: 1)`, `req(a: 1, b: null)`, `req(a: null)`, `req(a: $i)`, `req(a: 1, b: $i)`, `pet(kind: CAT) { id }`, `pet(kind: BAD) { id }`, `pet(kind: "DOG") { id }`, `pet(kind: 1) { id }`, `pet(kind: null) { id }`, `pet(kind: $k) { id }`, `pet(kind: $i) { id }`, `req(a: 1, a: 2)`, `id(x: 1)`, `r: req(a: $k)`},
	}},
	{Name: "values", Template: `query Q($v: Int, $w: Int!) { §0 u: list(xs: [[$v]]) w: req(a: $w) }`, Holes: [][]string{valuePositions()}},
	{Name: "variables", Template: `query Q(§0) { §1 §2 } fragment VF on Query { req(a: $a) } fragment VG on Query { ...VF } fragment VH on Query @tag(name: "h", n: $a) { id } fragment VI on Query @tag(name: "i", n: $undefinedHere) { id } fragment VJ on Query { one(arg: {b: $a}) } fragment VK on Query { one(arg: {a: $undefinedThere}) }`, Holes: [][]string{
		{`$a: Int!`, `$a: Int`, `$a: Int = 1`, `$a: Int! = 1`, `$a: Int = null`, `$a: Nope`, `$a: Pet`, `$a: [Int!]`, `$a: String`, `$a: Int!, $a: Int!`, `$a: Int!, $k: Kind = DOG`, `$a: Int!, $f: Filter = {req: true}`, `$a: Int! = "s"`, `$a: [Int]! = [1, null]`, `$a: Int!, $z: Int`, `$a: ID!`, `$a: Float!`, `$a: Int! @tag(name: "v")`, `$a: Int! @once`, `$a: Kind! = BAD`, `$a: Filter = {name: 1}`, `$a: [[Int]!]`, `$a: [Int]`, `$a: Boolean!`, `$a: [[Int]!]!`, `$a: [[Int!]!]!`, `$a: [[Int!]]!`, `$a: [[Int!]!]`},
		{`req(a: $a)`, `r2: req(a: 1, b: $a)`, `search(n: $a) { __typename }`, `search(q: $a) { __typename }`, `list(xs: [[$a]])`, `list(xs: $a)`, `search(f: {req: true, min: $a}) { __typename }`, `...VF`, `...VG`, `id @tag(name: "x", n: $a)`, `id`, `node(id: $b) { id }`, `search(ks: [$a]) { __typename }`, `one(arg: {a: $a})`, `search(i: $a, fl: $a) { __typename }`, `pet(kind: $a) { id }`, `id @skip(if: $a)`, `search(f: {req: $a}) { __typename }`, `list(xs: [$a])`, `nums(xs: [$a])`, `nums(ys: [[$a]])`, `nums(xs: $a)`, `nums(ys: $a)`, `...VH`, `...VH id @tag(name: "y", n: $a)`, `...VI`, `...VJ`, `...VK`, `one(arg: {a: $nope})`, `many(fs: [{req: true, kinds: [DOG], min: $a}])`},
		{``, `r3: req(a: $a)`, `k: pet(kind: $k) { id }`, `ff: search(f: $f) { __typename }`, `...VF`, `o: one(arg: {a: $a})`, `o2: one(arg: {b: $a})`},
	}, Optional: []string{"VF", "VG", "VH", "VI", "VJ", "VK"}},
	// an anonymous operation with variables next to fragments that nothing spreads
	{Name: "variables-anonymous", Template: `query (§0) { §1 } fragment VF on Query { req(a: $a) } fragment VG on Query { ...VF } §2`, Holes: [][]string{
		{`$a: Int!`, `$a: Int`, `$a: Int!, $b: Int`, `$b: Int`},
		{`r: req(a: $a)`, `id`, `...VF`, `...VG`, `...VG r: req(a: $b)`},
		{``, `fragment VX on Query { x: req(a: $b) y: req(a: $a) }`, `query Other($a: Int!) { ...VF }`},
	}},
	// selection and value shapes whose tree form has optional or ordered parts
	{Name: "shapes", Template: `query Q($c: Boolean = true) { §0 §1 }`, Holes: [][]string{
		{`... { id }`, `... @skip(if: $c) { id }`, `... on Query { id }`, `pet { ... { id ... { name } } }`, `search { ... { __typename } }`, `named { ... @include(if: true) { id } ... on Pet { ... { nick } } }`},
		{``, `s: search(f: {req: true, name: "a", min: 1, kinds: [CAT, DOG]}) { __typename }`, `d: date(d: {z: 1, a: {y: 2, b: [3, {d: 4, c: 5}]}})`, `m: many(fs: [{req: true, name: "b"}, {name: "a", req: false}])`},
	}},
	{Name: "fragments", Template: `query Q { §0 } §1 §2`, Holes: [][]string{
		{`...F`, `id`, `...G`, `...Nope`, `node(id: 1) { ...F }`, `pet { ...F }`, `search { ...F }`, `named { ... on Person { id } }`, `pet { ... on Person { id } }`, `node(id: 1) { ... on Kind { x } }`, `...A`, `pet { ...F ...F }`, `... on Query { ...F }`, `... { ...F }`, `... on Pet { id }`, `person { ...F }`, `search { ...H }`, `...F ...G`, `named { ...I }`, `pet { ...I }`, `node(id: 1) { ...J }`, `planned { ...K eta }`, `planned { ... on Pet { id } nope }`, `pet { ...F } person { ...F }`, `person { ...F } pet { ...F }`},
		{`fragment F on Query { id }`, `fragment F on Pet { id }`, `fragment F on Nope { id }`, `fragment F on Kind { x }`, `fragment F on Query { ...F }`, `fragment F on Query { id } fragment F on Query { id }`, ``, `fragment F on Filter { name }`, `fragment F on Query { pet { ...F } }`, `fragment F on Node { id }`, `fragment F on Result { __typename }`, `fragment F on Query { id ...G }`, `fragment F on Query { id ...Nope }`, `fragment F on name { id }`, `fragment F on Pat { id }`, `fragment F on Query { pet { id ...Nope2 } }`},
		{``, `fragment G on Query { ...F }`, `fragment A on Query { ...B } fragment B on Query { ...A }`, `fragment G on Query { id }`, `fragment A on Query { ...B } fragment B on Query { ...C } fragment C on Query { pet { id } ...A }`, `fragment H on Thing { __typename }`, `fragment G on Query { ...G }`, `fragment I on Person { id }`, `fragment J on Robot { id }`, `fragment I on Named { ... on Pet { id } }`, `fragment G on Query { b: id ...Missing }`, `fragment G on Query { pet { ...Missing } }`, `fragment K on Planned { id }`, `fragment K on Node { id }`},
	}},
	{Name: "directives", Template: `query Q($c: Boolean = true §3) §0 { id §1 ...DF §2 ... §1 { pet { id } } ... on Query §2 { x: id } } fragment DF on Query §0 { y: id }`, Holes: [][]string{
		append([]string{``}, dirMenu[4:]...), dirMenu, dirMenu, {``, `@tag(name: "v")`, `@skip(if: true)`, `@once`, `@tag(name: "v") @tag(name: "w")`},
	}},
	{Name: "operations", Template: `§0 §1 fragment SF on Subscription { tick tock } fragment SG on Subscription { tick }`, Holes: [][]string{
		{`query A { id }`, `{ id }`, `query A { node }`, `mutation M { set(in: {req: true}) { id } }`, `subscription S { tick }`, `subscription S { tick tock }`, `subscription S { tick t2: tick }`, `subscription S { ...SF }`, `subscription S { ...SG }`, `subscription S { __typename }`, `subscription S { tick ...SG }`, `subscription S { ... on Subscription { tick } tock }`, `subscription { tick }`, `mutation { set(in: {req: true}) { id } }`, `subscription S { tick @skip(if: true) }`, `subscription S { pet { id name } }`, `subscription S { tick(every: 1) tick(every: 2) }`, `query ($x: Int) { id }`,
			`subscription S { tick tick tock }`, `subscription S { tick t: tick tock }`, `subscription S { tick ...SG tock }`, `subscription S { ...SG ...SG tock }`, `fragment OF on Query { nope }`, `fragment OF on Query { id ...OF }`},
		{`query SFu { ...X1 ...X2 } fragment X1 on Query { id } fragment X2 on Query { id } query U { s: id ... on Subscription { tick } }`, ``, `query A { id }`, `query B { id }`, `{ id }`, `mutation A { set(in: {req: true}) { id } }`, `subscription T { tock }`, `fragment A on Query { id } query UA { ...A }`},
	}, Optional: []string{"SF", "SG"}},
	{Name: "introspection", Template: `§0`, Holes: [][]string{{
		`{ __schema { types { name } } }`,
		`{ __schema { types { fields { type { fields { type { fields { name } } } } } } } }`,
		`{ __schema { types { fields { type { fields { name } } } } } }`,
		`{ __type(name: "Q") { fields { type { fields { type { fields { name } } } } } } }`,
		`{ __type(name: "Q") { fields { type { fields { type { name } } } } } }`,
		`{ __schema { queryType { interfaces { interfaces { interfaces { name } } } } } }`,
		`{ __schema { types { possibleTypes { possibleTypes { possibleTypes { name } } } } } }`,
		`{ __schema { types { inputFields { type { inputFields { type { inputFields { name } } } } } } } }`,
		`{ __schema { types { fields { type { interfaces { possibleTypes { name } } } } } } }`,
		`{ __schema { types { fields { type { interfaces { name } } } } } }`,
		`{ a: __schema { types { fields { name } } } b: __schema { types { fields { name } } } }`,
		`{ __schema { types { ofType { ofType { ofType { ofType { name } } } } } } }`,
		`{ pet { __typename } __typename }`,
		`{ __schema { types { ...T1 } } } fragment T1 on __Type { fields { type { ...T2 } } } fragment T2 on __Type { fields { type { fields { name } } } }`,
		`{ __schema { types { ...T1 } } } fragment T1 on __Type { fields { type { ...T2 } } } fragment T2 on __Type { fields { name } }`,
		`{ __schema { types { ...T1 } } } fragment T1 on __Type { fields { type { ...T2 } } } fragment T2 on __Type { name }`,
		`{ __schema { types { ...T3 } } } fragment T3 on __Type { fields { type { fields { type { name } } } } }`,
		`{ __schema { types { ...TF fields { type { fields { type { ...TF } } } } } } } fragment TF on __Type { name fields { name } }`,
		`{ __schema { types { fields { type { fields { type { ...TF } } } } ...TF } } } fragment TF on __Type { name fields { name } }`,
		`{ __schema { types { ...TF fields { type { ...TF } } } } } fragment TF on __Type { name fields { name } }`,
		`{ __schema { types { ...TF fields { type { fields { type { ...TF } } } } } } } fragment TF on __Type { name }`,
		`{ __type(name: "Q") { ...TF interfaces { possibleTypes { ...TF } } } } fragment TF on __Type { name inputFields { name } }`,
		`{ __type(name: "Q") { ...TF interfaces { ...TF } } } fragment TF on __Type { name inputFields { name } }`,
		`{ __schema { types { ...TG } queryType { fields { type { fields { type { ...TG } } } } } } } fragment TG on __Type { ...TH } fragment TH on __Type { fields { name } }`,
		`{ __schema { types { ...TG } queryType { fields { type { ...TG } } } } } fragment TG on __Type { ...TH } fragment TH on __Type { fields { name } }`,
		`{ __schema { types { ...TC } } } fragment TC on __Type { fields { type { ...TC } } }`,
		`{ __schema { types { ... on __Type { fields { type { ... on __Type { fields { type { fields { name } } } } } } } } } }`,
		`query A { __schema { types { ...TF } } } query B { __schema { types { fields { type { fields { type { ...TF } } } } } } } fragment TF on __Type { name fields { name } }`,
		`query B { __schema { types { fields { type { fields { type { ...TF } } } } } } } query A { __schema { types { ...TF } } } fragment TF on __Type { name fields { name } }`,
	}}},
	{Name: "links", Template: `query Q($v: Int = 1, $k: Kind!, $f: Filter, $vs: [Int]!, $nn: Int!, $deep: [[Filter!]!] = [[{req: true, kinds: [DOG], sub: {req: false, min: 2}}], [{req: false}]], $dl: [[Int]!] = [[1, null], []]) §0 { u1: search(n: $v, ks: [$k], f: $f) { __typename } u2: list(xs: [$vs]) u3: req(a: $nn) u4: grid2(fss: $deep) u5: list(xs: $dl) ...LF §1 §2 } fragment LF on Query { lf: id §3 ...LG } fragment LG on Query { lg: id §4 } mutation M($in: Filter!) { set(in: $in) { id } } subscription S { tick(every: 1) }`,
		Holes: [][]string{
			{``, `@tag(name: "op")`, `@once(v: $v) @tag(name: "a") @tag(name: "b", n: $v)`},
			linkSel, append([]string{``}, linkSel...), append([]string{``}, linkSel...), append([]string{``}, linkSel...),
		}, MaxDev: 3},
	{Name: "roots-s2", Schema: 1, Template: `§0 §1`, Holes: [][]string{
		{`{ a }`, `query { a b }`, `mutation { a }`, `subscription { a }`, `mutation M { x }`, `{ q { q { a } } }`, `{ b(x: "s") }`, `{ a { x } }`, `{ q }`, `subscription S { a b }`, `{ ... on Mutation { a } }`},
		{``, `query N { a }`, `mutation N { a }`, `fragment F on Query { a }`, `fragment F on Mutation { a } query N { ...F }`},
	}},
}

func valuePositions() []string {
	var out []string
	for _, pos := range []string{`search(q: %s) { __typename }`, `search(n: %s) { __typename }`, `search(ks: %s) { __typename }`, `search(f: %s) { __typename }`, `search(fl: %s) { __typename }`, `search(b: %s) { __typename }`, `search(i: %s) { __typename }`,
		`date(d: %s)`, `list(xs: %s)`, `one(arg: %s)`, `req(a: %s)`, `pet(kind: %s) { id }`, `id @tag(name: %s)`, `search(f: {req: true, sub: %s}) { __typename }`, `search(f: {req: true, kinds: %s}) { __typename }`, `measure(u: %s)`, `measure(us: %s)`} {
		for _, l := range litMenu {
			out = append(out, strings.Replace(pos, "%s", l, 1))
		}
	}
	return out
}
