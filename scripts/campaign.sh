#!/bin/bash
# campaign.sh <ID> [extra=1] [deadline=3600] [--only sub]  — an exploratory run EXTRA steps beyond the thorough bounds
# (no evidence written; not a registered tier). A genuine defect found this way is fixed and a document that
# decides it is added to the registered tiers.
id="$1"; shift; extra="${1:-1}"; shift; dl="${1:-3600}"; shift
VERIF_EXTRA="$extra" "$(dirname "$0")/check.sh" "$id" thorough --no-evidence --deadline "$dl" "$@"
