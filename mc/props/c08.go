package props

import (
	"encoding/json"
	"fmt"
	gqlparser "github.com/vektah/gqlparser/v2"
	"github.com/vektah/gqlparser/v2/formatter"
	"sort"
	"strings"
	"time"

	"github.com/vektah/gqlparser/v2/ast"
	"github.com/vektah/gqlparser/v2/gqlerror"
	"github.com/vektah/gqlparser/v2/parser"
	"github.com/vektah/gqlparser/v2/validator"

	"verif/mc/explore"
	"verif/mc/gen"
	"verif/mc/ref/refvalid"
)

// C08: validation accepts exactly the documents the GraphQL validation rules allow.

func init() {
	register(&Prop{ID: "C08", Run: runC08, Replay: func(c *explore.Ctx, s *explore.SubStats, v explore.Violation) {
		var in kitDoc
		if json.Unmarshal(v.Input, &in) == nil {
			c08Doc(c, s, in)
		}
	}, Assumptions: []string{
		"reference: ref/refvalid, the validation rules of the October-2021 specification §5 (plus oneOf input objects, the introspection depth limit and root type existence) written from the specification's formal algorithms over the freshly parsed document; it reads structural fields of the loaded schema only (C07 decides the loader)",
		"verdicts are compared for emptiness of the error list, in both directions; which rule names fire is used for diagnosis and cause keys only",
		"undecided (not compared): numeric literals beyond int64/float64, @skip/@include on subscription root selections, fragment variable definitions",
		"custom scalars accept any literal; Int literals must fit 32 bits; identical arguments means structurally equal values (object fields as sets)",
	}})
}

func implRules(errs gqlerror.List) []string {
	set := map[string]bool{}
	for _, e := range errs {
		set[strings.TrimSuffix(e.Rule, "WithoutSuggestions")] = true
	}
	var out []string
	for k := range set {
		out = append(out, k)
	}
	sort.Strings(out)
	return out
}

func c08Doc(c *explore.Ctx, s *explore.SubStats, d kitDoc) {
	explore.Crumb(s.Name, d.Doc)
	schema := kitSchema(d.Schema)
	model, err := parser.ParseQuery(&ast.Source{Name: "q.graphql", Input: d.Doc})
	if err != nil {
		s.Skipped++
		return
	}
	s.Executions++
	s.Transitions++
	bad := func(key, detail, exp, obs string) {
		c.Report(s, explore.Violation{Key: key, Input: explore.J(d), Rendered: d.Doc, Detail: detail, Expected: exp, Observed: obs})
	}
	want := refvalid.Validate(kitModelSchema(d.Schema), model)
	doc, _ := parser.ParseQuery(&ast.Source{Name: "q.graphql", Input: d.Doc})
	var errs gqlerror.List
	r := guarded(c02DocBudget, 5000, func() { errs = validator.Validate(schema, doc) })
	if r.Panicked {
		bad("panic site="+r.Site+" msg="+normMsg(r.PanicVal), "Validate panicked: "+r.PanicVal, "", "")
		return
	}
	if len(want.Undecided) > 0 {
		s.Undecided++
		s.Outcome("undecided " + want.Undecided[0])
		return
	}
	s.Validated++
	got := implRules(errs)
	// the exported rule list with the four without-suggestions variants in place of their
	// standard rules accepts exactly the same documents (suggestions are text only)
	{
		d2, _ := parser.ParseQuery(&ast.Source{Name: "q.graphql", Input: d.Doc})
		var verrs gqlerror.List
		rv := guarded(c02DocBudget, 5000, func() { verrs = validator.Validate(schema, d2, c08VariantList()...) })
		s.Transitions++
		if rv.Panicked {
			bad("panic variants site="+rv.Site+" msg="+normMsg(rv.PanicVal), "Validate with the without-suggestions variants panicked: "+rv.PanicVal, "", "")
		} else if (len(verrs) == 0) != (len(errs) == 0) {
			bad("valid/variants-differ rule="+strings.Join(implRules(append(append(gqlerror.List{}, errs...), verrs...)), ","), "the rule list with the without-suggestions variants accepts what the standard rules reject, or the other way round", errSig(errs), errSig(verrs))
		}
	}
	switch {
	case len(errs) == 0 && !want.Valid():
		rules := want.Rules()
		bad("valid/false-accept rule="+strings.Join(rules, ",")+" profile="+d.Profile, "the document breaks a validation rule but is accepted: "+want.Broken[rules[0]][0], "rejected: "+strings.Join(rules, ","), "no errors")
		s.Outcome("false-accept")
	case len(errs) > 0 && want.Valid():
		bad("valid/false-reject rule="+strings.Join(got, ",")+" profile="+d.Profile, "the document satisfies every rule but is rejected: "+errs[0].Message, "no errors", errSig(errs))
		s.Outcome("false-reject")
	case len(errs) == 0:
		s.Nontrivial++
		s.Outcome("valid")
	default:
		// both reject: record whether the same rules fired (diagnosis only)
		if strings.Join(got, ",") == strings.Join(want.Rules(), ",") {
			s.Outcome("invalid same-rules")
		} else {
			s.Outcome("invalid rules-differ impl=" + strings.Join(got, ",") + " ref=" + strings.Join(want.Rules(), ","))
		}
	}
	s.Sample(func() any { return d })
}

func runC08(c *explore.Ctx) {
	s := c.Sub("profiles", fmt.Sprintf("every document of the %d validation-kit profiles (%d documents: valid skeletons with every filling of their holes, so every rule is exercised alone and in combination) against the kit schemas (interfaces implementing interfaces, unions, oneOf input, repeatable directives, argument and input-field defaults, custom scalar, nested list / non-null types, all three roots; and a minimal schema without mutation / subscription)", len(gen.ValidProfiles), profileDocCount()),
		"len(Validate(schema, doc)) == 0 ⇔ ref/refvalid finds no broken rule (both directions are violations)", "documents both sides accept")
	if s != nil {
		t0 := time.Now()
		forEachProfileDoc(c, s, "", func(d kitDoc) { c08Doc(c, s, d) })
		s.WallS = time.Since(t0).Seconds()
	}
	s = c.Sub("schema-switch", "every profile document against S1, parsed once and validated against S1 and then against S1 with every argument / input-field default removed (a later version of the schema), and in the other order",
		"the second validation reports exactly what a freshly parsed copy gets from that schema (nothing the first validation left on the tree decides the second verdict)", "documents the second schema rejects")
	if s != nil {
		t0 := time.Now()
		forEachProfileDoc(c, s, "", func(d kitDoc) { c08Switch(c, s, d) })
		s.WallS = time.Since(t0).Seconds()
	}
	n := c.Pick(7, 12)
	s = c.Sub("type-blind", fmt.Sprintf("every type-blind document: sentences of ≤ %d tokens of the executable grammar × every assignment of %d names to ≤ 4 name positions", n, len(kitVocab)),
		"as above", "documents both sides accept")
	if s != nil {
		t0 := time.Now()
		forEachBlindDoc(c, s, n, func(d kitDoc) { c08Doc(c, s, d) })
		s.WallS = time.Since(t0).Seconds()
	}
}

// c08StrippedSchema: schema S1 with every default value of an argument or input field removed (built from the parsed
// type-system document, printed and loaded again) — a later version of the same schema.
var c08Stripped *ast.Schema

func c08StrippedSchema() *ast.Schema {
	if c08Stripped == nil {
		sd, err := parser.ParseSchema(&ast.Source{Name: "s1.graphql", Input: gen.ValidSchemas[0]})
		if err != nil {
			panic(err)
		}
		for _, d := range sd.Definitions {
			for _, f := range d.Fields {
				f.DefaultValue = nil
				for _, a := range f.Arguments {
					a.DefaultValue = nil
				}
			}
		}
		for _, d := range sd.Directives {
			for _, a := range d.Arguments {
				a.DefaultValue = nil
			}
		}
		var b strings.Builder
		formatter.NewFormatter(&b).FormatSchemaDocument(sd)
		sch, lerr := gqlparser.LoadSchema(&ast.Source{Name: "s1-stripped.graphql", Input: b.String()})
		if lerr != nil {
			panic("C08: stripped schema does not load: " + lerr.Error())
		}
		c08Stripped = sch
	}
	return c08Stripped
}

// c08Switch: one parsed document validated against S1 and then against the stripped S1 (and the other way round):
// the second verdict is the verdict a freshly parsed document gets from that schema.
func c08Switch(c *explore.Ctx, s *explore.SubStats, d kitDoc) {
	if d.Schema != 0 {
		return
	}
	explore.Crumb(s.Name, d.Doc)
	schemas := []*ast.Schema{kitSchema(0), c08StrippedSchema()}
	names := []string{"S1", "S1 without argument / input-field defaults"}
	for first := 0; first < 2; first++ {
		doc, perr := parser.ParseQuery(&ast.Source{Name: "q.graphql", Input: d.Doc})
		fresh, _ := parser.ParseQuery(&ast.Source{Name: "q.graphql", Input: d.Doc})
		if perr != nil {
			s.Skipped++
			return
		}
		s.Executions++
		s.Transitions += 3
		var got, want string
		r := guarded(3*c02DocBudget, 5000, func() {
			validator.Validate(schemas[first], doc)
			got = errSig(validator.Validate(schemas[1-first], doc))
			want = errSig(validator.Validate(schemas[1-first], fresh))
		})
		if r.Panicked {
			c.Report(s, explore.Violation{Key: "panic site=" + r.Site, Input: explore.J(d), Rendered: d.Doc, Detail: r.PanicVal})
			return
		}
		s.Validated++
		if want != "" {
			s.Nontrivial++
		}
		s.Outcome(fmt.Sprintf("second-verdict-valid=%v", want == ""))
		if got != want {
			key := "valid/schema-switch false-accept"
			if got != "" {
				key = "valid/schema-switch " + firstRule(want, got)
			}
			c.Report(s, explore.Violation{Key: key, Input: explore.J(d), Rendered: d.Doc, Detail: "a parsed document validated against " + names[first] + " and then against " + names[1-first] + " gets other errors from the second schema than a freshly parsed copy", Expected: want, Observed: got})
			return
		}
	}
}

var c08Variants []validator.Rule

// c08VariantList: the standard rules in registration order with every rule that has a
// without-suggestions variant replaced by it.
func c08VariantList() []validator.Rule {
	if c08Variants == nil {
		for _, r := range c18Standard {
			rep := r
			for _, v := range c18Variants {
				if v.standard.Name == r.Name {
					rep = v.variant
				}
			}
			c08Variants = append(c08Variants, rep)
		}
	}
	return c08Variants
}
