package gen

// Profile documents: hand-written valid documents that contain every kind of syntax node,
// used as skeletons whose token gaps, tokens or holes are then varied exhaustively.

// ExecProfiles are syntactically valid executable documents (not necessarily valid against
// any schema).
var ExecProfiles = []string{
	`query Q ( $v : Int = 1 @d , $w : [ [ In ! ] ] ! = [ [ { a : 1 } ] ] ) @d ( x : $v ) { al : f ( a : 1 , b : 1.5 , c : "s" , d : """b""" , e : true , g : null , h : EN , i : [ 1 , $v ] , j : { k : $w , l : { m : [ ] } } ) @d @e ( y : 2 ) { g ... F @d ... on T @d { h } ... @d { i } ... { j } } k }`,
	`mutation M { m ( in : { a : "x" } ) { id } } subscription S { s } fragment F on T @d ( x : 1 , y : [ { k : 2 } ] ) { f ... G @d ( z : 3 ) } fragment G ( $fv : Int = 2 ) on U { g } { anon }`,
	`query Q ( $a : Int = [ { k : EN } ] @d ( x : [ { k : EN } ] ) , $c : [ Int ! ] ! ) @e ( y : $a ) { f ( z : { k : [ $a ] } ) @e ( y : $a ) ... F @e ( y : $a ) ... on T @e ( y : $a ) { g } on : on ( on : on ) true null } fragment F ( $b : Int @d ( x : 2 ) ) on T @e ( y : $b ) { h } subscription fragment { query }`,
	`{ s ( a : "line\nGrüße" , b : "q\"é😀\\ü" , c : [ "\u00e9 ü" , { k : "t\tñ" } ] ) @d ( m : "x\nÿ" ) }`,
	`{ big ( f : 1e400 , g : -1.5E+309 , i : 123456789012345678901234567890 , z : -0 , z2 : 0.0e0 , e : [ 1e999 , { k : 2E-999 } ] ) }`,
	`{ a ( x : """
  multi
    line
  """ , y : "é😀" ) b }`,
	// strings with raw characters a lexer may special-case: TAB, DEL, U+FFFD, U+FFFF, a BOM, NBSP, U+3000, U+2028;
	// block strings that are blank on one line, and block strings indented with non-ASCII spaces
	"{ s ( a : \"x\ty\" , b : \"\ufffd\" , c : [ \"a\ufffdb\uffffc\" , { k : \"\x7f\ufeff\u00a0\u3000\u2028\" } ] , d : \"\"\" \"\"\" , e : \"\"\"\t\"\"\" , f : [ \"\"\"   \"\"\" , 1 , \"\"\"\n\u3000a\n\u3000b\n\"\"\" ] , g : \"\"\"\n\u00a0 a\n\u00a0 b\"\"\" , h : \"\"\"x\n   y\n  z\"\"\" ) @d ( m : \"\"\"\ufffd \"\"\" ) }",
}

// SDLProfiles are syntactically valid type-system documents.
var SDLProfiles = []string{
	`"schema description" schema @sd ( a : 1 ) { query : Q mutation : M subscription : S } extend schema @sd { query : Q } extend schema { mutation : M }
"""
scalar
description
""" scalar Sc @d ( a : "x" ) extend scalar Sc @e
"d" type Q implements I & J @d { "fd" f ( "ad" a : Int = 1 @d , b : [ In ! ] ! = [ { x : 1 } ] ) : [ Q ! ] ! @d g : Sc } extend type Q implements K @d { "hd" h ( "ad" a : Int = 3 @d ) : Int @d } extend type Q @d extend type Q implements K
interface I implements J @d { f : Int } extend interface I @d { g : Int } extend interface I @d
union U @d = | Q | M extend union U @d = S extend union U @d union V = Q union W
enum E @d { "vd" A @d B } extend enum E @d { C } extend enum E @d
input In @d { "id" x : Int = 1 @d y : [ In ] } extend input In @d { "zd" z : Int = 2 @d w : [ In ] = [ { x : 1 } ] } extend input In @d
"dd" directive @d ( "ad" a : Int = 1 @e ) repeatable on | FIELD | OBJECT directive @e on SCHEMA directive @sd ( a : Int ) on SCHEMA
type M { m : Int } type S { s : Int } interface J { f : Int } interface K { f : Int }`,
	// every constant context (directive site, default value) holds an enum value nested in a list and an object,
	// so a single inserted `$` turns it into a variable at that site
	`schema @d ( a : [ { k : EN } ] ) { query : Q } extend schema @d ( a : [ { k : EN } ] )
scalar Sc @d ( a : [ { k : EN } ] ) extend scalar Sc @d ( a : [ { k : EN } ] )
type Q @d ( a : [ { k : EN } ] ) { f ( x : Int = [ { k : EN } ] @d ( a : [ { k : EN } ] ) ) : Int @d ( a : [ { k : EN } ] ) }
extend type Q @d ( a : [ { k : EN } ] ) { g ( x : Int = EN @d ( a : EN ) ) : Int @d ( a : EN ) } extend type Q @d ( a : EN )
interface I @d ( a : [ { k : EN } ] ) { f : Int @d ( a : EN ) } extend interface I @d ( a : [ { k : EN } ] ) { g ( y : Int @d ( a : EN ) ) : Int }
union U @d ( a : [ { k : EN } ] ) = Q extend union U @d ( a : [ { k : EN } ] ) = Q
enum E @d ( a : [ { k : EN } ] ) { A @d ( a : [ { k : EN } ] ) } extend enum E @d ( a : EN ) { B @d ( a : EN ) }
input In @d ( a : [ { k : EN } ] ) { x : Int = [ { k : EN } ] @d ( a : [ { k : EN } ] ) } extend input In @d ( a : EN ) { y : Int = EN @d ( a : EN ) } extend input In @d ( a : [ EN ] )
directive @d ( a : Int = [ { k : EN } ] @d ( a : [ { k : EN } ] ) ) repeatable on FIELD`,
	// several schema extensions: directive-only ones before, between and after those that add root operation types
	`schema { query : A } extend schema @e extend schema { mutation : B } extend schema @e @e extend schema @e { subscription : C } extend schema @e
type A { f : Int } type B { g : Int } type C { h : Int } directive @e repeatable on SCHEMA`,
	`"desc with \"quotes\" and Größe" enum E { "v \n ü" A } input I { "é then \t ñ" x : String = "d\nüber" @d ( a : "q\\ß" ) } directive @d ( a : String = "e\u0041é" ) on ENUM_VALUE | INPUT_FIELD_DEFINITION`,
	`type A { f : Int }
"""
block
  description
"""
type B { "x" g ( a : Int = 1 ) : Int }
# comment
enum C { X Y }`,
	// raw TAB / U+FFFD / NBSP in quoted strings; block strings blank on one line; block strings indented with
	// non-ASCII spaces; text on the line of the closing quotes, less indented than the others
	"\"a\tb\ufffd\" type A { \"\"\" \"\"\" f ( \"\"\"\t\"\"\" x : String = \"\"\"   \"\"\" @d ( a : \"\"\"\n\u3000p\n\u3000q\n\"\"\" ) ) : Int @d ( a : [ \"\"\" \"\"\" , { k : \"\"\"\n\u00a0 r\n\u00a0 s\"\"\" } ] ) }\n\"\"\"\n    Hello,\n      World!\n  Bye.\"\"\" enum E { \"\"\"summary\n   detail\"\"\" A @d ( a : \"\\u00e9\ufffd\t\" ) } directive @d ( a : String = \"\"\"\n\n  x\n \t\n\"\"\" ) on ENUM_VALUE | FIELD_DEFINITION | ARGUMENT_DEFINITION",
}
