package props

import (
	"fmt"
	"regexp"
	"runtime/debug"
	"strings"
	"unicode/utf8"

	"github.com/vektah/gqlparser/v2/gqlerror"
	"github.com/vektah/gqlparser/v2/verifhook"
)

// callResult describes one guarded execution of repository code.
type callResult struct {
	Panicked bool
	Budget   bool // the panic was the step budget / depth limit
	PanicVal string
	Site     string // top repository frame of the panic
	Stack    string
	Steps    int64
	MaxDepth int
}

var frameRe = regexp.MustCompile(`(?m)^(github\.com/vektah/gqlparser/v2[^\s(]*(?:\([^)]*\))?[^\s(]*)\(`)

// guarded runs f with the step counter reset and a step budget / depth limit armed;
// panics are recovered and described.
func guarded(budget int64, depthLimit int, f func()) (r callResult) {
	verifhook.Reset(budget, depthLimit)
	defer func() {
		r.Steps = verifhook.Steps
		r.MaxDepth = verifhook.MaxDepth
		if p := recover(); p != nil {
			r.Panicked = true
			if b, ok := p.(verifhook.BudgetExceeded); ok {
				r.Budget = true
				r.PanicVal = b.Error()
			} else {
				r.PanicVal = fmt.Sprint(p)
			}
			r.Stack = string(debug.Stack())
			r.Site = panicSite(r.Stack)
		}
		verifhook.Reset(0, 0)
	}()
	f()
	return
}

func panicSite(stack string) string {
	for _, m := range frameRe.FindAllStringSubmatch(stack, -1) {
		f := m[1]
		if strings.Contains(f, "/verifhook.") {
			continue
		}
		return strings.TrimPrefix(f, "github.com/vektah/gqlparser/v2/")
	}
	return "?"
}

var numRe = regexp.MustCompile(`[0-9]+`)

func normMsg(s string) string {
	s = numRe.ReplaceAllString(s, "N")
	if len(s) > 80 {
		s = s[:80]
	}
	return s
}

// srcMap answers position questions about one source text, counting characters the way
// the specification does (a character = one code point; an invalid UTF-8 byte counts as
// one character; CRLF is one line terminator).
type srcMap struct {
	lineLens []int // characters per line, terminators excluded
	nchars   int
	lineOf   []int // per character offset 0..nchars (inclusive): 1-based line
	colOf    []int // per character offset: 1-based column
}

func newSrcMap(s string) *srcMap {
	m := &srcMap{}
	line, col := 1, 1
	cur := 0
	i := 0
	for i < len(s) {
		m.lineOf = append(m.lineOf, line)
		m.colOf = append(m.colOf, col)
		c := s[i]
		switch {
		case c == '\n':
			m.lineLens = append(m.lineLens, cur)
			cur = 0
			line++
			col = 1
			i++
		case c == '\r':
			if i+1 < len(s) && s[i+1] == '\n' {
				// CR LF: two characters, one terminator. The LF sits on the old line, past its end.
				m.lineOf = append(m.lineOf, line)
				m.colOf = append(m.colOf, col+1)
				m.nchars++
				i++
			}
			m.lineLens = append(m.lineLens, cur)
			cur = 0
			line++
			col = 1
			i++
		default:
			_, w := utf8.DecodeRuneInString(s[i:])
			i += w
			cur++
			col++
		}
		m.nchars++
	}
	m.lineOf = append(m.lineOf, line)
	m.colOf = append(m.colOf, col)
	m.lineLens = append(m.lineLens, cur)
	return m
}

// inside reports whether (line, col) lies inside the text: an existing line and a column
// at most one past the last character of that line.
func (m *srcMap) inside(line, col int) bool {
	if line < 1 || line > len(m.lineLens) {
		return false
	}
	return col >= 1 && col <= m.lineLens[line-1]+1
}

func errLocs(err error) (*gqlerror.Error, bool) {
	ge, ok := err.(*gqlerror.Error)
	return ge, ok
}
