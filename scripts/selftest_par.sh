#!/bin/bash
# selftest_par.sh [N=4]  — demonstrate detection for every stored seeded change, N at a time. Each worker
# has a scratch worktree of /repo HEAD and a scratch copy of /verif (both under /tmp, removed at the end):
# the patch is applied to the worktree, the harness is rebuilt from it and the quick check(s) named in the
# seed's meta.json are run. /repo and /verif themselves are not touched. (seed_run.sh is the one-at-a-time
# variant that applies the patch to /repo itself; every seed went through it when it was stored.)
. "$(dirname "$0")/env.sh"
N="${1:-4}"
cd "$VERIF_ROOT"
ls -d seeded/*/ > /tmp/selftest-list.txt
rm -f /tmp/selftest-out-*.txt
worker() {
  k="$1"; wt=/tmp/selftest-wt$k; vc=/tmp/selftest-verif$k
  git -C /repo worktree add --detach "$wt" HEAD >/dev/null 2>&1
  rsync -a --delete --exclude .git --exclude replays --exclude bin --exclude .work --exclude evidence "$VERIF_ROOT/" "$vc/"
  sed -i "s#=> /repo#=> $wt#" "$vc/mc/go.mod"
  i=0
  while read -r d; do
    i=$((i+1)); [ $((i % N)) -eq "$k" ] || continue
    name="$(basename "$d")"
    git -C "$wt" checkout -q -- . ; git -C "$wt" clean -fdq
    if ! git -C "$wt" apply "$VERIF_ROOT/$d/patch.diff" 2>/dev/null; then echo "$name - applies=false caught=false" >> /tmp/selftest-out-$k.txt; continue; fi
    for id in $(python3 -c "import json,sys; m=json.load(open('$VERIF_ROOT/$d/meta.json')); print(' '.join(k.split()[0] for k,v in m['detected_by'].items() if k!='strengthening' and 'not run' not in v))"); do
      out="$(cd "$vc" && VERIF_ROOT="$vc" VERIF_REPO="$wt" timeout 1500 scripts/check.sh "$id" quick --no-evidence 2>&1)"; rc=$?
      key="$(echo "$out" | grep -a 'violation key' | head -1 | cut -c1-160 | tr -d '\n')"
      caught=false; [ "$rc" -eq 1 ] && echo "$out" | grep -aq '^VIOLATION' && caught=true
      echo "$name $id applies=true caught=$caught rc=$rc $key" >> /tmp/selftest-out-$k.txt
    done
  done < /tmp/selftest-list.txt
  git -C /repo worktree remove --force "$wt" >/dev/null 2>&1; rm -rf "$vc"
}
for k in $(seq 0 $((N-1))); do worker "$k" & done
wait
git -C /repo worktree prune
cat /tmp/selftest-out-*.txt | sort > /tmp/selftest-all.txt
python3 - <<'PY'
import json,subprocess
rows=[]
for l in open('/tmp/selftest-all.txt'):
    p=l.split()
    if len(p)<4: continue
    rows.append({"seed":p[0],"check":p[1],"applies":p[2]=="applies=true","caught":p[3]=="caught=true","first_cause_key":" ".join(p[5:])[:200] if len(p)>5 else ""})
head=subprocess.check_output(['git','-C','/repo','rev-parse','--short','HEAD'],text=True).strip()
json.dump({"how":"scripts/selftest_par.sh: every stored seeded change applied to a scratch worktree of /repo HEAD, harness rebuilt from it, the quick check(s) of its meta.json run","repo_head":head,"seeds":rows,"n":len(rows),"all_apply":all(r["applies"] for r in rows),"all_caught":all(r["caught"] for r in rows)}, open('evidence/selftest.json','w'), indent=1)
print('selftest:', sum(r["caught"] for r in rows), 'of', len(rows), 'caught;', sum(not r["applies"] for r in rows), 'do not apply')
PY
