// Command instrument writes instrumented copies of the repository's current source files
// and a `go build -overlay` description. Nothing in the repository is modified.
//
// Insertions are spliced into the original text at byte offsets on the same line (no new
// lines are added), so file:line in stack traces still refer to the repository's files.
//
//	hook                         where
//	verifhook.Enter/Leave        entry of every function and function literal
//	verifhook.Tick               start of every for/range body
//	verifhook.MapKeys            every range over a map-typed expression (explorer owns order)
//	verifhook.Store/StoreMap     before assignments / inc-dec / delete whose target is not a plain local (-stores)
//	verifhook.Global             before statements mentioning a package-level variable (-stores)
package main

import (
	"encoding/json"
	"flag"
	"fmt"
	"go/ast"
	"go/token"
	"go/types"
	"os"
	"path/filepath"
	"sort"
	"strings"

	"golang.org/x/tools/go/packages"
)

type splice struct {
	off  int
	end  int // replace [off,end) ; end==off → pure insertion
	text string
	seq  int
}

type stats struct {
	Files, Funcs, Loops, MapRanges, Stores, MapStores, Globals, GlobalVars, SkippedStores int
	Skipped                                                                               []string
}

const hookPath = "github.com/vektah/gqlparser/v2/verifhook"

func main() {
	repo := flag.String("repo", "/repo", "repository root")
	out := flag.String("out", "", "work directory (overlay files + overlay.json)")
	hooksrc := flag.String("hooksrc", "", "path of hook.go.src")
	stores := flag.Bool("stores", true, "insert Store/Global hooks")
	plain := flag.Bool("plain", false, "no instrumentation: overlay only adds the (idle) verifhook package")
	flag.Parse()
	if *out == "" || *hooksrc == "" {
		fmt.Fprintln(os.Stderr, "usage: instrument -out DIR -hooksrc FILE [-repo /repo]")
		os.Exit(2)
	}
	must(os.MkdirAll(*out, 0o755))
	overlay := map[string]string{}
	hookAbs, err := filepath.Abs(*hooksrc)
	must(err)
	overlay[filepath.Join(*repo, "verifhook", "hook.go")] = hookAbs
	st := &stats{}
	if !*plain {
		cfg := &packages.Config{
			Mode: packages.NeedName | packages.NeedFiles | packages.NeedSyntax | packages.NeedTypes |
				packages.NeedTypesInfo | packages.NeedImports | packages.NeedDeps | packages.NeedCompiledGoFiles,
			Dir: *repo,
			Env: append(os.Environ(), "GOFLAGS=-mod=mod", "GOPROXY=off", "GOSUMDB=off", "GOTOOLCHAIN=local"),
		}
		pkgs, err := packages.Load(cfg, "./...")
		must(err)
		for _, p := range pkgs {
			if len(p.Errors) > 0 {
				fmt.Fprintf(os.Stderr, "instrument: package %s has errors: %v\n", p.PkgPath, p.Errors)
				os.Exit(3)
			}
			if strings.HasSuffix(p.PkgPath, "/testrunner") || strings.HasSuffix(p.PkgPath, "/verifhook") {
				continue
			}
			for i, f := range p.Syntax {
				name := p.CompiledGoFiles[i]
				if strings.HasSuffix(name, "_test.go") {
					continue
				}
				src, err := os.ReadFile(name)
				must(err)
				res, changed := instrumentFile(p, f, src, *stores, st)
				if !changed {
					continue
				}
				rel, _ := filepath.Rel(*repo, name)
				dst := filepath.Join(*out, "src", rel)
				must(os.MkdirAll(filepath.Dir(dst), 0o755))
				must(os.WriteFile(dst, res, 0o644))
				overlay[name] = dst
				st.Files++
			}
		}
	}
	js, _ := json.MarshalIndent(map[string]any{"Replace": overlay}, "", " ")
	must(os.WriteFile(filepath.Join(*out, "overlay.json"), js, 0o644))
	sj, _ := json.MarshalIndent(st, "", " ")
	must(os.WriteFile(filepath.Join(*out, "instrument-stats.json"), sj, 0o644))
}

func must(err error) {
	if err != nil {
		fmt.Fprintln(os.Stderr, "instrument:", err)
		os.Exit(3)
	}
}

type inst struct {
	p      *packages.Package
	src    []byte
	sp     []splice
	st     *stats
	stores bool
	file   string
	inList map[ast.Stmt]bool
}

func (in *inst) off(p token.Pos) int { return in.p.Fset.Position(p).Offset }

func (in *inst) insert(off int, text string) {
	in.sp = append(in.sp, splice{off: off, end: off, text: text, seq: len(in.sp)})
}
func (in *inst) replace(off, end int, text string) {
	in.sp = append(in.sp, splice{off: off, end: end, text: text, seq: len(in.sp)})
}
func (in *inst) text(n ast.Node) string { return string(in.src[in.off(n.Pos()):in.off(n.End())]) }

func instrumentFile(p *packages.Package, f *ast.File, src []byte, stores bool, st *stats) ([]byte, bool) {
	in := &inst{p: p, src: src, st: st, stores: stores, file: filepath.Base(p.Fset.Position(f.Pos()).Filename)}
	hasBody := false
	for _, d := range f.Decls {
		if fd, ok := d.(*ast.FuncDecl); ok && fd.Body != nil {
			hasBody = true
		}
		if gd, ok := d.(*ast.GenDecl); ok && gd.Tok == token.VAR {
			hasBody = true // package-level variables are registered
		}
	}
	if !hasBody {
		return nil, false
	}
	// import right after the package clause, same line
	in.insert(in.off(f.Name.End()), `; import verifhook "`+hookPath+`"; import verifhookunsafe "unsafe"`)
	tail := "\nvar _ verifhookunsafe.Pointer\nvar _ = verifhook.Tick\n"
	// register every package-level variable of the file, so that the harness can compute
	// the memory reachable from package-level state
	var regs []string
	for _, d := range f.Decls {
		gd, ok := d.(*ast.GenDecl)
		if !ok || gd.Tok != token.VAR {
			continue
		}
		for _, sp := range gd.Specs {
			vs, ok := sp.(*ast.ValueSpec)
			if !ok {
				continue
			}
			for _, n := range vs.Names {
				if n.Name == "_" {
					continue
				}
				regs = append(regs, fmt.Sprintf("verifhook.RegisterGlobal(%q, &%s)", p.Name+"."+n.Name, n.Name))
				st.GlobalVars++
			}
		}
	}
	if len(regs) > 0 {
		tail += "func init() { " + strings.Join(regs, "; ") + " }\n"
	}
	in.insert(len(src), tail)
	for _, d := range f.Decls {
		fd, ok := d.(*ast.FuncDecl)
		if !ok || fd.Body == nil {
			continue
		}
		in.funcBody(fd.Body, fd.Name.Name)
	}
	sort.SliceStable(in.sp, func(i, j int) bool {
		if in.sp[i].off != in.sp[j].off {
			return in.sp[i].off < in.sp[j].off
		}
		return in.sp[i].seq < in.sp[j].seq
	})
	var out []byte
	cur := 0
	for _, s := range in.sp {
		if s.off < cur {
			fmt.Fprintf(os.Stderr, "instrument: overlapping splice in %s at %d\n", in.file, s.off)
			os.Exit(3)
		}
		out = append(out, src[cur:s.off]...)
		out = append(out, s.text...)
		cur = s.end
	}
	out = append(out, src[cur:]...)
	return out, true
}

func (in *inst) funcBody(b *ast.BlockStmt, name string) {
	in.st.Funcs++
	in.insert(in.off(b.Lbrace)+1, " verifhook.Enter(); defer verifhook.Leave(); ")
	in.walkStmts(b)
}

// walk visits every node below n, instrumenting loops, function literals, and stores.
func (in *inst) walkStmts(n ast.Node) {
	ast.Inspect(n, func(x ast.Node) bool {
		switch l := x.(type) {
		case *ast.BlockStmt:
			in.markList(l.List)
		case *ast.CaseClause:
			in.markList(l.Body)
		case *ast.CommClause:
			in.markList(l.Body)
		}
		if st, ok := x.(ast.Stmt); ok && in.stores && in.inList[st] {
			in.globalUse(st)
		}
		switch s := x.(type) {
		case *ast.FuncLit:
			in.funcBody(s.Body, "func")
			return false
		case *ast.ForStmt:
			in.st.Loops++
			in.insert(in.off(s.Body.Lbrace)+1, " verifhook.Tick(); ")
		case *ast.RangeStmt:
			in.st.Loops++
			tt := in.p.TypesInfo.TypeOf(s.X)
			if _, ok := tt.Underlying().(*types.Map); ok {
				in.mapRange(s)
			} else {
				in.insert(in.off(s.Body.Lbrace)+1, " verifhook.Tick(); ")
			}
		case *ast.AssignStmt:
			if in.stores {
				in.assign(s)
			}
		case *ast.IncDecStmt:
			if in.stores {
				in.storeTo(s, s.X)
			}
		case *ast.ExprStmt:
			if in.stores {
				if c, ok := s.X.(*ast.CallExpr); ok {
					if id, ok := c.Fun.(*ast.Ident); ok && id.Name == "delete" && len(c.Args) == 2 {
						if _, isBuiltin := in.p.TypesInfo.Uses[id].(*types.Builtin); isBuiltin && in.pure(c.Args[0]) {
							in.st.MapStores++
							in.insert(in.off(s.Pos()), fmt.Sprintf("verifhook.StoreMap(%s, %q); ", in.text(c.Args[0]), in.site(s.Pos())))
						}
					}
				}
			}
		}
		return true
	})
}

func (in *inst) markList(l []ast.Stmt) {
	if in.inList == nil {
		in.inList = map[ast.Stmt]bool{}
	}
	for _, s := range l {
		in.inList[s] = true
	}
}

// globalUse inserts a scheduling point before a statement whose own expressions (not its
// nested blocks or function literals) mention a package-level variable of the repository.
func (in *inst) globalUse(st ast.Stmt) {
	if _, ok := st.(*ast.LabeledStmt); ok {
		return
	}
	found := ""
	ast.Inspect(st, func(n ast.Node) bool {
		if found != "" {
			return false
		}
		switch t := n.(type) {
		case *ast.BlockStmt, *ast.FuncLit:
			if n != ast.Node(st) {
				return false
			}
		case *ast.Ident:
			if v, ok := in.p.TypesInfo.Uses[t].(*types.Var); ok && v.Pkg() != nil && !v.IsField() &&
				strings.HasPrefix(v.Pkg().Path(), "github.com/vektah/gqlparser") && v.Parent() == v.Pkg().Scope() {
				found = v.Pkg().Name() + "." + v.Name()
			}
		}
		return true
	})
	if found != "" {
		in.st.Globals++
		in.insert(in.off(st.Pos()), fmt.Sprintf("verifhook.Global(%q); ", found+"@"+in.site(st.Pos())))
	}
}

func (in *inst) site(p token.Pos) string {
	pos := in.p.Fset.Position(p)
	return fmt.Sprintf("%s/%s:%d", in.p.Name, filepath.Base(pos.Filename), pos.Line)
}

func (in *inst) mapRange(s *ast.RangeStmt) {
	in.st.MapRanges++
	if !in.pure(s.X) {
		fmt.Fprintf(os.Stderr, "instrument: map range over impure expression at %s\n", in.site(s.Pos()))
		os.Exit(3)
	}
	x := in.text(s.X)
	var lhs, rhs []string
	if id, ok := s.Key.(*ast.Ident); s.Key != nil && !(ok && id.Name == "_") {
		lhs = append(lhs, in.text(s.Key))
		rhs = append(rhs, "verifhookK")
	}
	if id, ok := s.Value.(*ast.Ident); s.Value != nil && !(ok && id.Name == "_") {
		lhs = append(lhs, in.text(s.Value))
		rhs = append(rhs, "verifhookV")
	}
	head := fmt.Sprintf("for _, verifhookK := range verifhook.MapKeys(%s) { verifhook.Tick(); verifhookV, verifhookOk := (%s)[verifhookK]; if !verifhookOk { continue }; _ = verifhookV; ", x, x)
	if len(lhs) > 0 {
		op := ":="
		if s.Tok == token.ASSIGN {
			op = "="
		}
		head += strings.Join(lhs, ", ") + " " + op + " " + strings.Join(rhs, ", ") + "; "
		if op == ":=" {
			for _, l := range lhs {
				head += "_ = " + l + "; "
			}
		}
	}
	in.replace(in.off(s.For), in.off(s.Body.Lbrace)+1, head)
}

// pure reports whether evaluating e twice is harmless (no calls except conversions/len/cap).
func (in *inst) pure(e ast.Expr) bool {
	ok := true
	ast.Inspect(e, func(n ast.Node) bool {
		switch c := n.(type) {
		case *ast.CallExpr:
			if tv, found := in.p.TypesInfo.Types[c.Fun]; found && tv.IsType() {
				return true
			}
			if id, isId := c.Fun.(*ast.Ident); isId && (id.Name == "len" || id.Name == "cap") {
				return true
			}
			ok = false
		case *ast.FuncLit:
			ok = false
		case *ast.UnaryExpr:
			if c.Op == token.ARROW {
				ok = false
			}
		}
		return ok
	})
	return ok
}

func (in *inst) assign(s *ast.AssignStmt) {
	if s.Tok == token.DEFINE {
		return
	}
	for _, l := range s.Lhs {
		in.storeTo(s, l)
	}
}

// storeTo inserts a Store hook before stmt for the assignment target l unless l is a plain
// local variable or the blank identifier.
func (in *inst) storeTo(stmt ast.Stmt, l ast.Expr) {
	l = unparen(l)
	if !in.inList[stmt] {
		if id, ok := l.(*ast.Ident); !ok || in.isGlobal(id) {
			in.st.SkippedStores++
			in.st.Skipped = append(in.st.Skipped, in.site(stmt.Pos()))
		}
		return
	}
	switch t := l.(type) {
	case *ast.Ident:
		if t.Name == "_" {
			return
		}
		obj := in.p.TypesInfo.Uses[t]
		if obj == nil {
			obj = in.p.TypesInfo.Defs[t]
		}
		v, ok := obj.(*types.Var)
		if !ok {
			return
		}
		if v.Parent() == v.Pkg().Scope() { // package-level variable
			in.st.Globals++
			in.insert(in.off(stmt.Pos()), fmt.Sprintf("verifhook.Store(uintptr(verifhookunsafe.Pointer(&%s)), verifhookunsafe.Sizeof(%s), %q); ", t.Name, t.Name, in.site(stmt.Pos())))
		}
		return
	case *ast.IndexExpr:
		xt := in.p.TypesInfo.TypeOf(t.X)
		if xt != nil {
			if _, isMap := xt.Underlying().(*types.Map); isMap {
				if !in.pure(t.X) {
					in.st.SkippedStores++
					in.st.Skipped = append(in.st.Skipped, in.site(stmt.Pos()))
					return
				}
				in.st.MapStores++
				in.insert(in.off(stmt.Pos()), fmt.Sprintf("verifhook.StoreMap(%s, %q); ", in.text(t.X), in.site(stmt.Pos())))
				return
			}
		}
	}
	if !in.pure(l) {
		in.st.SkippedStores++
		in.st.Skipped = append(in.st.Skipped, in.site(stmt.Pos()))
		return
	}
	// statements inside an if/for/switch init clause cannot be prefixed; skip those
	in.st.Stores++
	lt := in.text(l)
	in.insert(in.off(stmt.Pos()), fmt.Sprintf("verifhook.Store(uintptr(verifhookunsafe.Pointer(&%s)), verifhookunsafe.Sizeof(%s), %q); ", lt, lt, in.site(stmt.Pos())))
}

func (in *inst) isGlobal(id *ast.Ident) bool {
	v, ok := in.p.TypesInfo.Uses[id].(*types.Var)
	return ok && v.Pkg() != nil && v.Parent() == v.Pkg().Scope()
}

func unparen(e ast.Expr) ast.Expr {
	for {
		p, ok := e.(*ast.ParenExpr)
		if !ok {
			return e
		}
		e = p.X
	}
}
