package props

import (
	"bytes"
	"encoding/json"
	"fmt"
	"regexp"
	"strings"
	"time"

	"github.com/vektah/gqlparser/v2/ast"
	"github.com/vektah/gqlparser/v2/formatter"
	"github.com/vektah/gqlparser/v2/parser"

	"verif/mc/explore"
	"verif/mc/gen"
)

// C12: formatting an executable document and parsing it back yields the same document.

func init() {
	register(&Prop{ID: "C12", Run: runC12, Replay: func(c *explore.Ctx, s *explore.SubStats, v explore.Violation) {
		var in c12Input
		if json.Unmarshal(v.Input, &in) == nil {
			c12Case(c, s, in.Text, []fmtCfg{in.Cfg})
		}
	}, Assumptions: []string{
		"documents are obtained by parsing enumerated source texts with the real parser (C05 decides that those trees are the written ones)",
		"a block string and a quoted string with the same value are the same value (the formatter prints every string quoted); everything else is compared through the canonical projection, string values byte for byte",
		"formatter configurations: indent ∈ {tab, empty, one space, two spaces + tab} × comments on/off × compacted on/off (all 16)",
		"comments themselves are not part of the compared document; with comments on, the re-parsed document must still be the same",
	}})
}

type fmtCfg struct {
	Indent    string `json:"indent"`
	Comments  bool   `json:"comments"`
	Compacted bool   `json:"compacted"`
}

func (f fmtCfg) opts() []formatter.FormatterOption {
	o := []formatter.FormatterOption{formatter.WithIndent(f.Indent)}
	if f.Comments {
		o = append(o, formatter.WithComments())
	}
	if f.Compacted {
		o = append(o, formatter.WithCompacted())
	}
	return o
}

func (f fmtCfg) String() string {
	return fmt.Sprintf("indent=%q comments=%v compacted=%v", f.Indent, f.Comments, f.Compacted)
}

var allFmtCfgs = func() []fmtCfg {
	var out []fmtCfg
	for _, ind := range []string{"\t", "", " ", "  \t"} {
		for _, cm := range []bool{false, true} {
			for _, cp := range []bool{false, true} {
				out = append(out, fmtCfg{ind, cm, cp})
			}
		}
	}
	return out
}()

type c12Input struct {
	Text string `json:"text"`
	Cfg  fmtCfg `json:"cfg"`
}

var blockRe = regexp.MustCompile(`block:"`)

// normStr identifies block strings with quoted strings of the same value.
func normStr(p string) string { return blockRe.ReplaceAllString(p, `str:"`) }

func formatQuery(d *ast.QueryDocument, cfg fmtCfg) string {
	var b bytes.Buffer
	formatter.NewFormatter(&b, cfg.opts()...).FormatQueryDocument(d)
	return b.String()
}

func c12Case(c *explore.Ctx, s *explore.SubStats, text string, cfgs []fmtCfg) {
	explore.Crumb(s.Name, text)
	d, err := parser.ParseQuery(&ast.Source{Input: text, Name: "in"})
	if err != nil {
		s.Skipped++
		return
	}
	c12Doc(c, s, d, text, cfgs)
}

// c12Doc: the round trip of one tree (parsed from text, possibly edited afterwards).
func c12Doc(c *explore.Ctx, s *explore.SubStats, d *ast.QueryDocument, text string, cfgs []fmtCfg) {
	p0 := normStr(projExec(d))
	for _, cfg := range cfgs {
		s.Executions++
		s.Transitions++
		in := c12Input{text, cfg}
		bad := func(key, detail, exp, obs string) {
			c.Report(s, explore.Violation{Key: key, Input: explore.J(in), Rendered: text + "   [" + cfg.String() + "]", Detail: detail, Expected: exp, Observed: obs})
		}
		var out string
		r := guarded(0, 0, func() { out = formatQuery(d, cfg) })
		if r.Panicked {
			bad("fmt/panic site="+r.Site, r.PanicVal+"\n"+trimStack(r.Stack), "", "")
			continue
		}
		s.Validated++
		d2, err := parser.ParseQuery(&ast.Source{Input: out, Name: "formatted"})
		if err != nil {
			bad("fmt/reparse-error "+fmtFeature(p0, "", text), fmt.Sprintf("formatted text does not parse: %v\n--- formatted:\n%s", err, out), "parses", err.Error())
			s.Outcome("reparse-error")
			continue
		}
		p2 := normStr(projExec(d2))
		if p2 != p0 {
			bad("fmt/projection "+fmtFeature(p0, p2, text), "the re-parsed document differs from the original\n--- formatted:\n"+out, p0, p2)
			s.Outcome("differs")
			continue
		}
		var out2 string
		r = guarded(0, 0, func() { out2 = formatQuery(d2, cfg) })
		if r.Panicked {
			bad("fmt/panic site="+r.Site, r.PanicVal, "", "")
			continue
		}
		if out2 != out {
			bad("fmt/fixpoint "+fmtFeature(p0, "", text), "formatting the re-parsed document gives a different text", out, out2)
			s.Outcome("not-fixpoint")
			continue
		}
		s.Outcome("ok")
	}
	s.Nontrivial++
	s.Sample(func() any { return text })
}

// fmtFeature names the construct at which the projections first differ (or, for parse
// errors, a coarse feature of the document).
func fmtFeature(p0, p2, text string) string {
	if p2 != "" {
		return "node=" + treeClass(p0, p2)
	}
	var feats []string
	if strings.Contains(p0, "str:\"") {
		feats = append(feats, "string")
	}
	if strings.Contains(p0, "] dirs[dir{") && strings.Contains(p0, "var{") {
		feats = append(feats, "vardef")
	}
	return "feature=" + strings.Join(feats, "+")
}

// ---- value profile: strings with awkward characters ----------------------------------------

// c12Chars: the characters string values are built from (as values, not source text).
var c12Chars = []string{"a", " ", `"`, `\`, "\n", "\r", "\t", "\u0001", "\u007f", "é", "\u00a0", "😀", `"""`, "\u0000", "\u2028", "\ufeff", "/", "\b", "\f", "\U000e0001", "\ufffd", "x\ufffdy", ",", ":", "{", "#"}

// gqlQuote writes a string value as a GraphQL quoted string that the October-2021 lexer
// accepts: escapes for quote, backslash and everything outside printable ASCII up to
// U+FFFF; characters above U+FFFF literally.
func gqlQuote(v string) string {
	var b strings.Builder
	b.WriteByte('"')
	for _, r := range v {
		switch {
		case r == '"':
			b.WriteString(`\"`)
		case r == '\\':
			b.WriteString(`\\`)
		case r > 0xFFFF:
			b.WriteRune(r)
		case r < 0x20 || r >= 0x7f:
			fmt.Fprintf(&b, `\u%04X`, r)
		default:
			b.WriteRune(r)
		}
	}
	b.WriteByte('"')
	return b.String()
}

var c12BlockChars = []string{"a", " ", `"`, `\`, "\n", "\t", "é", "😀", `\"""`, "  ", "\n\n"}

func runC12(c *explore.Ctx) {
	lang := func(name string, n int, restrict bool) {
		what := "full-name grammar"
		if restrict {
			what = "grammar G¹"
		}
		s := c.Sub(name, fmt.Sprintf("every sentence of ≤ %d tokens of the executable %s, parsed by the real parser, × all 16 formatter configurations", n, what),
			"parse(format(d)) succeeds; its projection equals d's; format(parse(format(d))) = format(d)", "every sentence")
		if s == nil {
			return
		}
		t0 := time.Now()
		g := execSide.grammar()
		ss := language(execSide, g, "full", execSide.alpha, n, restrict)
		for i, se := range ss {
			if i%c.NShards != c.Shard {
				continue
			}
			if i&31 == 0 && c.Expired() {
				s.Cap("deadline")
				break
			}
			s.States++
			c12Case(c, s, renderClasses(execSide.alpha, se.Classes, " "), allFmtCfgs)
		}
		s.WallS = time.Since(t0).Seconds()
	}
	lang("sentences-full", c.Pick(7, 8), false)
	lang("sentences-g1", c.Pick(11, 13), true)

	// string values
	s := c.Sub("strings", fmt.Sprintf("every string value of ≤ %d symbols over %d characters (quote, backslash, LF, CR, tab, controls, DEL, NBSP, BOM, U+2028, non-BMP, non-printable non-BMP, triple quote …) written as a quoted string, and every block-string body of ≤ %d symbols over %d, as field argument, inside a list, inside an object, as variable default and as directive argument × all 16 configurations",
		c.Pick(3, 4), len(c12Chars), c.Pick(4, 5), len(c12BlockChars)),
		"round trip as above; string values byte for byte", "every value")
	if s != nil {
		t0 := time.Now()
		frames := []string{`{ f ( x : %s ) }`, `{ f ( x : [ %s , %s ] ) }`, `{ f ( x : { k : %s } ) }`, `query ( $v : S = %s ) { f @d ( x : %s ) }`}
		run := func(lit string) {
			for _, fr := range frames {
				c12Case(c, s, strings.ReplaceAll(fr, "%s", lit), allFmtCfgs)
			}
		}
		st, _, complete := explore.Seqs(len(c12Chars), c.Pick(3, 4), c.Shard, c.NShards, c.Expired, func(sym []int) bool {
			run(gqlQuote(gen.RenderStrs(c12Chars, sym)))
			return true
		})
		s.States += st
		st, _, complete2 := explore.Seqs(len(c12BlockChars), c.Pick(4, 5), c.Shard, c.NShards, c.Expired, func(sym []int) bool {
			run(`"""` + gen.RenderStrs(c12BlockChars, sym) + `"""`)
			return true
		})
		s.States += st
		if !complete || !complete2 {
			s.Cap("deadline")
		}
		s.WallS = time.Since(t0).Seconds()
	}

	// profile documents with a comment at every gap
	s = c.Sub("profiles-comments", fmt.Sprintf("%d profile documents containing every construct, plain and with a comment inserted at every single gap between tokens, × all 16 configurations", len(gen.ExecProfiles)),
		"round trip as above (with comments on, the emitted comments must not change the document)", "every rendering")
	if s != nil {
		t0 := time.Now()
		idx := 0
		for _, doc := range gen.ExecProfiles {
			toks := tokenTextsNoComments(doc)
			for gpos := -1; gpos <= len(toks); gpos++ {
				idx++
				if idx%c.NShards != c.Shard {
					continue
				}
				s.States++
				if gpos < 0 {
					c12Case(c, s, strings.Join(toks, " "), allFmtCfgs)
				} else {
					c12Case(c, s, renderGapsSep(toks, map[int]string{gpos: " # c é\n"}), allFmtCfgs)
				}
			}
		}
		s.WallS = time.Since(t0).Seconds()
	}
	s = c.Sub("tree-edits", fmt.Sprintf("the %d profile documents with every value in a non-constant position (arguments of fields and of directives on operations, fields, spreads, inline fragments and fragment definitions, at every depth) replaced, one at a time, by a variable, a block string, a string of awkward characters and a list holding a variable × all 16 configurations — trees the parser did not build", len(gen.ExecProfiles)),
		"round trip as above", "every edited tree")
	if s != nil {
		t0 := time.Now()
		c12TreeEdits(c, s, allFmtCfgs)
		s.WallS = time.Since(t0).Seconds()
	}
}

// tree edits: documents the parser did not build. Every value in a non-constant position of
// the profile documents (arguments of fields and of directives on operations, fields, fragment
// spreads, inline fragments and fragment definitions, at every depth of list and object
// literals) is replaced, one at a time, by a variable, by a block string and by a string of
// awkward characters; the edited tree must survive format → parse.
func c12TreeEdits(c *explore.Ctx, s *explore.SubStats, cfgs []fmtCfg) {
	replacements := []*ast.Value{
		{Kind: ast.Variable, Raw: "tv"},
		{Kind: ast.BlockValue, Raw: "a\n  b \\\"\"\" c"},
		{Kind: ast.StringValue, Raw: "q\"\\\n\u0001é\U000e0001"},
		{Kind: ast.ListValue, Children: ast.ChildValueList{{Value: &ast.Value{Kind: ast.Variable, Raw: "tv"}}, {Value: &ast.Value{Kind: ast.NullValue, Raw: "null"}}}},
	}
	idx := 0
	for di, text := range gen.ExecProfiles {
		d, err := parser.ParseQuery(&ast.Source{Input: text, Name: "in"})
		if err != nil {
			continue
		}
		var sites []**ast.Value
		var val func(v **ast.Value)
		val = func(v **ast.Value) {
			if *v == nil {
				return
			}
			sites = append(sites, v)
			for _, ch := range (*v).Children {
				val(&ch.Value)
			}
		}
		args := func(as ast.ArgumentList) {
			for _, a := range as {
				val(&a.Value)
			}
		}
		dirs := func(ds ast.DirectiveList) {
			for _, x := range ds {
				args(x.Arguments)
			}
		}
		var sel func(ss ast.SelectionSet)
		sel = func(ss ast.SelectionSet) {
			for _, x := range ss {
				switch n := x.(type) {
				case *ast.Field:
					args(n.Arguments)
					dirs(n.Directives)
					sel(n.SelectionSet)
				case *ast.FragmentSpread:
					dirs(n.Directives)
				case *ast.InlineFragment:
					dirs(n.Directives)
					sel(n.SelectionSet)
				}
			}
		}
		for _, op := range d.Operations {
			dirs(op.Directives)
			sel(op.SelectionSet)
		}
		for _, f := range d.Fragments {
			dirs(f.Directives)
			sel(f.SelectionSet)
		}
		// names the parser did not lex: every name site (operation, variable, field, alias, argument, object field,
		// directive, fragment, spread, type condition) renamed, one at a time, to names using every digit and underscores
		var names []*string
		var vnames func(v *ast.Value)
		vnames = func(v *ast.Value) {
			if v == nil {
				return
			}
			if v.Kind == ast.Variable || v.Kind == ast.EnumValue {
				names = append(names, &v.Raw)
			}
			for _, ch := range v.Children {
				if v.Kind == ast.ObjectValue {
					names = append(names, &ch.Name)
				}
				vnames(ch.Value)
			}
		}
		nargs := func(as ast.ArgumentList) {
			for _, a := range as {
				names = append(names, &a.Name)
				vnames(a.Value)
			}
		}
		ndirs := func(ds ast.DirectiveList) {
			for _, x := range ds {
				names = append(names, &x.Name)
				nargs(x.Arguments)
			}
		}
		var nsel func(ss ast.SelectionSet)
		nsel = func(ss ast.SelectionSet) {
			for _, x := range ss {
				switch n := x.(type) {
				case *ast.Field:
					names = append(names, &n.Name, &n.Alias)
					nargs(n.Arguments)
					ndirs(n.Directives)
					nsel(n.SelectionSet)
				case *ast.FragmentSpread:
					names = append(names, &n.Name)
					ndirs(n.Directives)
				case *ast.InlineFragment:
					if n.TypeCondition != "" {
						names = append(names, &n.TypeCondition)
					}
					ndirs(n.Directives)
					nsel(n.SelectionSet)
				}
			}
		}
		for _, op := range d.Operations {
			if op.Name != "" {
				names = append(names, &op.Name)
			}
			for _, vd := range op.VariableDefinitions {
				names = append(names, &vd.Variable)
				vnames(vd.DefaultValue)
				ndirs(vd.Directives)
			}
			ndirs(op.Directives)
			nsel(op.SelectionSet)
		}
		for _, f := range d.Fragments {
			names = append(names, &f.Name, &f.TypeCondition)
			ndirs(f.Directives)
			nsel(f.SelectionSet)
		}
		for ni, np := range names {
			for _, nn := range []string{"a9", "x0123456789", "_9_", "Z_", "onn", "nul"} {
				idx++
				if idx%c.NShards != c.Shard {
					continue
				}
				orig := *np
				*np = nn
				s.States++
				c12Doc(c, s, d, fmt.Sprintf("profile %d with name %d of %d (%s) renamed to %s: %s", di, ni, len(names), orig, nn, text), cfgs)
				*np = orig
			}
		}
		for si, site := range sites {
			for ri, rep := range replacements {
				idx++
				if idx%c.NShards != c.Shard {
					continue
				}
				orig := *site
				cp := *rep
				*site = &cp
				s.States++
				c12Doc(c, s, d, fmt.Sprintf("profile %d with value %d of %d replaced by replacement %d: %s", di, si, len(sites), ri, text), cfgs)
				*site = orig
			}
		}
	}
}
