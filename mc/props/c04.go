package props

import (
	"encoding/json"
	"fmt"
	"strings"
	"time"

	gqlparser "github.com/vektah/gqlparser/v2"
	"github.com/vektah/gqlparser/v2/ast"
	"github.com/vektah/gqlparser/v2/gqlerror"
	"github.com/vektah/gqlparser/v2/parser"
	"github.com/vektah/gqlparser/v2/validator"

	"verif/mc/explore"
	"verif/mc/gen"
	"verif/mc/ref/reflex"
)

func init() {
	register(&Prop{ID: "C04", Run: runC04, Replay: func(c *explore.Ctx, s *explore.SubStats, v explore.Violation) {
		var li lexInput
		var pi posInput
		switch {
		case strings.HasPrefix(v.Sub, "tok-") || v.Sub == "lex-chars" || v.Sub == "lex-escapes" || v.Sub == "block-bodies" || v.Sub == "block-bodies-invalid" || v.Sub == "block-lines" || v.Sub == "ignored-gaps":
			if json.Unmarshal(v.Input, &li) == nil {
				lexCase(c, s, li.Text, false, true)
			}
		default:
			if json.Unmarshal(v.Input, &pi) == nil {
				posCase(c, s, pi)
			}
		}
	}, Assumptions: []string{
		"token starts, lines and columns are recomputed by ref/reflex and a character/line table built from the text alone",
		"a character is a code point (CRLF is one line terminator, BOM one character); sources with invalid UTF-8 are not judged",
		"for lexically invalid sources an error location only has to lie inside the input, at or after the start of the token the grammar rejects",
		"node positions are judged as stated by the property (some token start of the right source with consistent line/column), not against a particular expected token per node type",
	}})
}

type posInput struct {
	Kind    string   `json:"kind"` // query | schema | load | validate | validate-merged
	Sources []string `json:"sources"`
	Names   []string `json:"names"`
	Query   string   `json:"query,omitempty"`
	Frags   string   `json:"frags,omitempty"` // validate-merged: the fragments, read from a file of their own
}

var c04Seps = []string{"\n", "\r", "\r\n", ",", "\t", "\xef\xbb\xbf", "#c\n", "#é😀\r", " \n ", "\n\n", "\"\"\"\né😀é\n\"\"\" ", "\"\"\"\nd\n\"\"\" "}

// posCase parses/loads/validates the given sources and checks every position and every
// error location that comes back.
func posCase(c *explore.Ctx, s *explore.SubStats, in posInput) {
	s.Executions++
	var srcs []*ast.Source
	for i, t := range in.Sources {
		name := "f"
		if i < len(in.Names) {
			name = in.Names[i]
		}
		srcs = append(srcs, &ast.Source{Name: name, Input: t})
	}
	rendered := strings.Join(in.Sources, "\n---\n")
	if in.Query != "" {
		rendered += "\n=== query ===\n" + in.Query
	}
	if in.Frags != "" {
		rendered += "\n=== fragments (file of their own) ===\n" + in.Frags
	}
	explore.Crumb(s.Name, rendered)
	bad := func(key, detail string) {
		c.Report(s, explore.Violation{Key: key, Input: explore.J(in), Rendered: rendered, Detail: detail})
	}
	pc := newPosChecker(append(append([]*ast.Source{}, srcs...), validator.Prelude)...)
	byName := func(name string) *ast.Source {
		for _, x := range srcs {
			if x.Name == name {
				return x
			}
		}
		if name == validator.Prelude.Name {
			return validator.Prelude
		}
		return nil
	}
	checkTree := func(v any, what string) {
		var skip map[string]bool
		if what == "validated-query" {
			skip = linkFields // schema nodes are checked through the schema itself
		}
		n := walkPositionsSkip(v, skip, func(p *ast.Position, path string) {
			if cl, d := pc.checkPos(p, what+" "+path); cl == "string-column-plus-one" {
				bad("pos/string-column-plus-one", d)
			} else if cl != "" {
				bad("pos/node "+cl+" "+pathClass(path), d)
			}
		})
		s.Transitions += int64(n)
		s.MaxOf("positions_per_tree", int64(n))
	}
	checkErr := func(err error, what string, def *ast.Source) string {
		if err == nil {
			return "ok"
		}
		var list gqlerror.List
		switch e := err.(type) {
		case *gqlerror.Error:
			list = gqlerror.List{e}
		case gqlerror.List:
			list = e
		default:
			return "err-plain"
		}
		for _, ge := range list {
			src := def
			if f, ok := ge.Extensions["file"].(string); ok {
				if b := byName(f); b != nil {
					src = b
				} else {
					bad("pos/error unknown-file "+what, fmt.Sprintf("%s: error %q names file %q which is not one of the sources", what, ge.Message, f))
					continue
				}
			}
			if src == nil {
				continue
			}
			for _, l := range ge.Locations {
				s.Transitions++
				if cl, d := pc.checkLoc(src, l, what+" error "+fmt.Sprintf("%q", ge.Message)); cl == "string-column-plus-one" {
					bad("pos/string-column-plus-one", d)
				} else if cl != "" {
					bad("pos/error "+cl+" "+what+" rule="+ge.Rule+" msg="+normMsg(ge.Message), d)
				}
			}
		}
		return "err"
	}
	outcome := ""
	r := guarded(0, 0, func() {
		switch in.Kind {
		case "query":
			d, err := parser.ParseQuery(srcs[0])
			outcome = checkErr(err, "ParseQuery", srcs[0])
			if err == nil {
				checkTree(d, "query")
			}
		case "schema":
			d, err := parser.ParseSchemas(srcs...)
			outcome = checkErr(err, "ParseSchemas", srcs[0])
			if err == nil {
				checkTree(d, "schemadoc")
			}
		case "validate-merged":
			// one executable document put together from two files: operations from one, fragments from the other
			sch, err := gqlparser.LoadSchema(srcs...)
			if err != nil {
				outcome = "schema-err"
				break
			}
			ops, frs := &ast.Source{Name: "operations.graphql", Input: in.Query}, &ast.Source{Name: "fragments.graphql", Input: in.Frags}
			pc.srcs = append(pc.srcs, ops, frs)
			srcs = append(srcs, ops, frs)
			od, oerr := parser.ParseQuery(ops)
			fd, ferr := parser.ParseQuery(frs)
			if oerr != nil || ferr != nil {
				outcome = "query-err"
				break
			}
			d := &ast.QueryDocument{Operations: od.Operations, Fragments: fd.Fragments, Position: od.Position}
			errs := validator.Validate(sch, d)
			if len(errs) > 0 {
				outcome = "invalid:" + checkErr(errs, "Validate(merged)", nil)
				for _, ge := range errs {
					if f, _ := ge.Extensions["file"].(string); f == "" {
						bad("pos/error no-file Validate(merged) rule="+ge.Rule, fmt.Sprintf("error %q of a document read from named files names no file", ge.Message))
					}
				}
			} else {
				outcome = "valid"
			}
			checkTree(d, "validated-query")
		case "load", "validate":
			sch, err := gqlparser.LoadSchema(srcs...)
			outcome = checkErr(err, "LoadSchema", nil)
			if err == nil {
				checkTree(sch, "schema")
				if in.Kind == "validate" {
					qs := &ast.Source{Name: "q", Input: in.Query}
					pc.srcs = append(pc.srcs, qs)
					srcs = append(srcs, qs)
					d, perr := parser.ParseQuery(qs)
					if perr != nil {
						outcome += " query:" + checkErr(perr, "ParseQuery", qs)
					} else {
						errs := validator.Validate(sch, d)
						if len(errs) > 0 {
							outcome += " invalid:" + checkErr(errs, "Validate", qs)
						} else {
							outcome += " valid"
						}
						checkTree(d, "validated-query")
					}
				}
			}
		}
	})
	if r.Panicked {
		bad("panic site="+r.Site, r.PanicVal+"\n"+trimStack(r.Stack))
	}
	s.Validated++
	s.Nontrivial++
	s.Outcome(in.Kind + ":" + outcome)
	s.Sample(func() any { return in })
}

// renderGaps renders tokens with the default separator " " except at the given gaps.
// Gap i sits before token i (gap 0 = before the first token, gap len(toks) = after the last).
func renderGaps(toks []string, dev map[int]string) string {
	var b strings.Builder
	for i, t := range toks {
		if sep, ok := dev[i]; ok {
			b.WriteString(sep)
		} else if i > 0 {
			b.WriteByte(' ')
		}
		b.WriteString(t)
	}
	if sep, ok := dev[len(toks)]; ok {
		b.WriteString(sep)
	}
	return b.String()
}

func tokenTexts(text string) []string {
	rs := []rune(text)
	var out []string
	for _, t := range reflex.Lex(text, reflex.Defects{}).Tokens {
		out = append(out, string(rs[t.Start:t.End]))
	}
	return out
}

func runC04(c *explore.Ctx) {
	lexSpaces(c, false, true, -1)

	// token sequences × uniform separator: mostly syntax errors, a few tiny trees
	seqs := func(name string, alpha []gen.Tok, kind string, n int) {
		s := c.Sub(name, fmt.Sprintf("every token sequence of ≤ %d tokens over %d classes × %d uniform separators (LF, CR, CRLF, comma, tab, BOM, comments)", n, len(alpha), 8),
			"every error location denotes a token start / end of input of the right source with truthful line and column; every node position of a successful parse likewise", "every case")
		if s == nil {
			return
		}
		t0 := time.Now()
		seps := []string{" ", "\n", "\r", "\r\n", ",\t", "\xef\xbb\xbf", "#é😀\r", "\n#c\n"}
		st, tr, complete := explore.Seqs(len(alpha), n, c.Shard, c.NShards, c.Expired, func(sym []int) bool {
			for _, sep := range seps {
				var b strings.Builder
				for i, x := range sym {
					if i > 0 {
						b.WriteString(sep)
					}
					b.WriteString(alpha[x].Text)
				}
				posCase(c, s, posInput{Kind: kind, Sources: []string{b.String()}})
			}
			return true
		})
		s.States += st
		s.Transitions += tr
		if !complete {
			s.Cap("deadline")
		}
		s.WallS = time.Since(t0).Seconds()
	}
	seqs("tok-exec", gen.SigmaExec, "query", c.Pick(3, 4))
	seqs("tok-sdl", gen.SigmaSDL, "schema", c.Pick(3, 4))

	// profile documents with ≤ 2 non-default separators at every combination of gaps,
	// and with every single token deleted (error locations)
	prof := func(name, kind string, docs []string) {
		s := c.Sub(name, fmt.Sprintf("%d profile documents containing every kind of node; default separator one space; every placement of ≤ 2 non-default separators from a menu of %d at every pair of gaps at most 4 (quick) / 32 (thorough) apart; every single-token deletion × every single separator deviation (thorough) / × default (quick)", len(docs), len(c04Seps)),
			"every node position and every error location truthful (offset in source, token start, line, column, source)", "every case")
		if s == nil {
			return
		}
		t0 := time.Now()
		idx := 0
		run := func(text string) {
			idx++
			if idx%c.NShards != c.Shard {
				return
			}
			s.States++
			posCase(c, s, posInput{Kind: kind, Sources: []string{text}})
		}
		for _, doc := range docs {
			toks := tokenTexts(doc)
			g := len(toks) + 1
			run(renderGaps(toks, nil))
			menu := c04Seps
			if kind == "query" {
				menu = c04Seps[:len(c04Seps)-1] // a string between tokens is not ignorable in a query
			}
			for i := 0; i < g; i++ {
				for _, a := range menu {
					run(renderGaps(toks, map[int]string{i: a}))
				}
			}
			second := menu
			window := 32 // thorough: the two deviations sit at most 32 gaps apart (all pairs of the largest profile do not fit the deadline)
			if !c.Thorough() {
				window = 4 // quick: at most 4 gaps apart
			}
			for i := 0; i < g; i++ {
				if c.Expired() {
					s.Cap("deadline")
					return
				}
				for j := i + 1; j < g && j <= i+window; j++ {
					for _, a := range menu {
						for _, b := range second {
							run(renderGaps(toks, map[int]string{i: a, j: b}))
						}
					}
				}
			}
			// deletions
			for k := range toks {
				del := append(append([]string{}, toks[:k]...), toks[k+1:]...)
				run(renderGaps(del, nil))
				if c.Thorough() {
					for i := 0; i < len(del)+1; i++ {
						for _, a := range menu[:8] {
							run(renderGaps(del, map[int]string{i: a}))
						}
					}
				} else {
					for _, a := range []string{"\n", "\r\n"} {
						run(renderGaps(del, map[int]string{k: a}))
						if k > 0 {
							run(renderGaps(del, map[int]string{k - 1: a}))
						}
					}
				}
			}
		}
		s.WallS = time.Since(t0).Seconds()
	}
	prof("profile-exec", "query", gen.ExecProfiles)
	prof("profile-sdl", "schema", gen.SDLProfiles)
	c04Load(c)
}

// c04Load: loaded schemas (single and multi-source) and validation errors.
func c04Load(c *explore.Ctx) {
	s := c.Sub("load-validate", "validation-kit schema rendered with every single separator deviation, split over 2–3 named sources at every cut of its top-level definitions, with one injected fault per source; × invalid documents (every validation rule fires), also put together from an operations file and a fragments file",
		"every position in the loaded schema, every schema error and every validation error location is truthful and names the right source", "every case")
	if s == nil {
		return
	}
	t0 := time.Now()
	defs := gen.PosSchemaDefs
	idx := 0
	run := func(in posInput) {
		idx++
		if idx%c.NShards != c.Shard {
			return
		}
		s.States++
		posCase(c, s, in)
	}
	whole := strings.Join(defs, "\n")
	for _, q := range gen.PosQueries {
		run(posInput{Kind: "validate", Sources: []string{whole}, Names: []string{"schema.graphql"}, Query: q})
		for _, sep := range []string{"\n", "\r\n", "\r", "#é\n", "\xef\xbb\xbf"} {
			toks := tokenTexts(q)
			for i := 0; i <= len(toks); i++ {
				run(posInput{Kind: "validate", Sources: []string{whole}, Names: []string{"schema.graphql"}, Query: renderGaps(toks, map[int]string{i: sep})})
			}
		}
	}
	// executable documents put together from two files (operations on line 1 of one, fragments further down in the
	// other, so that a location of one file does not exist in the other), every separator at every gap of the fragments
	for _, m := range [][2]string{
		{`query Q { id node(id: "1") { ...F ...G } nope }`, `fragment F on Pet { id colour } fragment G on Node { id ...F zz }`},
		{`{ ...H }`, `fragment H on Query { search(q: $undef) { __typename } date { x } } fragment U on Person { id }`},
		{`query A($v: Int) { ...K } query A { id }`, `fragment K on Query @nope { list(xs: $v) k: id k: date }`},
	} {
		toks := tokenTexts(m[1])
		for _, sep := range []string{"\n", "\r\n", "\r", "#é\n", "\xef\xbb\xbf"} {
			for i := 0; i <= len(toks); i++ {
				run(posInput{Kind: "validate-merged", Sources: []string{whole}, Names: []string{"schema.graphql"}, Query: m[0], Frags: "# shared fragments\n\n  " + renderGaps(toks, map[int]string{i: sep})})
			}
		}
	}
	// every cut into two and three sources, CRLF/LF joins, and a fault appended to one source
	faults := append([]string{""}, gen.PosSchemaFaults...)
	for _, join := range []string{"\n", "\r\n", "\n\"\"\"\nd\n\"\"\"\n"} {
		for i := 1; i < len(defs); i++ {
			for j := i; j <= len(defs); j++ {
				parts := []string{strings.Join(defs[:i], join), strings.Join(defs[i:j], join), strings.Join(defs[j:], join)}
				names := []string{"a.graphql", "b.graphql", "c.graphql"}
				for fi, f := range faults {
					for at := 0; at < 3; at++ {
						if f == "" && at > 0 {
							continue
						}
						if !c.Thorough() && fi > 0 && (i+j+at)%3 != 0 {
							continue
						}
						ps := append([]string{}, parts...)
						if f != "" {
							ps[at] = ps[at] + "\n" + f
						}
						var srcs, nms []string
						for k := range ps {
							if strings.TrimSpace(ps[k]) != "" {
								srcs = append(srcs, ps[k])
								nms = append(nms, names[k])
							}
						}
						run(posInput{Kind: "load", Sources: srcs, Names: nms})
					}
				}
			}
		}
	}
	s.WallS = time.Since(t0).Seconds()
}
