// Package sched is a cooperative scheduler for exploring thread interleavings: threads are
// goroutines that run one at a time; a thread hands control back at every scheduling
// point (Point), and the explorer chooses which runnable thread continues. Switching away
// from a thread that could have continued is a preemption.
package sched

import (
	"fmt"
	"runtime/debug"
)

type thread struct {
	id     int
	resume chan struct{}
	done   bool
	panicV any
	stack  string
}

type Scheduler struct {
	threads []*thread
	yield   chan *thread // a thread announces it reached a point (or finished)
	cur     *thread
	// Choose picks among n runnable threads; index 0 is the running thread if it is still
	// runnable (canonical order: running thread first, then ascending ids). cost reports
	// whether a non-zero choice is a preemption.
	Choose  func(n int, preemption bool) int
	Points  int
	Trace   []int // thread id chosen at every decision
	running bool
}

var active *Scheduler

// Point is called by the instrumented code (through the hook) at every scheduling point.
func Point() {
	s := active
	if s == nil || !s.running || s.cur == nil {
		return
	}
	t := s.cur
	s.Points++
	s.yield <- t
	<-t.resume
}

// Run executes the bodies to completion under the scheduler. It returns the panic value of
// the first thread that panicked (nil if none) and whether a deadlock was observed (never,
// as long as the bodies do not block on each other).
func (s *Scheduler) Run(bodies []func()) (panicked any, stack string) {
	s.yield = make(chan *thread)
	s.threads = nil
	for i, b := range bodies {
		t := &thread{id: i, resume: make(chan struct{})}
		s.threads = append(s.threads, t)
		body := b
		go func() {
			<-t.resume
			defer func() {
				if p := recover(); p != nil {
					t.panicV = p
					t.stack = string(debug.Stack())
				}
				t.done = true
				s.yield <- t
			}()
			body()
		}()
	}
	active = s
	s.running = true
	defer func() { s.running = false; active = nil }()
	var last *thread
	for {
		var runnable []*thread
		if last != nil && !last.done {
			runnable = append(runnable, last)
		}
		for _, t := range s.threads {
			if !t.done && t != last {
				runnable = append(runnable, t)
			}
		}
		if len(runnable) == 0 {
			break
		}
		k := 0
		if len(runnable) > 1 {
			k = s.Choose(len(runnable), last != nil && !last.done)
			if k < 0 || k >= len(runnable) {
				panic(fmt.Sprintf("sched: choice %d out of %d", k, len(runnable)))
			}
		}
		t := runnable[k]
		s.Trace = append(s.Trace, t.id)
		s.cur = t
		t.resume <- struct{}{}
		<-s.yield
		s.cur = nil
		last = t
	}
	for _, t := range s.threads {
		if t.panicV != nil {
			return t.panicV, t.stack
		}
	}
	return nil, ""
}
