#!/bin/bash
# seed_try.sh <seed dir> <ID> <slot> [tier]  — triage a seeded change without touching /repo or /verif:
# (1) seed_verify.sh (scratch worktree: suite green with the change, demonstration fails with it / passes without);
# (2) the patch is applied to a second scratch worktree of /repo HEAD, a scratch copy of /verif (slot-numbered, under
#     /tmp, removed afterwards) is pointed at it, its harness is rebuilt from that tree and the check is run.
# Several slots can run side by side. Prints the SEED line, the first cause keys and
#   SEEDTRY <dir> check=<ID> tier=<tier> exit=<rc>
. "$(dirname "$0")/env.sh"
d="$(cd "$1" && pwd)"; id="$2"; k="$3"; tier="${4:-quick}"
"$VERIF_ROOT/scripts/seed_verify.sh" "$d" 2>&1 | grep -a -A12 '^SEED ' | head -14
wt=/tmp/seedtry-wt$k; vc=/tmp/seedtry-verif$k
trap 'git -C /repo worktree remove --force "$wt" >/dev/null 2>&1; rm -rf "$wt" "$vc"; git -C /repo worktree prune' EXIT
git -C /repo worktree remove --force "$wt" >/dev/null 2>&1; rm -rf "$wt" "$vc"
git -C /repo worktree add --detach "$wt" HEAD >/dev/null 2>&1 || { echo "SEEDTRY $d worktree-failed"; exit 2; }
rsync -a --delete --exclude .git --exclude replays --exclude bin --exclude .work --exclude evidence --exclude seeded "$VERIF_ROOT/" "$vc/"
sed -i "s#=> /repo#=> $wt#" "$vc/mc/go.mod"
git -C "$wt" apply "$d/patch.diff" || { echo "SEEDTRY $d patch-does-not-apply"; exit 2; }
out="$(cd "$vc" && VERIF_ROOT="$vc" VERIF_REPO="$wt" timeout 1800 scripts/check.sh "$id" "$tier" --no-evidence 2>&1)"; rc=$?
echo "$out" | grep -aE "BUILD-FAILED|violation key" | cut -c1-260 | head -6
echo "$out" | grep -aE "^VIOLATION" | head -2
echo "$out" | grep -aE "^KNOWN|INCONCLUSIVE" | cut -c1-200 | head -4
echo "SEEDTRY $d check=$id tier=$tier exit=$rc"
