#!/usr/bin/env python3
"""seed_keep.py <src dir> <name> <props comma> <needs> <detected_by json>  — store a confirmed seeded change under /verif/seeded/<name>/."""
import sys, os, shutil, json, subprocess
src, name, props, needs, det = sys.argv[1:6]
root = os.path.dirname(os.path.dirname(os.path.abspath(__file__)))
dst = os.path.join(root, 'seeded', name); os.makedirs(dst, exist_ok=True)
for f in ('patch.diff', 'demo_test.go', 'notes.md'):
    if os.path.exists(os.path.join(src, f)): shutil.copy(os.path.join(src, f), os.path.join(dst, f))
v = subprocess.run([os.path.join(root, 'scripts', 'seed_verify.sh'), dst], capture_output=True, text=True)
line = [l for l in v.stdout.splitlines() if l.startswith('SEED ')]
meta = {"name": name, "breaks": props.split(','), "needs_to_manifest": needs,
        "confirmed": (line[0] if line else v.stdout[-300:]), "confirmed_ok": v.returncode == 0,
        "what_was_run": "scripts/seed_verify.sh (scratch worktree of /repo HEAD: suite with the change passes, demo fails with it and passes without it); scripts/seed_run.sh <dir> <ID> quick (apply to /repo, run the check, undo)",
        "repo_head": subprocess.check_output(['git', '-C', '/repo', 'rev-parse', '--short', 'HEAD'], text=True).strip(),
        "detected_by": json.loads(det)}
json.dump(meta, open(os.path.join(dst, 'meta.json'), 'w'), indent=1)
print(name, 'confirmed_ok=', meta['confirmed_ok'])
