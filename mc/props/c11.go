package props

import (
	"bytes"
	"crypto/sha1"
	"encoding/json"
	"fmt"
	"os"
	"os/exec"
	"path/filepath"
	"reflect"
	"sort"
	"strconv"
	"strings"
	"sync"
	"time"

	gqlparser "github.com/vektah/gqlparser/v2"
	"github.com/vektah/gqlparser/v2/ast"
	"github.com/vektah/gqlparser/v2/formatter"
	"github.com/vektah/gqlparser/v2/parser"
	"github.com/vektah/gqlparser/v2/validator"
	"github.com/vektah/gqlparser/v2/validator/rules"
	"github.com/vektah/gqlparser/v2/verifhook"

	"verif/mc/explore"
	"verif/mc/gen"
	"verif/mc/sched"
)

// C11: a loaded schema is read-only: shared across goroutines without races or drift.

func init() {
	register(&Prop{ID: "C11", Run: runC11, Replay: func(c *explore.Ctx, s *explore.SubStats, v explore.Violation) {
		var in c11Input
		if json.Unmarshal(v.Input, &in) == nil {
			c11Replay(c, s, in)
		}
	}, Assumptions: []string{
		"operations: parse+validate of 7 documents (valid with fragments, invalid with suggestions, introspection with fragments, variables with defaults in non-null positions, repeatable directives, overlapping fields, deep introspection), 3 variable coercions, 2 argument resolutions, FormatSchema — each on its own freshly parsed document, all on one shared schema",
		"state of the schema = a canonical deep snapshot by reflection: every field of every definition reachable from the Schema, slices up to their capacity (so an append into spare capacity shows), map contents, pointer-sharing structure",
		"write monitor: every assignment, increment, delete and map store of the repository whose target is not a plain local variable reports its target address; an address inside memory owned by the schema graph is a violation even if the stored value is equal",
		"interleavings: threads are switched at every statement that mentions a package-level variable of the repository and at every store into schema-owned or package-level memory; blocks between such points touch only thread-private memory (documents, locals) or read the schema, so switching elsewhere cannot change the outcome unless the schema is written — which the monitor reports by itself. Exhaustive for 2 threads (3 in the thorough tier) up to the stated preemption bound",
		"memory-model effects are outside a cooperative scheduler; a separate free-running pass of the same bodies under the race detector (8 goroutines, auxiliary, sampled schedules) covers data races",
	}})
}

// ---- operations ---------------------------------------------------------------------------

type c11Op struct {
	Name string
	Run  func(s *ast.Schema) string
}

func c11Validate(q string) func(s *ast.Schema) string {
	return func(s *ast.Schema) string {
		doc, err := parser.ParseQuery(&ast.Source{Name: "q.graphql", Input: q})
		if err != nil {
			return "parse: " + err.Error()
		}
		return errSig(validator.Validate(s, doc))
	}
}

const c11VarsDoc = `query Q($a: Int = 1, $k: Kind = DOG, $f: Filter = {req: true}, $xs: [[Int]!], $fl: Float, $big: Big = B9, $bigs: [Big!]) { req(a: $a) pet(kind: $k) { id } search(f: $f, ks: [$k]) { __typename } list(xs: $xs) id @tag(name: "t", n: $a) nums n2: nums(xs: [1], z: $fl) o: id @once o2: id @once(w: $fl) big(b: $big, bs: $bigs) }`

func c11Coerce(vars func() map[string]any) func(s *ast.Schema) string {
	return func(s *ast.Schema) string {
		doc, err := parser.ParseQuery(&ast.Source{Name: "q.graphql", Input: c11VarsDoc})
		if err != nil {
			return "parse: " + err.Error()
		}
		if errs := validator.Validate(s, doc); len(errs) > 0 {
			return "invalid: " + errSig(errs)
		}
		out, cerr := validator.VariableValues(s, doc.Operations[0], vars())
		if cerr != nil {
			return "error: " + cerr.Error()
		}
		return goRepr(out)
	}
}

// c11CoerceDoc: like c11Coerce for a document of its own.
func c11CoerceDoc(text string, vars func() map[string]any) func(s *ast.Schema) string {
	return func(s *ast.Schema) string {
		doc, err := parser.ParseQuery(&ast.Source{Name: "q.graphql", Input: text})
		if err != nil {
			return "parse: " + err.Error()
		}
		if errs := validator.Validate(s, doc); len(errs) > 0 {
			return "invalid: " + errSig(errs)
		}
		out, cerr := validator.VariableValues(s, doc.Operations[0], vars())
		if cerr != nil {
			return "error: " + cerr.Error()
		}
		return goRepr(out)
	}
}

func c11ArgMap(onDirective bool) func(s *ast.Schema) string {
	return func(s *ast.Schema) string {
		doc, err := parser.ParseQuery(&ast.Source{Name: "q.graphql", Input: c11VarsDoc})
		if err != nil {
			return "parse: " + err.Error()
		}
		if errs := validator.Validate(s, doc); len(errs) > 0 {
			return "invalid: " + errSig(errs)
		}
		vars, cerr := validator.VariableValues(s, doc.Operations[0], map[string]any{"a": 5, "xs": []any{1}})
		if cerr != nil {
			return "error: " + cerr.Error()
		}
		var parts []string
		for _, sel := range doc.Operations[0].SelectionSet {
			f := sel.(*ast.Field)
			if onDirective {
				for _, d := range f.Directives {
					parts = append(parts, f.Alias+"@"+d.Name+"="+goRepr(d.ArgumentMap(vars)))
				}
			} else {
				parts = append(parts, f.Alias+"="+goRepr(f.ArgumentMap(vars)))
			}
		}
		return strings.Join(parts, "; ")
	}
}

// c11CallerRules: a rule list shared by every call of validate-caller-rule-list.
var c11CallerRules = []validator.Rule{rules.ScalarLeafsRule, {RuleFunc: rules.FieldsOnCorrectTypeRule.RuleFunc}}

var c11Ops = []c11Op{
	{"validate-fragments", c11Validate(`query Q { node(id: 1) { ...NF } pet { ...PF } trio { ... on Pet { id } ...TF ... on Node { id } } search { ... on Named { id } } } fragment NF on Node { id ... on Pet { kind } } fragment PF on Pet { owner { pets { id } } } fragment TF on Trio { __typename ... on Robot { model } }`)},
	{"validate-unimplemented-interface", c11Validate(`query Q { planned { ...PL ... on Planned { eta } ... on Pet { id } nope } } fragment PL on Planned { id etaa }`)},
	{"validate-caller-rule-list", func(s *ast.Schema) string {
		// a rule list of the caller's, one rule without a name: the list is the caller's to keep
		doc, err := parser.ParseQuery(&ast.Source{Name: "q.graphql", Input: `{ id { x } pet }`})
		if err != nil {
			return "parse: " + err.Error()
		}
		before := fmt.Sprintf("%q %q", c11CallerRules[0].Name, c11CallerRules[1].Name)
		res := errSig(validator.Validate(s, doc, c11CallerRules...))
		if after := fmt.Sprintf("%q %q", c11CallerRules[0].Name, c11CallerRules[1].Name); after != before {
			c11CallerRules[1].Name = ""
			return "VIOLATION: Validate changed the caller's rule list: names " + before + " became " + after
		}
		return res
	}},
	{"validate-typename-everywhere", c11Validate(`{ __typename pet { __typename owner { __typename pets { __typename } } } node(id: 1) { __typename } named { __typename } search { __typename } trio { __typename ... on Robot { __typename } } }`)},
	// @oneOf input objects supplied through variables: one member, then the other (nested under a list too)
	{"coerce-oneof-first-member", c11CoerceDoc(`query O($o: OneIn) { one(arg: $o) a: one(arg: {a: 1}) }`, func() map[string]any {
		return map[string]any{"o": map[string]any{"a": 1}}
	})},
	{"coerce-oneof-second-member", c11CoerceDoc(`query O($o: OneIn) { one(arg: $o) b: one(arg: {b: "x"}) }`, func() map[string]any {
		return map[string]any{"o": map[string]any{"b": "x"}}
	})},
	{"validate-suggestions", c11Validate(`{ nam pett { id } node(idd: 1) { id } search(q: 1, ks: [DOGG]) { __typename } ... on Pett { id } }`)},
	{"validate-introspection", c11Validate(`{ __schema { types { ...T } } __type(name: "Pet") { fields { name } } } fragment T on __Type { name fields { name } }`)},
	{"validate-variables", c11Validate(c11VarsDoc)},
	{"validate-directives", c11Validate(`query Q($c: Boolean = true) @tag(name: "q") { id @include(if: $c) @tag(name: "a") @tag(name: "b") ... @skip(if: false) { x: id } y: id @once @once }`)},
	{"validate-overlap", c11Validate(`{ pet { n: name ...O } pet { n: nick } search { ... on Pet { n: name } ... on Person { n: nick } } req } fragment O on Pet { n: name }`)},
	{"validate-deep-introspection", c11Validate(`{ __schema { types { ...A } } } fragment A on __Type { fields { type { ...B } } } fragment B on __Type { fields { type { fields { name } } } }`)},
	{"coerce-conforming", c11Coerce(func() map[string]any {
		return map[string]any{"a": 5, "k": "CAT", "big": "B10", "bigs": []any{"B1", "B9"}, "f": map[string]any{"req": true, "kinds": "DOG", "sub": map[string]any{"req": false}}}
	})},
	{"coerce-lists", c11Coerce(func() map[string]any { return map[string]any{"xs": []any{1, []any{2, nil}}, "f": nil} })},
	{"coerce-error", c11Coerce(func() map[string]any { return map[string]any{"big": "B11", "f": map[string]any{"req": nil}} })},
	{"coerce-no-variables", func(s *ast.Schema) string {
		doc, err := parser.ParseQuery(&ast.Source{Name: "q.graphql", Input: `{ id pet { name } }`})
		if err != nil {
			return "parse: " + err.Error()
		}
		if errs := validator.Validate(s, doc); len(errs) > 0 {
			return "invalid: " + errSig(errs)
		}
		out, cerr := validator.VariableValues(s, doc.Operations[0], map[string]any{})
		if cerr != nil {
			return "error: " + cerr.Error()
		}
		res := goRepr(out)
		if out != nil {
			out["tagged-by-caller"] = true // the result is the caller's to keep and to change
		}
		return res
	}},
	{"revalidate-document", func(s *ast.Schema) string {
		// an input field with a default given a variable without one, inside an object literal; the
		// same parsed document validated twice
		doc, err := parser.ParseQuery(&ast.Source{Name: "q.graphql", Input: `query Q($n: Int, $k: [Kind!], $nm: String) { search(f: {req: true, min: $n, kinds: $k, name: $nm}) { __typename } nums(xs: [$n], z: $n) }`})
		if err != nil {
			return "parse: " + err.Error()
		}
		a := errSig(validator.Validate(s, doc))
		b := errSig(validator.Validate(s, doc))
		return a + " | again: " + b
	}},
	{"argument-map-fields", c11ArgMap(false)},
	{"argument-map-directives", c11ArgMap(true)},
	{"format-schema", func(s *ast.Schema) string {
		var b bytes.Buffer
		formatter.NewFormatter(&b).FormatSchema(s)
		h := sha1.Sum(b.Bytes())
		return fmt.Sprintf("%d bytes %x", b.Len(), h[:6])
	}},
	{"format-schema-builtin-compacted", func(s *ast.Schema) string {
		var b bytes.Buffer
		formatter.NewFormatter(&b, formatter.WithBuiltin(), formatter.WithCompacted(), formatter.WithComments(), formatter.WithoutDescription()).FormatSchema(s)
		h := sha1.Sum(b.Bytes())
		return fmt.Sprintf("%d bytes %x", b.Len(), h[:6])
	}},
	// an unknown field on an interface and on unions whose possible types are not declared in name order
	{"validate-unknown-field-on-abstract", c11Validate(`{ node(id: 1) { nope } search { nope } named { nick } trio { zz ... on Node { idd } } }`)},
	// input objects that carry __typename (a result sent back as input), nested
	{"coerce-typename-keys", c11Coerce(func() map[string]any {
		return map[string]any{"f": map[string]any{"req": true, "__typename": "Filter", "sub": map[string]any{"req": false, "__typename": "Filter"}}}
	})},
}

func c11Load() *ast.Schema {
	s, err := gqlparser.LoadSchema(&ast.Source{Name: "kit-schema.graphql", Input: gen.ValidSchemas[0]})
	if err != nil {
		panic("C11 schema does not load: " + err.Error())
	}
	return s
}

var (
	c11AloneOnce sync.Once
	c11Alone     []string
)

// alone: the result of every operation run by itself on a fresh schema.
func c11AloneResults() []string {
	c11AloneOnce.Do(func() {
		schema := c11Load()
		for _, op := range c11Ops {
			// the very first run of every operation in this process: lazily filled package-level
			// state (caches, memo tables) shows here and nowhere later
			before := globalsSnapshot()
			c11Alone = append(c11Alone, op.Run(schema))
			if d := globalsDiff(before, globalsSnapshot()); d != "" {
				c11FirstRunDrift = append(c11FirstRunDrift, op.Name+": "+d)
			}
		}
	})
	return c11Alone
}

// c11FirstRunDrift: package-level variables of the library that changed during the first run
// of an operation in this process (operation: variables).
var c11FirstRunDrift []string

// ---- snapshot and owned memory ---------------------------------------------------------------

type memRange struct{ lo, hi uintptr }

type owned struct {
	ranges []memRange
	maps   map[uintptr]bool
}

func (o *owned) hit(addr, size uintptr) bool {
	if size == 0 {
		return o.maps[addr]
	}
	i := sort.Search(len(o.ranges), func(i int) bool { return o.ranges[i].hi > addr })
	return i < len(o.ranges) && o.ranges[i].lo < addr+size && addr < o.ranges[i].hi
}

// snapshotSchema returns the canonical dump of everything reachable from the schema and
// the memory it owns. Sources (texts) are not schema-owned state and are only named.
func snapshotSchema(s *ast.Schema) (string, *owned) {
	var b strings.Builder
	ow := &owned{maps: map[uintptr]bool{}}
	ids := map[uintptr]int{}
	srcT := reflect.TypeOf(&ast.Source{})
	var rec func(v reflect.Value, depth int)
	rec = func(v reflect.Value, depth int) {
		if depth > 400 {
			b.WriteString("<deep>")
			return
		}
		switch v.Kind() {
		case reflect.Ptr:
			if v.IsNil() {
				b.WriteString("nil")
				return
			}
			if v.Type() == srcT {
				fmt.Fprintf(&b, "src(%s)", v.Interface().(*ast.Source).Name)
				return
			}
			p := v.Pointer()
			if id, seen := ids[p]; seen {
				fmt.Fprintf(&b, "^%d", id)
				return
			}
			ids[p] = len(ids)
			fmt.Fprintf(&b, "&%d", ids[p])
			ow.ranges = append(ow.ranges, memRange{p, p + v.Type().Elem().Size()})
			rec(v.Elem(), depth+1)
		case reflect.Interface:
			if v.IsNil() {
				b.WriteString("nil")
				return
			}
			rec(v.Elem(), depth+1)
		case reflect.Struct:
			b.WriteString(v.Type().Name() + "{")
			for i := 0; i < v.NumField(); i++ {
				b.WriteString(v.Type().Field(i).Name + ":")
				rec(v.Field(i), depth+1)
				b.WriteByte(' ')
			}
			b.WriteByte('}')
		case reflect.Slice:
			if v.IsNil() {
				b.WriteString("nil[]")
				return
			}
			full := v.Slice(0, v.Cap())
			if v.Cap() > 0 {
				p := full.Pointer()
				ow.ranges = append(ow.ranges, memRange{p, p + uintptr(v.Cap())*v.Type().Elem().Size()})
			}
			fmt.Fprintf(&b, "[len=%d cap=%d:", v.Len(), v.Cap())
			for i := 0; i < full.Len(); i++ {
				rec(full.Index(i), depth+1)
				b.WriteByte(',')
			}
			b.WriteByte(']')
		case reflect.Map:
			if v.IsNil() {
				b.WriteString("nilmap")
				return
			}
			ow.maps[v.Pointer()] = true
			keys := v.MapKeys()
			sort.Slice(keys, func(i, j int) bool { return fmt.Sprint(keys[i]) < fmt.Sprint(keys[j]) })
			b.WriteString("map{")
			for _, k := range keys {
				fmt.Fprintf(&b, "%v=", k)
				rec(v.MapIndex(k), depth+1)
				b.WriteByte(';')
			}
			b.WriteByte('}')
		case reflect.String:
			fmt.Fprintf(&b, "%q", v.String())
		default:
			fmt.Fprintf(&b, "%v", v)
		}
	}
	rec(reflect.ValueOf(s), 0)
	sort.Slice(ow.ranges, func(i, j int) bool { return ow.ranges[i].lo < ow.ranges[j].lo })
	// merge overlapping ranges (elements inside slices are also visited as struct pointers)
	var merged []memRange
	for _, r := range ow.ranges {
		if n := len(merged); n > 0 && r.lo <= merged[n-1].hi {
			if r.hi > merged[n-1].hi {
				merged[n-1].hi = r.hi
			}
			continue
		}
		merged = append(merged, r)
	}
	ow.ranges = merged
	return b.String(), ow
}

// globalsOwned: the memory reachable from the package-level variables of the repository
// (registered by the build overlay), recomputed for every execution.
func globalsOwned() *owned {
	ow := &owned{maps: map[uintptr]bool{}}
	seen := map[uintptr]bool{}
	var rec func(v reflect.Value, depth int)
	rec = func(v reflect.Value, depth int) {
		if depth > 60 || !v.IsValid() {
			return
		}
		switch v.Kind() {
		case reflect.Ptr:
			if v.IsNil() || seen[v.Pointer()] {
				return
			}
			seen[v.Pointer()] = true
			ow.ranges = append(ow.ranges, memRange{v.Pointer(), v.Pointer() + v.Type().Elem().Size()})
			rec(v.Elem(), depth+1)
		case reflect.Interface:
			if !v.IsNil() {
				rec(v.Elem(), depth+1)
			}
		case reflect.Struct:
			for i := 0; i < v.NumField(); i++ {
				rec(v.Field(i), depth+1)
			}
		case reflect.Slice:
			if v.IsNil() || v.Cap() == 0 {
				return
			}
			full := v.Slice(0, v.Cap())
			p := full.Pointer()
			if seen[p] {
				return
			}
			seen[p] = true
			ow.ranges = append(ow.ranges, memRange{p, p + uintptr(v.Cap())*v.Type().Elem().Size()})
			for i := 0; i < v.Len(); i++ {
				rec(v.Index(i), depth+1)
			}
		case reflect.Map:
			if v.IsNil() || ow.maps[v.Pointer()] {
				return
			}
			ow.maps[v.Pointer()] = true
			for _, k := range v.MapKeys() {
				rec(v.MapIndex(k), depth+1)
			}
		}
	}
	for _, g := range verifhook.Globals {
		rec(reflect.ValueOf(g.Ptr), 0)
	}
	sort.Slice(ow.ranges, func(i, j int) bool { return ow.ranges[i].lo < ow.ranges[j].lo })
	var merged []memRange
	for _, r := range ow.ranges {
		if n := len(merged); n > 0 && r.lo <= merged[n-1].hi {
			if r.hi > merged[n-1].hi {
				merged[n-1].hi = r.hi
			}
			continue
		}
		merged = append(merged, r)
	}
	ow.ranges = merged
	return ow
}

func snapHash(s string) string {
	h := sha1.Sum([]byte(s))
	return fmt.Sprintf("%x", h[:8])
}

// ---- cases --------------------------------------------------------------------------------

type c11Input struct {
	Kind     string `json:"kind"` // history | interleaving
	Ops      []int  `json:"ops"`
	Schedule []int  `json:"schedule,omitempty"` // choice vector of the interleaving
	Bound    int    `json:"bound,omitempty"`
}

func (in c11Input) String() string {
	var ns []string
	for _, o := range in.Ops {
		ns = append(ns, c11Ops[o].Name)
	}
	s := in.Kind + ": " + strings.Join(ns, " ; ")
	if in.Schedule != nil {
		s += fmt.Sprintf("  schedule=%v", in.Schedule)
	}
	return s
}

type c11Monitor struct {
	ow   *owned
	hits []string
}

func (m *c11Monitor) install() {
	verifhook.OnStore = func(addr, size uintptr, site string) {
		if m.ow.hit(addr, size) {
			m.hits = append(m.hits, site)
		}
	}
}

func c11Uninstall() {
	verifhook.OnStore = nil
	verifhook.OnPoint = nil
}

// c11History runs the operations one after another on one fresh schema.
// globalsSnapshot: a canonical dump of every package-level variable of the repository (as
// registered by the build overlay), one entry per variable. Functions and channels are
// skipped; pointers are followed (cycles cut). The library's operations on a loaded schema are
// supposed to be functions of their arguments: a package-level variable that changes while
// they run is state shared by every goroutine and every schema of the process.
func globalsSnapshot() map[string]string {
	out := map[string]string{}
	for _, g := range verifhook.Globals {
		var b strings.Builder
		seen := map[uintptr]bool{}
		var rec func(v reflect.Value, depth int)
		rec = func(v reflect.Value, depth int) {
			if depth > 12 || !v.IsValid() {
				b.WriteString("…")
				return
			}
			switch v.Kind() {
			case reflect.Ptr:
				if v.IsNil() {
					b.WriteString("nil")
					return
				}
				if seen[v.Pointer()] {
					b.WriteString("^")
					return
				}
				seen[v.Pointer()] = true
				b.WriteString("&")
				rec(v.Elem(), depth+1)
			case reflect.Interface:
				if v.IsNil() {
					b.WriteString("nil")
					return
				}
				rec(v.Elem(), depth+1)
			case reflect.Struct:
				b.WriteString("{")
				for i := 0; i < v.NumField(); i++ {
					b.WriteString(v.Type().Field(i).Name + ":")
					rec(v.Field(i), depth+1)
					b.WriteString(" ")
				}
				b.WriteString("}")
			case reflect.Slice, reflect.Array:
				fmt.Fprintf(&b, "[%d:", v.Len())
				for i := 0; i < v.Len() && i < 400; i++ {
					rec(v.Index(i), depth+1)
					b.WriteString(",")
				}
				b.WriteString("]")
			case reflect.Map:
				keys := v.MapKeys()
				ks := make([]string, len(keys))
				byKey := map[string]reflect.Value{}
				for i, k := range keys {
					ks[i] = fmt.Sprint(k)
					byKey[ks[i]] = v.MapIndex(k)
				}
				sort.Strings(ks)
				fmt.Fprintf(&b, "map[%d:", len(ks))
				for _, k := range ks {
					b.WriteString(k + "=")
					rec(byKey[k], depth+1)
					b.WriteString(",")
				}
				b.WriteString("]")
			case reflect.Func, reflect.Chan, reflect.UnsafePointer:
				if v.IsNil() {
					b.WriteString("nil")
				} else {
					b.WriteString("fn")
				}
			case reflect.String:
				b.WriteString(strconv.Quote(v.String()))
			case reflect.Bool:
				fmt.Fprint(&b, v.Bool())
			case reflect.Int, reflect.Int8, reflect.Int16, reflect.Int32, reflect.Int64:
				fmt.Fprint(&b, v.Int())
			case reflect.Uint, reflect.Uint8, reflect.Uint16, reflect.Uint32, reflect.Uint64, reflect.Uintptr:
				fmt.Fprint(&b, v.Uint())
			case reflect.Float32, reflect.Float64:
				fmt.Fprint(&b, v.Float())
			default:
				b.WriteString("?")
			}
		}
		rec(reflect.ValueOf(g.Ptr), 0)
		out[g.Name] = snapHash(b.String())
	}
	return out
}

func globalsDiff(a, b map[string]string) string {
	var names []string
	for k, v := range b {
		if a[k] != v {
			names = append(names, k)
		}
	}
	sort.Strings(names)
	return strings.Join(names, ",")
}

func c11History(c *explore.Ctx, s *explore.SubStats, ops []int, states map[string]bool) {
	in := c11Input{Kind: "history", Ops: append([]int{}, ops...)}
	explore.Crumb(s.Name, in.String())
	s.Executions++
	bad := func(key, detail, exp, obs string) {
		c.Report(s, explore.Violation{Key: key, Input: explore.J(in), Rendered: in.String(), Detail: detail, Expected: exp, Observed: obs})
	}
	alone := c11AloneResults()
	schema := c11Load()
	snap0, ow := snapshotSchema(schema)
	states[snapHash(snap0)] = true
	s.States++
	mon := &c11Monitor{ow: ow}
	mon.install()
	defer c11Uninstall()
	for o, res := range alone {
		if strings.HasPrefix(res, "VIOLATION: ") {
			bad("write/caller-owned op="+c11Ops[o].Name, strings.TrimPrefix(res, "VIOLATION: "), "", "")
			return
		}
	}
	for _, d := range c11FirstRunDrift {
		bad("drift/global first-run "+d, "the first run of the operation in this process changed package-level variable(s) of the library ("+d+"): state shared by every goroutine and every schema of the process", "", "")
	}
	glob0 := globalsSnapshot()
	for i, o := range ops {
		var res string
		r := guarded(20_000_000, 0, func() { res = c11Ops[o].Run(schema) })
		s.Transitions++
		if d := globalsDiff(glob0, globalsSnapshot()); d != "" && !r.Panicked {
			bad("drift/global var="+d+" op="+c11Ops[o].Name, fmt.Sprintf("%s changed the package-level variable(s) %s of the library: state shared by every goroutine and schema of the process", c11Ops[o].Name, d), "", "")
			return
		}
		if r.Panicked {
			bad("panic op="+c11Ops[o].Name, r.PanicVal+"\n"+trimStack(r.Stack), "", "")
			return
		}
		if len(mon.hits) > 0 {
			bad("write site="+mon.hits[0]+" op="+c11Ops[o].Name, fmt.Sprintf("%s writes into memory owned by the loaded schema at %s (%d such writes)", c11Ops[o].Name, mon.hits[0], len(mon.hits)), "", "")
			return
		}
		if strings.HasPrefix(res, "VIOLATION: ") {
			bad("write/caller-owned op="+c11Ops[o].Name, strings.TrimPrefix(res, "VIOLATION: "), "", "")
			return
		}
		if res != alone[o] {
			prev := "(first operation)"
			if i > 0 {
				prev = c11Ops[ops[i-1]].Name
			}
			bad("drift/result op="+c11Ops[o].Name+" after="+prev, fmt.Sprintf("%s returns something else after %v than when run alone", c11Ops[o].Name, in.String()), alone[o], res)
			return
		}
		snap, _ := snapshotSchema(schema)
		states[snapHash(snap)] = true
		s.States++
		if snap != snap0 {
			bad("drift/schema op="+c11Ops[o].Name+" "+firstDiffWord(snap0, snap), c11Ops[o].Name+" changed the loaded schema", "", "")
			return
		}
	}
	s.Validated++
	s.Nontrivial++
	s.Outcome("unchanged")
	s.Sample(func() any { return in.String() })
}

func firstDiffWord(a, b string) string {
	n := 0
	for n < len(a) && n < len(b) && a[n] == b[n] {
		n++
	}
	lo := n - 60
	if lo < 0 {
		lo = 0
	}
	ctx := a[lo:n]
	// the last "Name:" field label before the difference
	i := strings.LastIndex(ctx, ":")
	if i > 0 {
		j := strings.LastIndexAny(ctx[:i], " {")
		return "at=" + ctx[j+1:i]
	}
	return "at=?"
}

// c11Interleave runs the operations as threads under the cooperative scheduler following
// the chooser; returns the number of scheduling points.
func c11Interleave(c *explore.Ctx, s *explore.SubStats, ops []int, ch *explore.Chooser, bound int, schema *ast.Schema, snap0 string, ow *owned) (ok bool) {
	alone := c11AloneResults()
	results := make([]string, len(ops))
	mon := &c11Monitor{ow: ow}
	shared := false
	gl := globalsOwned()
	verifhook.OnStore = func(addr, size uintptr, site string) {
		shared = false
		if ow.hit(addr, size) {
			mon.hits = append(mon.hits, site)
			shared = true
		} else if gl.hit(addr, size) {
			shared = true // memory reachable from a package-level variable: a scheduling point
		}
	}
	verifhook.OnPoint = func(kind, site string) {
		if kind == "global" || shared {
			sched.Point()
		}
		shared = false
	}
	defer c11Uninstall()
	sc := &sched.Scheduler{Choose: func(n int, preemption bool) int {
		if preemption {
			return ch.Deviate(n)
		}
		return ch.Choose(n)
	}}
	var bodies []func()
	for i, o := range ops {
		i, o := i, o
		bodies = append(bodies, func() { results[i] = c11Ops[o].Run(schema) })
	}
	pv, stack := sc.Run(bodies)
	s.Executions++
	s.MaxOf("scheduling_points", int64(sc.Points))
	in := c11Input{Kind: "interleaving", Ops: append([]int{}, ops...), Schedule: ch.Choices(), Bound: bound}
	bad := func(key, detail, exp, obs string) {
		c.Report(s, explore.Violation{Key: key, Input: explore.J(in), Rendered: in.String(), Detail: detail, Expected: exp, Observed: obs})
	}
	if pv != nil {
		bad("panic interleaved ops="+opNames(ops), fmt.Sprint(pv)+"\n"+trimStack(stack), "", "")
		return false
	}
	if len(mon.hits) > 0 {
		bad("write site="+mon.hits[0], fmt.Sprintf("a write into memory owned by the shared schema at %s while running %s", mon.hits[0], opNames(ops)), "", "")
		return false
	}
	for i, o := range ops {
		if results[i] != alone[o] {
			other := ops[(i+1)%len(ops)]
			bad("drift/interleaved op="+c11Ops[o].Name+" other="+c11Ops[other].Name, fmt.Sprintf("%s returns something else when interleaved with %s (schedule %v) than when run alone", c11Ops[o].Name, c11Ops[other].Name, sc.Trace), alone[o], results[i])
			return false
		}
	}
	if snap, _ := snapshotSchema(schema); snap != snap0 {
		bad("drift/schema interleaved ops="+opNames(ops), "the shared schema changed", "", "")
		return false
	}
	s.Validated++
	return true
}

func opNames(ops []int) string {
	var ns []string
	for _, o := range ops {
		ns = append(ns, c11Ops[o].Name)
	}
	return strings.Join(ns, "+")
}

func c11Replay(c *explore.Ctx, s *explore.SubStats, in c11Input) {
	if in.Kind == "history" {
		c11History(c, s, in.Ops, map[string]bool{})
		return
	}
	schema := c11Load()
	snap0, ow := snapshotSchema(schema)
	ch := explore.NewReplayChooser(in.Schedule)
	c11Interleave(c, s, in.Ops, ch, in.Bound, schema, snap0, ow)
}

// C11Race: the free-running bodies for the race-detector build (auxiliary pass).
func C11Race(rounds int) {
	schema := c11Load()
	alone := c11AloneResults()
	var wg sync.WaitGroup
	var mu sync.Mutex
	drift := 0
	for g := 0; g < 8; g++ {
		g := g
		wg.Add(1)
		go func() {
			defer wg.Done()
			for r := 0; r < rounds; r++ {
				o := (g*7 + r) % len(c11Ops)
				if res := c11Ops[o].Run(schema); res != alone[o] {
					mu.Lock()
					drift++
					mu.Unlock()
				}
			}
		}()
	}
	wg.Wait()
	fmt.Printf("c11race rounds=%d goroutines=8 drift=%d\n", rounds, drift)
	if drift > 0 {
		os.Exit(3)
	}
}

func runC11(c *explore.Ctx) {
	n := len(c11Ops)
	// 1 + 2: histories with snapshot equality and the write monitor
	depth := c.Pick(3, 4)
	s := c.Sub("histories", fmt.Sprintf("explicit-state search over call histories: every sequence of ≤ %d operations from an alphabet of %d on one freshly loaded schema; after every operation the canonical deep snapshot of the schema graph is compared with the initial state and the write monitor is read", depth, n),
		"every reachable state equals the initial state (expected number of distinct states: 1), no store into schema-owned memory, and every operation returns what it returns when run alone", "every history")
	if s != nil {
		t0 := time.Now()
		states := map[string]bool{}
		st, _, complete := explore.Seqs(n, depth, c.Shard, c.NShards, c.Expired, func(sym []int) bool {
			if len(sym) > 0 {
				c11History(c, s, sym, states)
			}
			return true
		})
		_ = st
		for h := range states {
			s.Outcome("schema-state " + h) // distinct canonical states of the schema graph (one = never modified)
		}
		if !complete {
			s.Cap("deadline")
		}
		s.Extra["distinct_schema_states_this_shard"] = float64(len(states))
		s.WallS = time.Since(t0).Seconds()
	}

	// 3: interleavings
	bound := c.Pick(2, 3)
	// the process-wide rule registry is read, not rearranged, by validations under the default rule set (sequential:
	// registering a rule is a write of the caller's, so this is no operation of the shared alphabet)
	s = c.Sub("registry-read-only", fmt.Sprintf("a rule of the caller's registered under a name that sorts before / between / after the standard rules, then every validating operation of the alphabet (%d) under the default rule set", len(c11Ops)),
		"no package-level variable of the library (the rule registry among them) differs before and after the validation", "every case")
	if s != nil && c.Shard == 0 {
		t0 := time.Now()
		schema := c11Load()
		for _, name := range []string{"AAA-first-by-name", "LoneAnonymousOperationZ", "zzz-last-by-name"} {
			validator.AddRule(name, func(observers *validator.Events, addError validator.AddErrFunc) {
				observers.OnOperation(func(walker *validator.Walker, op *ast.OperationDefinition) {
					addError(validator.Message("custom rule saw an operation"), validator.At(op.Position))
				})
			})
			for o, op := range c11Ops {
				if !strings.HasPrefix(op.Name, "validate") {
					continue
				}
				s.States++
				s.Executions++
				s.Transitions++
				before := globalsSnapshot()
				res := op.Run(schema)
				d := globalsDiff(before, globalsSnapshot())
				s.Validated++
				s.Outcome("unchanged")
				if d != "" {
					c.Report(s, explore.Violation{Key: "drift/global rule-registry op=" + op.Name + " custom=" + name, Input: explore.J(map[string]any{"op": o, "custom": name}), Rendered: op.Name + " with a rule registered as " + name,
						Detail: "a validation under the default rule set changed package-level state: " + d, Observed: res})
				}
			}
			validator.RemoveRule(name)
		}
		s.WallS = time.Since(t0).Seconds()
	}
	s = c.Sub("interleavings-2", fmt.Sprintf("every ordered pair of operations (%d) as two threads on one shared schema, every schedule with ≤ %d preemptions over the scheduling points (statements touching package-level state, stores into shared memory)", n*n, bound),
		"under every schedule each call returns its run-alone result, the schema snapshot is unchanged and the write monitor is silent", "schedules with at least one switch")
	if s != nil {
		t0 := time.Now()
		idx := 0
		for a := 0; a < n && s.Exhaustive; a++ {
			for b := 0; b < n; b++ {
				idx++
				if idx%c.NShards != c.Shard {
					continue
				}
				if c.Expired() {
					s.Cap("deadline")
					break
				}
				schema := c11Load()
				snap0, ow := snapshotSchema(schema)
				ts, err := explore.Tree(bound, 0, 1, c.Expired, func(ch *explore.Chooser) {
					if !c11Interleave(c, s, []int{a, b}, ch, bound, schema, snap0, ow) {
						schema = c11Load()
						snap0, ow = snapshotSchema(schema)
					}
					if ch.Deviations() > 0 {
						s.Nontrivial++
					}
				})
				if err != nil {
					panic("C11 harness is nondeterministic: " + err.Error())
				}
				s.States += ts.States
				s.Transitions += ts.Transitions
				if !ts.Complete {
					s.Cap("deadline")
				}
			}
		}
		s.Outcome("equal-to-alone")
		s.WallS = time.Since(t0).Seconds()
	}
	if c.Thorough() {
		sub := []int{1, 3, 5, 8, 10, 13, 17} // unimplemented interface, suggestions, variables, deep introspection, coerce-lists, revalidate-document, format-schema-builtin-compacted
		s = c.Sub("interleavings-3", fmt.Sprintf("every ordered triple over %d operations as three threads, every schedule with ≤ 2 preemptions", len(sub)), "as above", "schedules with at least one switch")
		if s != nil {
			t0 := time.Now()
			idx := 0
			for _, a := range sub {
				for _, b := range sub {
					for _, d := range sub {
						idx++
						if idx%c.NShards != c.Shard {
							continue
						}
						schema := c11Load()
						snap0, ow := snapshotSchema(schema)
						ts, err := explore.Tree(2, 0, 1, c.Expired, func(ch *explore.Chooser) {
							if !c11Interleave(c, s, []int{a, b, d}, ch, 2, schema, snap0, ow) {
								schema = c11Load()
								snap0, ow = snapshotSchema(schema)
							}
							if ch.Deviations() > 0 {
								s.Nontrivial++
							}
						})
						if err != nil {
							panic("C11 harness is nondeterministic: " + err.Error())
						}
						s.States += ts.States
						s.Transitions += ts.Transitions
					}
				}
			}
			s.Outcome("equal-to-alone")
			s.WallS = time.Since(t0).Seconds()
		}
	}

	// 4: auxiliary free-running pass under the race detector
	s = c.Sub("race-detector", "auxiliary (sampled schedules, not the deciding step): 8 free-running goroutines × rounds of the same operation bodies on one shared schema in the -race build", "no data race report, no drift from the run-alone results", "the run")
	if s != nil && c.Shard == 0 {
		t0 := time.Now()
		race := filepath.Join(filepath.Dir(os.Args[0]), "mc-race")
		s.Executions++
		s.States++
		s.Transitions++
		if _, err := os.Stat(race); err != nil {
			s.Cap("race-enabled binary bin/mc-race not built")
		} else {
			cmd := exec.Command(race, "c11race", fmt.Sprint(c.Pick(40, 400)))
			cmd.Env = append(os.Environ(), "GORACE=halt_on_error=0 exitcode=66", "GOMAXPROCS=8")
			out, err := cmd.CombinedOutput()
			s.Validated++
			text := string(out)
			switch {
			case strings.Contains(text, "DATA RACE"):
				c.Report(s, explore.Violation{Key: "race " + raceSite(text), Input: explore.J("c11race"), Rendered: "mc-race c11race", Detail: tail2(text, 4000)})
			case strings.Contains(text, "concurrent map"):
				c.Report(s, explore.Violation{Key: "race concurrent-map-access", Input: explore.J("c11race"), Rendered: "mc-race c11race", Detail: tail2(text, 4000)})
			case err != nil:
				c.Report(s, explore.Violation{Key: "race run-failed", Input: explore.J("c11race"), Rendered: "mc-race c11race", Detail: err.Error() + "\n" + tail2(text, 4000)})
			default:
				s.Nontrivial++
				s.Outcome(strings.TrimSpace(text))
			}
		}
		s.Samples = append(s.Samples, "mc-race c11race")
		s.WallS = time.Since(t0).Seconds()
	}
}

func raceSite(text string) string {
	for _, l := range strings.Split(text, "\n") {
		l = strings.TrimSpace(l)
		if strings.HasPrefix(l, "github.com/vektah/gqlparser/v2/") && strings.Contains(l, "(") {
			return "site=" + strings.TrimPrefix(strings.SplitN(l, "(", 2)[0], "github.com/vektah/gqlparser/v2/")
		}
	}
	return "site=?"
}

func tail2(s string, n int) string {
	if len(s) > n {
		return s[:n]
	}
	return s
}
