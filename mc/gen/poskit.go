package gen

// PosSchemaDefs: the top-level definitions of a valid type system that uses every kind of
// definition (one per entry, so it can be cut into sources at any boundary).
var PosSchemaDefs = []string{
	`schema { query: Query mutation: Mutation subscription: Subscription }`,
	`"root" type Query implements Node { id: ID! node(id: ID!): Node search(q: String = "x", f: Filter, k: [Kind!]): [Result!]! one(arg: OneIn): Int date: Date }`,
	`type Mutation { set(in: Filter!): Pet }`,
	`type Subscription { tick: Int }`,
	`interface Node { id: ID! }`,
	`interface Named implements Node { id: ID! name: String }`,
	`type Pet implements Named & Node @tag(name: "p") { id: ID! name: String kind: Kind owner: Person }`,
	`type Person implements Node { id: ID! pets(first: Int = 1): [Pet] }`,
	`union Result = Pet | Person`,
	`enum Kind { DOG CAT @deprecated(reason: "r") }`,
	`input Filter { name: String = "n" kinds: [Kind!] = [DOG] sub: Filter }`,
	`input OneIn @oneOf { a: Int b: String }`,
	`scalar Date @specifiedBy(url: "u")`,
	`directive @tag(name: String!) repeatable on OBJECT | FIELD`,
	`extend type Pet { age: Int }`,
}

// PosSchemaFaults: one ill-formed definition per loader rule; appended to a source it makes
// the load fail with an error located in that source.
var PosSchemaFaults = []string{
	`type Pet { x: Int }`,
	`type Bad1 { x: Missing }`,
	`type Bad2 implements Missing { x: Int }`,
	`type Bad3 implements Node { x: Int }`,
	`union Bad4 = Kind`,
	`type Bad5 { x(a: Pet): Int }`,
	`input Bad6 { x: Pet }`,
	`type Bad7`,
	`type __Bad8 { x: Int }`,
	`type Bad9 @nope { x: Int }`,
	`type Bad10 @tag { x: Int }`,
	`enum Bad11 { true }`,
	`directive @tag on FIELD`,
	`extend type Kind { x: Int }`,
	`schema { query: Query }`,
	`extend schema { mutation: Nope }`,
	`type Bad12 { x: Int x: Int }`,
	`type Bad13 implements Named { id: ID! name: String }`,
	`type Bad14 { x(a: Int @skip(if: true)): Int }`,
	// faults that involve a definition which may sit in another source
	`extend type Pet { id: ID! }`,
	`extend enum Kind { DOG }`,
	`extend interface Node { id: ID! }`,
	`extend input Filter { name: String }`,
	`extend union Result = Pet`,
	// a member that breaks an interface contract arrives through an extension, the type itself may sit in another source
	`extend type Person implements Named { name: Int }`,
	`extend type Person implements Named { name(extra: Int!): String }`,
	`extend interface Named { nick(short: Boolean): String } extend type Pet { nick: String }`,
	`extend interface Named { nick(short: Boolean): String } extend type Pet { nick(short: Int): String }`,
}

// PosQueries: documents that make every validation rule report at least one error against
// PosSchemaDefs, plus valid ones.
var PosQueries = []string{
	`{ id node(id: "1") { id ... on Pet { name kind owner { pets { id } } } } }`,
	`query A { id } query A { nope } { id }`,
	`query Q($v: Int, $v: Nope, $u: Pet, $w: [Int!] = [null]) @nope @tag(name: 1) { id @skip node { id } node(idd: 1, id: 2, id: 3) search { ... on Kind { x } ... F ... G } ...H }`,
	`fragment F on Pet { id ...F } fragment F on Nope { id } fragment I on Kind { id } fragment U on Person { id }`,
	`subscription S { tick t2: tick } mutation M { set(in: {name: 1, zz: 2, name: "a", sub: {kinds: [BAD]}}) { id { x } owner } }`,
	`{ node(id: 1) { id: name } node(id: 2) { id } one(arg: {a: 1, b: "x"}) one(arg: {a: null}) search(q: $undef, k: DOG) { __typename } date @tag(name: "a") @tag(name: "b") }`,
	`{ __schema { types { fields { type { fields { type { fields { name } } } } } } } __type(name: "Pet") { name } }`,
	`query V($a: String, $b: Int = "s") { search(q: $a, k: [$b]) { ... on Pet { owner { pets(first: $a) { id } } } } }`,
}
