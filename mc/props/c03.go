package props

import (
	"encoding/json"
	"fmt"
	"os"
	"strings"
	"time"

	"gopkg.in/yaml.v3"

	"verif/mc/explore"
	"verif/mc/gen"
	"verif/mc/ref/reflex"
)

func init() {
	register(&Prop{ID: "C03", Run: runC03, Replay: func(c *explore.Ctx, s *explore.SubStats, v explore.Violation) {
		var in lexInput
		if json.Unmarshal(v.Input, &in) == nil {
			lexCase(c, s, in.Text, true, false)
		}
	}, Assumptions: []string{
		"reference: ref/reflex, written from the October 2021 lexical grammar (longest match + look-ahead restrictions, BlockStringValue transcribed); bound to reality by replaying lexer/lexer_test.yml (expectations imported from graphql-js)",
		"characters above U+FFFF count as one SourceCharacter; invalid UTF-8 and \\uD800–\\uDFFF escapes are not compared (undecided)",
		"comment tokens are compared by kind and extent only; error messages are not compared",
	}})
}

type lexInput struct {
	Text string `json:"text"`
}

var lexDefects = []struct {
	key string
	d   reflex.Defects
}{
	{"lex/number-lookahead", reflex.Defects{NumberLookahead: true}},
	{"lex/blockstring-first-line-indent", reflex.Defects{BlockFirstLineIndent: true}},
	{"lex/blockstring-extra-quotes", reflex.Defects{BlockExtraQuotes: true}},
}

func orDefects(a, b reflex.Defects) reflex.Defects {
	return reflex.Defects{
		NumberLookahead:      a.NumberLookahead || b.NumberLookahead,
		BlockFirstLineIndent: a.BlockFirstLineIndent || b.BlockFirstLineIndent,
		BlockExtraQuotes:     a.BlockExtraQuotes || b.BlockExtraQuotes,
	}
}

// lexCase lexes text with the implementation and with the model and reports conformance
// (C03) and/or position (C04) differences.
func lexCase(c *explore.Ctx, s *explore.SubStats, text string, conformance, positions bool) {
	s.Executions++
	explore.Crumb(s.Name, text)
	im := lexImpl(text)
	m := reflex.Lex(text, reflex.Defects{})
	if im.Panic != nil {
		c.Report(s, explore.Violation{Key: "panic site=" + im.Panic.Site, Input: explore.J(lexInput{text}), Rendered: text, Detail: im.Panic.PanicVal})
		return
	}
	if m.Undecided {
		if !(positions && !conformance && m.ValuesOnly) {
			s.Undecided++
			return
		}
		// only string values are undecided (surrogate escapes): extents and positions are judged, values are not
		for i := range m.Tokens {
			if m.Tokens[i].Kind == "String" {
				m.Tokens[i].Value = ""
			}
		}
		for i := range im.Toks {
			if im.Toks[i].Kind == "String" {
				im.Toks[i].Value = ""
			}
		}
	}
	s.Validated++
	if len(m.Tokens) > 0 {
		s.Nontrivial++
	}
	conf, poss := lexDiffAll(im, m)
	if s.Executions&63 == 0 || len(m.Tokens) > 2 {
		s.Outcome(lexShape(m))
	}
	s.Sample(func() any { return map[string]any{"input": text, "tokens": lexShape(m)} })
	if conf != "" {
		if !conformance {
			if ref, sameTokens := positionReference(text, im); sameTokens && positions {
				// same tokens as the grammar (or as the grammar with a recorded defect emulated):
				// any difference in extents, lines or columns is a position defect
				if k, d, ok := extentOnlyDiff(im, ref); ok {
					c.Report(s, explore.Violation{Key: k, Input: explore.J(lexInput{text}), Rendered: text, Detail: d})
					return
				}
				_, ps := lexDiffAll(im, ref)
				seen := map[string]bool{}
				for _, p := range ps {
					if !seen[p.Key] {
						seen[p.Key] = true
						c.Report(s, explore.Violation{Key: p.Key, Input: explore.J(lexInput{text}), Rendered: text, Detail: p.Detail})
					}
				}
				return
			}
			if k, d, ok := extentOnlyDiff(im, m); ok && positions {
				// same tokens at wrong offsets: a position defect
				c.Report(s, explore.Violation{Key: k, Input: explore.J(lexInput{text}), Rendered: text, Detail: d})
				return
			}
			s.Skipped++ // positions are only judged where the token streams agree (C03's business otherwise)
			return
		}
		key := ""
		// does a single known defect (or a combination) explain the output exactly?
		for _, d := range lexDefects {
			if cf, _ := lexDiff(im, reflex.Lex(text, d.d)); cf == "" {
				key = d.key
				break
			}
		}
		if key == "" {
			for i := 0; i < len(lexDefects) && key == ""; i++ {
				for j := i + 1; j < len(lexDefects) && key == ""; j++ {
					dd := orDefects(lexDefects[i].d, lexDefects[j].d)
					if cf, _ := lexDiff(im, reflex.Lex(text, dd)); cf == "" {
						key = lexDefects[i].key + "+" + lexDefects[j].key
					}
				}
			}
		}
		if key == "" {
			all := orDefects(orDefects(lexDefects[0].d, lexDefects[1].d), lexDefects[2].d)
			if cf, _ := lexDiff(im, reflex.Lex(text, all)); cf == "" {
				key = "lex/number-lookahead+lex/blockstring-first-line-indent+lex/blockstring-extra-quotes"
			}
		}
		if key == "" {
			key = "lex/other " + firstWords(conf)
		}
		// a combination is excused only if each member is listed
		if strings.Contains(key, "+") {
			allKnown := true
			for _, k := range strings.Split(key, "+") {
				if !c.Known[k] {
					allKnown = false
				}
			}
			if allKnown {
				for _, k := range strings.Split(key, "+") {
					c.Report(s, explore.Violation{Key: k, Input: explore.J(lexInput{text}), Rendered: text, Detail: conf})
				}
				return
			}
		}
		c.Report(s, explore.Violation{Key: key, Input: explore.J(lexInput{text}), Rendered: text, Detail: conf,
			Expected: lexShapeFull(m), Observed: implShape(im)})
		return
	}
	if positions && im.Failed && m.FailAt >= 0 && im.ErrLine != 0 {
		// the location of a lexical error: the start of the token that cannot be completed, or the
		// character that rules it out (both are "where the grammar admits no token")
		okPos := false
		cands := []int{m.FailPos, m.FailChar}
		// … or an escape sequence inside that token (its backslash or the character after it): the
		// lexer blames the last escape when the input ends within five characters of it
		rs := []rune(text)
		for o := m.FailPos; o <= m.FailChar && o < len(rs); o++ {
			if rs[o] == '\\' {
				cands = append(cands, o, o+1)
			}
		}
		for _, o := range cands {
			if o >= 0 && o < len(m.LineOf) && m.LineOf[o] == im.ErrLine && m.ColOf[o] == im.ErrCol {
				okPos = true
			}
		}
		if !okPos {
			c.Report(s, explore.Violation{Key: "pos/lex-error msg=" + msgTemplate(im.ErrMsg, map[string]bool{}), Input: explore.J(lexInput{text}), Rendered: text,
				Detail: fmt.Sprintf("lexical error %q reported at %d:%d; the token that cannot be completed starts at %d:%d and the character that rules it out is at %d:%d", im.ErrMsg, im.ErrLine, im.ErrCol,
					m.LineOf[m.FailPos], m.ColOf[m.FailPos], m.LineOf[m.FailChar], m.ColOf[m.FailChar])})
		}
	}
	if positions {
		seen := map[string]bool{}
		for _, p := range poss {
			if !seen[p.Key] {
				seen[p.Key] = true
				c.Report(s, explore.Violation{Key: p.Key, Input: explore.J(lexInput{text}), Rendered: text, Detail: p.Detail})
			}
		}
	}
}

func firstWords(s string) string {
	// drop indices and quoted parts so the key names a class of difference
	s = numRe.ReplaceAllString(s, "N")
	if i := strings.Index(s, ":"); i >= 0 {
		s = s[i+1:]
	}
	f := strings.Fields(s)
	var out []string
	for _, w := range f {
		if strings.HasPrefix(w, `"`) || strings.HasPrefix(w, "[") || strings.HasPrefix(w, "(") {
			continue
		}
		out = append(out, w)
		if len(out) == 6 {
			break
		}
	}
	return strings.Join(out, " ")
}

func posClass(im implLex, m reflex.Result) string {
	for i := range im.Toks {
		if i < len(m.Tokens) && (im.Toks[i].Line != m.Tokens[i].Line || im.Toks[i].Col != m.Tokens[i].Col) {
			what := "column"
			if im.Toks[i].Line != m.Tokens[i].Line {
				what = "line"
			}
			return im.Toks[i].Kind + " " + what
		}
	}
	return "?"
}

func lexShape(m reflex.Result) string {
	var b strings.Builder
	for _, t := range m.Tokens {
		b.WriteString(t.Kind)
		b.WriteByte(' ')
	}
	if m.FailAt >= 0 {
		b.WriteString("FAIL")
	}
	return b.String()
}

func lexShapeFull(m reflex.Result) string {
	var b strings.Builder
	for _, t := range m.Tokens {
		fmt.Fprintf(&b, "%s[%d,%d)%q ", t.Kind, t.Start, t.End, t.Value)
	}
	if m.FailAt >= 0 {
		fmt.Fprintf(&b, "FAIL@%d", m.FailPos)
	}
	return b.String()
}

func implShape(im implLex) string {
	var b strings.Builder
	for _, t := range im.Toks {
		fmt.Fprintf(&b, "%s[%d,%d)%q ", t.Kind, t.Start, t.End, t.Value)
	}
	if im.Failed {
		fmt.Fprintf(&b, "FAIL(%s)", im.ErrMsg)
	}
	return b.String()
}

// ---- corpus binding: the model must agree with lexer_test.yml (graphql-js expectations) ----

type ymlTok struct {
	Kind   string `yaml:"kind"`
	Value  string `yaml:"value"`
	Start  int    `yaml:"start"`
	End    int    `yaml:"end"`
	Line   int    `yaml:"line"`
	Column int    `yaml:"column"`
}
type ymlSpec struct {
	Name   string                    `yaml:"name"`
	Input  string                    `yaml:"input"`
	Error  *struct{ Message string } `yaml:"error"`
	Tokens []ymlTok                  `yaml:"tokens"`
}

func repoRoot() string {
	if v := os.Getenv("VERIF_REPO"); v != "" {
		return v
	}
	return "/repo"
}

func reflexCorpus(c *explore.Ctx) {
	s := c.Sub("model-corpus", "every case of lexer/lexer_test.yml (expectations imported from graphql-js)", "ref/reflex agrees with the corpus on kinds, values, extents, line/column and on success/failure", "every corpus case")
	if s == nil || c.Shard != 0 {
		return
	}
	b, err := os.ReadFile(repoRoot() + "/lexer/lexer_test.yml")
	if err != nil {
		s.Extra["note"] = "corpus file not found: " + err.Error()
		return
	}
	var feats map[string][]ymlSpec
	if err := yaml.Unmarshal(b, &feats); err != nil {
		s.Extra["note"] = "corpus unreadable: " + err.Error()
		return
	}
	agree, disagree := 0, 0
	var notes []string
	for _, fname := range explore.SortedKeys(feats) {
		for _, sp := range feats[fname] {
			s.Executions++
			s.States++
			s.Transitions++
			m := reflex.Lex(sp.Input, reflex.Defects{})
			ok := true
			why := ""
			if (sp.Error != nil) != (m.FailAt >= 0) {
				ok, why = false, fmt.Sprintf("error expected=%v model fail=%d", sp.Error != nil, m.FailAt)
			}
			if ok && sp.Error == nil {
				if len(sp.Tokens) != len(m.Tokens) {
					ok, why = false, fmt.Sprintf("token count %d vs %d", len(sp.Tokens), len(m.Tokens))
				}
				for i := 0; ok && i < len(sp.Tokens); i++ {
					e, t := sp.Tokens[i], m.Tokens[i]
					ek := strings.ToUpper(strings.ReplaceAll(e.Kind, "_", ""))
					tk := strings.ToUpper(corpusKind(t.Kind))
					switch {
					case ek != tk:
						ok, why = false, fmt.Sprintf("kind %s vs %s", ek, tk)
					case e.Value != "undefined" && e.Value != "" && valueMatters(t.Kind) && e.Value != t.Value:
						ok, why = false, fmt.Sprintf("value %q vs %q", e.Value, t.Value)
					case e.Start != 0 && e.Start != t.Start, e.End != 0 && e.End != t.End:
						ok, why = false, fmt.Sprintf("extent %d-%d vs %d-%d", e.Start, e.End, t.Start, t.End)
					case e.Line != 0 && e.Line != t.Line, e.Column != 0 && e.Column != t.Col:
						ok, why = false, fmt.Sprintf("line/col %d:%d vs %d:%d", e.Line, e.Column, t.Line, t.Col)
					}
				}
			}
			if ok {
				agree++
				s.Validated++
				s.Nontrivial++
			} else {
				disagree++
				notes = append(notes, fmt.Sprintf("%s/%s input=%q: %s", fname, sp.Name, sp.Input, why))
			}
			s.Sample(func() any { return sp.Input })
		}
	}
	s.Extra["model_corpus_agreements"] = agree
	s.Extra["model_corpus_disagreements"] = disagree
	s.Extra["disagreement_notes"] = notes
	s.Outcome(fmt.Sprintf("agree=%d disagree=%d", agree, disagree))
}

func corpusKind(k string) string {
	switch k {
	case "!":
		return "BANG"
	case "$":
		return "DOLLAR"
	case "&":
		return "AMP"
	case "(":
		return "PARENL"
	case ")":
		return "PARENR"
	case "...":
		return "SPREAD"
	case ":":
		return "COLON"
	case "=":
		return "EQUALS"
	case "@":
		return "AT"
	case "[":
		return "BRACKETL"
	case "]":
		return "BRACKETR"
	case "{":
		return "BRACEL"
	case "|":
		return "PIPE"
	case "}":
		return "BRACER"
	}
	return k
}

// lexSpaces enumerates the lexical input spaces shared by C03 (conformance) and C04 (positions).
func lexSpaces(c *explore.Ctx, conformance, positions bool, delta int) {
	oracle := "token kinds, extents (characters), values (names, numbers verbatim; strings escape-decoded; block strings after BlockStringValue) and the failure index equal ref/reflex"
	if positions && !conformance {
		oracle = "every token's line = 1 + line terminators (LF, CR, CRLF) before its offset and column = characters since line start + 1, per ref/reflex"
	}
	seq := func(name string, alpha []string, n int, wrap func(string) string, desc string) {
		s := c.Sub(name, fmt.Sprintf("every string of ≤ %d symbols over %s (%d symbols)", n, desc, len(alpha)), oracle, "the grammar yields at least one token")
		if s == nil {
			return
		}
		t0 := time.Now()
		st, tr, complete := explore.Seqs(len(alpha), n, c.Shard, c.NShards, c.Expired, func(sym []int) bool {
			lexCase(c, s, wrap(gen.RenderStrs(alpha, sym)), conformance, positions)
			return true
		})
		s.States, s.Transitions = st, tr
		if !complete {
			s.Cap("deadline")
		}
		s.WallS = time.Since(t0).Seconds()
	}
	id := func(x string) string { return x }
	seq("lex-chars", gen.SigmaLex, c.Pick(6, 7)+delta, id, "Σ_lex = "+strings.Join(quoteAll(gen.SigmaLex), " "))
	seq("lex-escapes", gen.SigmaLexMacro, c.Pick(5, 6)+delta, id, "Σ_lexmacro = "+strings.Join(quoteAll(gen.SigmaLexMacro), " "))
	block := []string{" ", "\t", "a", "\n", "\r", `"`, `\`}
	seq("block-bodies", block, c.Pick(8, 10)+delta, func(b string) string { return `"""` + b + `""" a` }, `block-string bodies wrapped as """…""" a, over `+strings.Join(quoteAll(block), " "))

	blockBad := []string{"a", " ", "\n", "\r", "\a", "é", `"`, "\u2028"}
	seq("block-bodies-invalid", blockBad, c.Pick(6, 8)+delta, func(b string) string { return `"""` + b + `""" a` }, `block-string bodies with a character that is no SourceCharacter (U+0007) and one that looks like a line break but is none (U+2028) after line terminators and multi-byte characters, wrapped as """…""" a, over `+strings.Join(quoteAll(blockBad), " "))

	comment := []string{"a", " ", "\t", "\n", "\r", "\a", "\x00", "\x1f", "\x7f", "é", "\ufeff", "\u2028", `"`, "#", ","}
	seq("comment-bodies", comment, c.Pick(5, 6)+delta, func(b string) string { return "#" + b + "\na" }, `comment bodies wrapped as #…LF a: characters that are no SourceCharacter (U+0000, U+0007, U+001F) end the comment and are then rejected, DEL, BOM, U+2028 and non-ASCII text belong to it, over `+strings.Join(quoteAll(comment), " "))

	strch := []string{`"`, "a", "\t", "\ufffd", "\uffff", "\ufeff", "\u00a0", "\u2028", "\x7f", "\u0080", "\u07ff", "\u0800", "\ud7ff", "\ue000", "\U00010000", "\U0010ffff", `\`, "\n", "n", "u"}
	seq("string-chars", strch, c.Pick(3, 4)+delta, func(b string) string { return `"` + b + `" a` }, `quoted-string bodies wrapped as "…" a over characters at the edges of the UTF-8 encoding lengths and of SourceCharacter (TAB, DEL, U+0080, U+07FF, U+0800, U+D7FF, U+E000, U+FFFD, U+FFFF, U+10000, U+10FFFF), a BOM, NBSP and U+2028 inside the string: `+strings.Join(quoteAll(strch), " "))

	// block strings as sequences of lines (the dedent algorithm works line by line): every
	// sequence of ≤ 4/5 lines over blank lines shorter than, equal to and longer than the indent
	// of the text lines, text lines at several indents, tabs
	{
		lineAlpha := []string{"", " ", "  ", "    ", "a", " a", "  a", "    a", "\ta", "  \t", "\u00a0a", "\u3000"}
		nl := c.Pick(5, 6)
		sub := c.Sub("block-lines", fmt.Sprintf("every block string of ≤ %d lines over %d line shapes (blank lines of 0–4 spaces, text at indents 0, 1, 2, 4, tab-indented text, blanks with a tab), joined by LF and by CRLF, followed by a name", nl, len(lineAlpha)), oracle, "the grammar yields at least one token")
		if sub != nil {
			t0 := time.Now()
			st, tr, complete := explore.Seqs(len(lineAlpha), nl, c.Shard, c.NShards, c.Expired, func(sym []int) bool {
				if len(sym) == 0 {
					return true
				}
				ls := make([]string, len(sym))
				for i, x := range sym {
					ls[i] = lineAlpha[x]
				}
				lexCase(c, sub, `"""`+strings.Join(ls, "\n")+`""" a`, conformance, positions)
				lexCase(c, sub, `"""`+strings.Join(ls, "\r\n")+`""" a`, conformance, positions)
				return true
			})
			sub.States, sub.Transitions = st, tr
			if !complete {
				sub.Cap("deadline")
			}
			sub.WallS = time.Since(t0).Seconds()
		}
	}

	// ignored characters between every pair of tokens
	s := c.Sub("ignored-gaps", "every pair of 24 token representatives × every string of ≤ 2 ignored items (space, comma, LF, CR, CRLF, tab, BOM, comments) in the gap and before/after", oracle, "always (two tokens)")
	if s != nil {
		toks := []string{"a", "on", "_1", "1", "-1", "0", "1.5", "1e5", `"s"`, `""`, `"""b"""`, "\"\"\"\n b\n\"\"\"", "{", "}", "(", ")", "[", "]", ":", "=", "@", "!", "$", "...", "|", "&", "#c"}
		seps := gen.Separators
		var gaps []string
		for _, a := range seps {
			gaps = append(gaps, a)
		}
		for _, a := range seps[:len(seps)-1] {
			for _, b := range seps[:len(seps)-1] {
				gaps = append(gaps, a+b)
			}
		}
		idx := 0
		for _, t1 := range toks {
			for _, t2 := range toks {
				for _, g := range gaps {
					idx++
					if idx%c.NShards != c.Shard {
						continue
					}
					s.States++
					s.Transitions++
					lexCase(c, s, t1+g+t2, conformance, positions)
					lexCase(c, s, g+t1+" "+t2+g, conformance, positions)
				}
			}
		}
	}
}

func quoteAll(a []string) []string {
	out := make([]string, len(a))
	for i, x := range a {
		out[i] = fmt.Sprintf("%q", x)
	}
	return out
}

func runC03(c *explore.Ctx) {
	reflexCorpus(c)
	lexSpaces(c, true, false, 0)
}
