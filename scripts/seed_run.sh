#!/bin/bash
# seed_run.sh <seed dir> <ID> [tier]  — apply a seeded change to /repo, run one check, undo it straight away.
. "$(dirname "$0")/env.sh"
d="$(cd "$1" && pwd)"; id="$2"; tier="${3:-quick}"
if [ -n "$(git -C /repo status --porcelain)" ]; then echo "/repo not clean"; exit 2; fi
trap 'git -C /repo checkout -- . ; git -C /repo clean -fdq; "$VERIF_ROOT/scripts/build.sh" inst >/dev/null 2>&1' EXIT
git -C /repo apply "$d/patch.diff" || { echo "patch does not apply"; exit 2; }
cd "$VERIF_ROOT"
out="$(VERIF_NO_EVIDENCE=1 scripts/check.sh "$id" "$tier" --no-evidence 2>&1)"; rc=$?
echo "$out" | grep -aE "BUILD-FAILED|violation key" | head -8
echo "$out" | grep -aE "^VIOLATION" | head -3
echo "$out" | grep -aE "^KNOWN|quick:|thorough:" | cut -c1-200 | head -8
echo "SEEDRUN $(basename "$(dirname "$d")")/$(basename "$d") check=$id tier=$tier exit=$rc"
