package props

import (
	"fmt"
	"strings"
	"time"

	"verif/mc/explore"
	"verif/mc/gen"
	"verif/mc/ref/refgrammar"
)

// valuesSub: every value shape (Int leaves, lists, input objects, nested) of ≤ n tokens, each
// leaf and each key rendered with a text of its own, placed after an earlier non-empty list /
// object in the same document. The class sweeps render every token of a class with one text,
// so a tree that mixes up, repeats or reorders same-class tokens projects the same; here every
// occurrence is distinguishable.

type valueShape struct {
	text string // with leaf placeholder # and key placeholder %
	toks int
}

// valueShapes[n] = all shapes of exactly n tokens
func valueShapes(max int) [][]string {
	out := make([][]string, max+1)
	// seq[k][n]: sequences of k… we need lists of items (total tokens n) and objects of fields (k : V)
	var items func(n int) []string  // sequences of ≥0 values with total n tokens
	var fields func(n int) []string // sequences of ≥0 `% : V`
	var val func(n int) []string
	memoV, memoI, memoF := map[int][]string{}, map[int][]string{}, map[int][]string{}
	val = func(n int) []string {
		if n <= 0 {
			return nil
		}
		if r, ok := memoV[n]; ok {
			return r
		}
		var r []string
		if n == 1 {
			r = append(r, "#")
		}
		if n >= 2 {
			for _, it := range items(n - 2) {
				r = append(r, strings.TrimSpace("[ "+it)+" ]")
			}
			for _, f := range fields(n - 2) {
				r = append(r, strings.TrimSpace("{ "+f)+" }")
			}
		}
		memoV[n] = r
		return r
	}
	items = func(n int) []string {
		if n == 0 {
			return []string{""}
		}
		if r, ok := memoI[n]; ok {
			return r
		}
		var r []string
		for first := 1; first <= n; first++ {
			for _, v := range val(first) {
				for _, rest := range items(n - first) {
					r = append(r, strings.TrimSpace(v+" "+rest))
				}
			}
		}
		memoI[n] = r
		return r
	}
	fields = func(n int) []string {
		if n == 0 {
			return []string{""}
		}
		if r, ok := memoF[n]; ok {
			return r
		}
		var r []string
		for first := 1; first+2 <= n; first++ {
			for _, v := range val(first) {
				for _, rest := range fields(n - first - 2) {
					r = append(r, strings.TrimSpace("% : "+v+" "+rest))
				}
			}
		}
		memoF[n] = r
		return r
	}
	for n := 1; n <= max; n++ {
		out[n] = val(n)
	}
	return out
}

func distinctify(shape string) string {
	var b strings.Builder
	leaf, key := 0, 0
	for _, ch := range shape {
		switch ch {
		case '#':
			leaf++
			fmt.Fprintf(&b, "%d", 10+leaf)
		case '%':
			key++
			fmt.Fprintf(&b, "k%d", key)
		default:
			b.WriteRune(ch)
		}
	}
	return b.String()
}

func valuesSub(c *explore.Ctx, side *gramSide, g *refgrammar.Grammar) {
	n := c.Pick(12, 15)
	var frames []string
	if side.id == "C05" {
		frames = []string{
			"{ f ( a : [ 1 , 2 ] , b : § ) }",
			"query ( $v : T = [ 1 ] , $w : T = § ) { f ( c : { p : 3 } , d : § ) @d ( e : § ) }",
		}
	} else {
		frames = []string{
			"type T { f ( a : Int = [ 1 , 2 ] , b : Int = § ) : Int }",
			"input I @d ( a : { p : 3 } , b : § ) { x : Int = [ 1 ] y : Int = § @d ( e : § ) }",
		}
	}
	s := c.Sub("values-distinct", fmt.Sprintf("every value shape (Int leaves, lists, input objects, nested) of ≤ %d tokens with every leaf and key a text of its own, in %d frames that hold an earlier non-empty list / object (the same shape in every hole of a frame)", n, len(frames)),
		"the parser's tree equals the derivation tree of the reference grammar: every value written appears once, at its place, in source order", "every shape")
	if s == nil {
		return
	}
	t0 := time.Now()
	idx := 0
	for _, shapes := range valueShapes(n) {
		for _, sh := range shapes {
			for _, fr := range frames {
				idx++
				if idx%c.NShards != c.Shard {
					continue
				}
				if c.Expired() {
					s.Cap("deadline")
					s.WallS = time.Since(t0).Seconds()
					return
				}
				text := distinctify(strings.ReplaceAll(fr, "§", sh))
				s.States++
				s.Transitions++
				gramCase(c, s, side, g, gramInput{Text: text}, nil, false)
			}
		}
	}
	s.WallS = time.Since(t0).Seconds()
}

// familiesAcceptSub: the size families (and a few floods of repeated constructs) up to a few
// thousand tokens: acceptance and tree against the reference recogniser. The sweeps stop at a
// dozen tokens; limits that depend on how often a construct is repeated in a document (counters
// that are not released, fixed-size tables) only show on long documents.
func familiesAcceptSub(c *explore.Ctx, side *gramSide, g *refgrammar.Grammar) {
	maxTok := c.Pick(2048, 8192)
	s := c.Sub("families-accept", fmt.Sprintf("the %d parse size families × n = 2^k while the document has ≤ %d tokens", len(gen.ParseFamilies), maxTok),
		"parser accepts ⇔ the reference recogniser derives the token sequence; equal trees", "documents in the language")
	if s == nil {
		return
	}
	t0 := time.Now()
	idx := 0
	for fi := range gen.ParseFamilies {
		f := &gen.ParseFamilies[fi]
		for n := 1; n <= maxTok; n *= 2 {
			text := f.Make(n)
			if len(text) > 16*maxTok {
				break
			}
			idx++
			if idx%c.NShards != c.Shard {
				continue
			}
			if c.Expired() {
				s.Cap("deadline")
				s.WallS = time.Since(t0).Seconds()
				return
			}
			toks, ok := gramToks(text)
			if !ok || len(toks) > maxTok {
				s.Skipped++
				continue
			}
			s.States++
			s.Transitions++
			gramCase(c, s, side, g, gramInput{Text: text, Base: fmt.Sprintf("family=%s n=%d", f.Name, n)}, nil, false)
		}
	}
	s.WallS = time.Since(t0).Seconds()
}

// garbageSub: characters that are no part of any token, glued to a name (the lexical grammar
// restricts names to ASCII letters, digits and _): the document must be rejected.
func garbageSub(c *explore.Ctx, side *gramSide, g *refgrammar.Grammar) {
	n := c.Pick(5, 6)
	glue := []string{"é", "ß", "１", "\u00a0", "ʼ"}
	s := c.Sub("names-with-non-ascii", fmt.Sprintf("every sentence of ≤ %d tokens (core alphabet) with a non-ASCII letter, digit, space or apostrophe (%d of them) glued behind each of its names, and the profile documents likewise", n, len(glue)),
		"the parser rejects the document (no token of the grammar holds such a character outside strings and comments)", "every rendering")
	if s == nil {
		return
	}
	t0 := time.Now()
	idx := 0
	try := func(toks []string) {
		for i, t := range toks {
			if t == "" || !((t[0] >= 'a' && t[0] <= 'z') || (t[0] >= 'A' && t[0] <= 'Z') || t[0] == '_') {
				continue
			}
			for _, gl := range glue {
				idx++
				if idx%c.NShards != c.Shard {
					continue
				}
				cp := append([]string{}, toks...)
				cp[i] = t + gl
				s.States++
				s.Transitions++
				gramCase(c, s, side, g, gramInput{Text: strings.Join(cp, " ")}, nil, true)
			}
		}
	}
	for _, sent := range language(side, g, "core", side.core, n, false) {
		if c.Expired() {
			s.Cap("deadline")
			break
		}
		var toks []string
		for _, x := range sent.Classes {
			toks = append(toks, side.core[x].Text)
		}
		try(toks)
	}
	docs := gen.ExecProfiles
	if side.id != "C05" {
		docs = gen.SDLProfiles
	}
	for _, d := range docs {
		try(tokenTextsNoComments(d))
	}
	s.WallS = time.Since(t0).Seconds()
}
