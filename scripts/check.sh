#!/bin/bash
# check.sh <ID> <quick|thorough> [extra mc flags]
# Rebuilds the harness from /repo's working tree, then runs the property's check.
. "$(dirname "$0")/env.sh"
mkdir -p "$VERIF_ROOT/.work" "$VERIF_ROOT/bin" "$VERIF_ROOT/evidence" "$VERIF_ROOT/replays"
id="$1"; tier="${2:-${VERIF_TIER:-quick}}"; shift; shift
if ! "$VERIF_ROOT/scripts/build.sh" inst >"$VERIF_ROOT/.work/build-$id.log" 2>&1; then
  # A tree that does not build cannot be checked; this is not a property violation.
  cat "$VERIF_ROOT/.work/build-$id.log" >&2
  echo "BUILD-FAILED property=$id (harness could not be built from the working tree)" >&2
  exit 2
fi
case "$id" in
  C10)
    # this check also runs the un-instrumented build of the same harness in fresh processes
    "$VERIF_ROOT/scripts/build.sh" plain >>"$VERIF_ROOT/.work/build-$id.log" 2>&1 || { cat "$VERIF_ROOT/.work/build-$id.log" >&2; echo "BUILD-FAILED property=$id" >&2; exit 2; } ;;
  C11)
    # this check also runs the race-enabled build of the same harness bodies
    "$VERIF_ROOT/scripts/build.sh" race >>"$VERIF_ROOT/.work/build-$id.log" 2>&1 || { cat "$VERIF_ROOT/.work/build-$id.log" >&2; echo "BUILD-FAILED property=$id" >&2; exit 2; } ;;
esac
exec "$VERIF_ROOT/bin/mc" check "$id" --tier "$tier" "$@"
