// Package refgrammar holds the GraphQL executable and type-system grammars (October 2021)
// as data, with one tree constructor per production, and two generic consumers that know
// nothing about GraphQL:
//
//   - Parse: an all-paths memoised recogniser (set of end positions per (non-terminal,
//     start)); no look-ahead, no sticky error, no cursor; it reports ambiguity instead of
//     resolving it.
//   - Enumerate: a bottom-up dynamic programme over (non-terminal, length) that yields
//     every derivable sentence of ≤ n tokens over a finite token alphabet together with
//     its tree.
//
// A tree is represented by its canonical projection (a string); the checks compare it with
// the projection of the document the real parser built.
package refgrammar

import (
	"fmt"
	"strings"
)

// Tok is a lexical token as the grammar sees it (comments and ignored tokens removed).
// Kind is in ref/reflex's vocabulary: punctuators by their text, Name Int Float String
// BlockString.
type Tok struct {
	Kind  string
	Value string
}

type Term struct {
	Name   string
	Match  func(Tok) bool
	Narrow func(Tok) bool // optional: the subset used by restricted enumeration (G¹)
	Text   func(Tok) string
}

type Sym struct {
	NT   string
	T    *Term
	Opt  bool
	Plus bool
}

type Alt struct {
	Syms  []Sym
	Build func(k [][]string) string
}

type Grammar struct {
	Name  string
	Start string
	Rules map[string][]Alt
	order []string
}

func (g *Grammar) rule(name string, alts ...Alt) {
	if _, dup := g.Rules[name]; dup {
		panic("refgrammar: duplicate rule " + name)
	}
	g.Rules[name] = alts
	g.order = append(g.order, name)
}

func (g *Grammar) check() {
	for _, n := range g.order {
		for _, a := range g.Rules[n] {
			for _, s := range a.Syms {
				if s.T == nil {
					if _, ok := g.Rules[s.NT]; !ok {
						panic("refgrammar: undefined non-terminal " + s.NT + " in " + n)
					}
				}
			}
		}
	}
}

func nt(name string) Sym                               { return Sym{NT: name} }
func tm(t *Term) Sym                                   { return Sym{T: t} }
func opt(s Sym) Sym                                    { s.Opt = true; return s }
func plus(s Sym) Sym                                   { s.Plus = true; return s }
func alt(b func(k [][]string) string, syms ...Sym) Alt { return Alt{Syms: syms, Build: b} }

func punct(p string) *Term {
	return &Term{Name: p, Match: func(t Tok) bool { return t.Kind == p }, Text: func(Tok) string { return p }}
}

func kw(words ...string) *Term {
	return &Term{Name: strings.Join(words, "|"), Match: func(t Tok) bool {
		if t.Kind != "Name" {
			return false
		}
		for _, w := range words {
			if t.Value == w {
				return true
			}
		}
		return false
	}, Text: func(t Tok) string { return t.Value }}
}

func kind(k string) *Term {
	return &Term{Name: k, Match: func(t Tok) bool { return t.Kind == k }, Text: func(t Tok) string { return t.Value }}
}

// nameBut matches any Name except the listed words; restricted enumeration uses only
// names that are not keywords anywhere in either grammar.
func nameBut(label string, not ...string) *Term {
	return &Term{Name: label, Match: func(t Tok) bool {
		if t.Kind != "Name" {
			return false
		}
		for _, w := range not {
			if t.Value == w {
				return false
			}
		}
		return true
	}, Narrow: func(t Tok) bool { return t.Kind == "Name" && !IsKeywordLike(t.Value) }, Text: func(t Tok) string { return t.Value }}
}

var keywordLike = map[string]bool{
	"query": true, "mutation": true, "subscription": true, "fragment": true, "on": true, "true": true, "false": true, "null": true,
	"schema": true, "scalar": true, "type": true, "interface": true, "union": true, "enum": true, "input": true, "directive": true,
	"extend": true, "implements": true, "repeatable": true,
}

// IsKeywordLike reports whether a name plays a keyword role somewhere in the grammars
// (directive locations count as keywords of the type-system grammar).
func IsKeywordLike(s string) bool { return keywordLike[s] || Locations[s] }

var Locations = map[string]bool{
	"QUERY": true, "MUTATION": true, "SUBSCRIPTION": true, "FIELD": true, "FRAGMENT_DEFINITION": true, "FRAGMENT_SPREAD": true,
	"INLINE_FRAGMENT": true, "VARIABLE_DEFINITION": true, "SCHEMA": true, "SCALAR": true, "OBJECT": true, "FIELD_DEFINITION": true,
	"ARGUMENT_DEFINITION": true, "INTERFACE": true, "UNION": true, "ENUM": true, "ENUM_VALUE": true, "INPUT_OBJECT": true,
	"INPUT_FIELD_DEFINITION": true,
}

// ---- builders -------------------------------------------------------------------------

func one(k []string) string {
	if len(k) == 0 {
		return ""
	}
	return k[0]
}
func join(k []string) string { return strings.Join(k, ",") }
func q(s string) string      { return fmt.Sprintf("%q", s) }

func pass(i int) func(k [][]string) string { return func(k [][]string) string { return one(k[i]) } }

// ---- shared rules: values, types, directives -------------------------------------------

var (
	tName     = nameBut("Name")
	tEnum     = nameBut("EnumValue", "true", "false", "null")
	tFragName = nameBut("FragmentName", "on")
	tBool     = kw("true", "false")
	tNull     = kw("null")
	tInt      = kind("Int")
	tFloat    = kind("Float")
	tString   = kind("String")
	tBlock    = kind("BlockString")
	pBang     = punct("!")
	pDollar   = punct("$")
	pAmp      = punct("&")
	pParenL   = punct("(")
	pParenR   = punct(")")
	pSpread   = punct("...")
	pColon    = punct(":")
	pEquals   = punct("=")
	pAt       = punct("@")
	pBrackL   = punct("[")
	pBrackR   = punct("]")
	pBraceL   = punct("{")
	pBraceR   = punct("}")
	pPipe     = punct("|")
)

func (g *Grammar) shared() {
	for _, c := range []struct {
		sfx      string
		allowVar bool
	}{{"", true}, {"Const", false}} {
		sfx := c.sfx
		alts := []Alt{
			alt(func(k [][]string) string { return "int:" + one(k[0]) }, tm(tInt)),
			alt(func(k [][]string) string { return "float:" + one(k[0]) }, tm(tFloat)),
			alt(func(k [][]string) string { return "str:" + q(one(k[0])) }, tm(tString)),
			alt(func(k [][]string) string { return "block:" + q(one(k[0])) }, tm(tBlock)),
			alt(func(k [][]string) string { return "bool:" + one(k[0]) }, tm(tBool)),
			alt(func(k [][]string) string { return "null" }, tm(tNull)),
			alt(func(k [][]string) string { return "enum:" + one(k[0]) }, tm(tEnum)),
			alt(func(k [][]string) string { return "list[]" }, tm(pBrackL), tm(pBrackR)),
			alt(func(k [][]string) string { return "list[" + join(k[1]) + "]" }, tm(pBrackL), plus(nt("Value"+sfx)), tm(pBrackR)),
			alt(func(k [][]string) string { return "obj{}" }, tm(pBraceL), tm(pBraceR)),
			alt(func(k [][]string) string { return "obj{" + join(k[1]) + "}" }, tm(pBraceL), plus(nt("ObjectField"+sfx)), tm(pBraceR)),
		}
		if c.allowVar {
			alts = append([]Alt{alt(func(k [][]string) string { return "var:" + one(k[1]) }, tm(pDollar), tm(tName))}, alts...)
		}
		g.rule("Value"+sfx, alts...)
		g.rule("ObjectField"+sfx, alt(func(k [][]string) string { return one(k[0]) + ":" + one(k[2]) }, tm(tName), tm(pColon), nt("Value"+sfx)))
		g.rule("Argument"+sfx, alt(func(k [][]string) string { return "arg{" + one(k[0]) + " " + one(k[2]) + "}" }, tm(tName), tm(pColon), nt("Value"+sfx)))
		g.rule("Arguments"+sfx, alt(func(k [][]string) string { return join(k[1]) }, tm(pParenL), plus(nt("Argument"+sfx)), tm(pParenR)))
		g.rule("Directive"+sfx, alt(func(k [][]string) string { return "dir{" + one(k[1]) + " [" + one(k[2]) + "]}" }, tm(pAt), tm(tName), opt(nt("Arguments"+sfx))))
		g.rule("Directives"+sfx, alt(func(k [][]string) string { return join(k[0]) }, plus(nt("Directive"+sfx))))
	}
	g.rule("Type",
		alt(func(k [][]string) string { return one(k[0]) }, tm(tName)),
		alt(func(k [][]string) string { return one(k[0]) + "!" }, tm(tName), tm(pBang)),
		alt(func(k [][]string) string { return "[" + one(k[1]) + "]" }, tm(pBrackL), nt("Type"), tm(pBrackR)),
		alt(func(k [][]string) string { return "[" + one(k[1]) + "]!" }, tm(pBrackL), nt("Type"), tm(pBrackR), tm(pBang)),
	)
	g.rule("Default", alt(pass(1), tm(pEquals), nt("ValueConst")))
	g.rule("OpType", alt(pass(0), tm(kw("query", "mutation", "subscription"))))
}

// ---- executable grammar ---------------------------------------------------------------

// Exec returns the executable-document grammar: October 2021 plus variable definitions
// on fragment definitions (the experimental extension the library's AST documents).
func Exec() *Grammar {
	g := &Grammar{Name: "executable", Start: "Document", Rules: map[string][]Alt{}}
	g.shared()
	g.rule("Document", alt(func(k [][]string) string {
		var ops, frags []string
		for _, d := range k[0] {
			if strings.HasPrefix(d, "frag{") {
				frags = append(frags, d)
			} else {
				ops = append(ops, d)
			}
		}
		return "doc{ops[" + join(ops) + "] frags[" + join(frags) + "]}"
	}, plus(nt("Definition"))))
	g.rule("Definition", alt(pass(0), nt("Operation")), alt(pass(0), nt("FragmentDef")))
	g.rule("Operation",
		alt(func(k [][]string) string {
			return "op{" + one(k[0]) + " " + q(one(k[1])) + " vars[" + one(k[2]) + "] dirs[" + one(k[3]) + "] sel[" + one(k[4]) + "]}"
		}, nt("OpType"), opt(tm(tName)), opt(nt("VarDefs")), opt(nt("Directives")), nt("SelectionSet")),
		alt(func(k [][]string) string { return "op{query \"\" vars[] dirs[] sel[" + one(k[0]) + "]}" }, nt("SelectionSet")),
	)
	g.rule("VarDefs", alt(func(k [][]string) string { return join(k[1]) }, tm(pParenL), plus(nt("VarDef")), tm(pParenR)))
	g.rule("VarDef", alt(func(k [][]string) string {
		return "var{" + one(k[1]) + " " + one(k[3]) + " default(" + one(k[4]) + ") dirs[" + one(k[5]) + "]}"
	}, tm(pDollar), tm(tName), tm(pColon), nt("Type"), opt(nt("Default")), opt(nt("DirectivesConst"))))
	g.rule("SelectionSet", alt(func(k [][]string) string { return join(k[1]) }, tm(pBraceL), plus(nt("Selection")), tm(pBraceR)))
	g.rule("Selection", alt(pass(0), nt("Field")), alt(pass(0), nt("Spread")), alt(pass(0), nt("Inline")))
	field := func(alias, name int, rest int) func(k [][]string) string {
		return func(k [][]string) string {
			return "field{" + one(k[alias]) + " " + one(k[name]) + " args[" + one(k[rest]) + "] dirs[" + one(k[rest+1]) + "] sel[" + one(k[rest+2]) + "]}"
		}
	}
	g.rule("Field",
		alt(field(0, 0, 1), tm(tName), opt(nt("Arguments")), opt(nt("Directives")), opt(nt("SelectionSet"))),
		alt(field(0, 2, 3), tm(tName), tm(pColon), tm(tName), opt(nt("Arguments")), opt(nt("Directives")), opt(nt("SelectionSet"))),
	)
	g.rule("Spread", alt(func(k [][]string) string { return "spread{" + one(k[1]) + " dirs[" + one(k[2]) + "]}" },
		tm(pSpread), tm(tFragName), opt(nt("Directives"))))
	g.rule("TypeCond", alt(pass(1), tm(kw("on")), tm(tName)))
	g.rule("Inline", alt(func(k [][]string) string {
		return "inline{" + q(one(k[1])) + " dirs[" + one(k[2]) + "] sel[" + one(k[3]) + "]}"
	}, tm(pSpread), opt(nt("TypeCond")), opt(nt("Directives")), nt("SelectionSet")))
	g.rule("FragmentDef", alt(func(k [][]string) string {
		return "frag{" + one(k[1]) + " vars[" + one(k[2]) + "] on " + one(k[3]) + " dirs[" + one(k[4]) + "] sel[" + one(k[5]) + "]}"
	}, tm(kw("fragment")), tm(tFragName), opt(nt("VarDefs")), nt("TypeCond"), opt(nt("Directives")), nt("SelectionSet")))
	g.check()
	return g
}

// ---- type-system grammar --------------------------------------------------------------

// Defects switch on emulations of known, recorded library defects (DESIGN.md §2.6); the
// strict grammar has all of them off.
type Defects struct {
	// EnumValueAnyName: an enum value definition may be any name, including true, false
	// and null (the library defers that check to schema validation).
	EnumValueAnyName bool
}

// SDL returns the type-system grammar (definitions and extensions), October 2021.
func SDL() *Grammar { return SDLWith(Defects{}) }

func SDLWith(df Defects) *Grammar {
	g := &Grammar{Name: "type-system", Start: "Document", Rules: map[string][]Alt{}}
	g.shared()
	g.rule("Document", alt(func(k [][]string) string {
		parts := map[string][]string{}
		for _, d := range k[0] {
			i := strings.IndexByte(d, '{')
			parts[d[:i]] = append(parts[d[:i]], d)
		}
		return "sdoc{schema[" + join(parts["schema"]) + "] schemaext[" + join(parts["schemaext"]) + "] directives[" + join(parts["dirdef"]) +
			"] defs[" + join(parts["def"]) + "] exts[" + join(parts["ext"]) + "]}"
	}, plus(nt("Definition"))))
	var defAlts []Alt
	for _, n := range []string{"SchemaDef", "SchemaExt", "ScalarDef", "ScalarExt", "ObjectDef", "ObjectExt", "InterfaceDef", "InterfaceExt",
		"UnionDef", "UnionExt", "EnumDef", "EnumExt", "InputDef", "InputExt", "DirectiveDef"} {
		defAlts = append(defAlts, alt(pass(0), nt(n)))
	}
	g.rule("Definition", defAlts...)
	g.rule("Desc", alt(pass(0), tm(tString)), alt(pass(0), tm(tBlock)))
	g.rule("RootOp", alt(func(k [][]string) string { return one(k[0]) + ":" + one(k[2]) }, nt("OpType"), tm(pColon), tm(tName)))
	g.rule("RootOps", alt(func(k [][]string) string { return join(k[1]) }, tm(pBraceL), plus(nt("RootOp")), tm(pBraceR)))
	schema := func(tag string, desc, dirs, ops int) func(k [][]string) string {
		return func(k [][]string) string {
			d, o := "", ""
			if desc >= 0 {
				d = one(k[desc])
			}
			if ops >= 0 {
				o = one(k[ops])
			}
			return tag + "{" + q(d) + " dirs[" + one(k[dirs]) + "] ops[" + o + "]}"
		}
	}
	ext := tm(kw("extend"))
	g.rule("SchemaDef", alt(schema("schema", 0, 2, 3), opt(nt("Desc")), tm(kw("schema")), opt(nt("DirectivesConst")), nt("RootOps")))
	g.rule("SchemaExt",
		alt(schema("schemaext", -1, 2, 3), ext, tm(kw("schema")), opt(nt("DirectivesConst")), nt("RootOps")),
		alt(schema("schemaext", -1, 2, -1), ext, tm(kw("schema")), nt("DirectivesConst")),
	)
	// def{KIND "desc" Name ifaces[..] dirs[..] fields[..] types[..] values[..]}
	def := func(tag, kind string, desc, name, ifaces, dirs, fields, types, values int) func(k [][]string) string {
		at := func(k [][]string, i int) string {
			if i < 0 {
				return ""
			}
			return one(k[i])
		}
		return func(k [][]string) string {
			return tag + "{" + kind + " " + q(at(k, desc)) + " " + at(k, name) + " ifaces[" + at(k, ifaces) + "] dirs[" + at(k, dirs) + "] fields[" + at(k, fields) +
				"] types[" + at(k, types) + "] values[" + at(k, values) + "]}"
		}
	}
	dc := opt(nt("DirectivesConst"))
	g.rule("ScalarDef", alt(def("def", "SCALAR", 0, 2, -1, 3, -1, -1, -1), opt(nt("Desc")), tm(kw("scalar")), tm(tName), dc))
	g.rule("ScalarExt", alt(def("ext", "SCALAR", -1, 2, -1, 3, -1, -1, -1), ext, tm(kw("scalar")), tm(tName), nt("DirectivesConst")))
	g.rule("AmpName", alt(pass(1), tm(pAmp), tm(tName)))
	g.rule("Implements", alt(func(k [][]string) string {
		return join(append([]string{one(k[2])}, k[3]...))
	}, tm(kw("implements")), opt(tm(pAmp)), tm(tName), opt(plus(nt("AmpName")))))
	g.rule("FieldsDef", alt(func(k [][]string) string { return join(k[1]) }, tm(pBraceL), plus(nt("FieldDef")), tm(pBraceR)))
	g.rule("FieldDef", alt(func(k [][]string) string {
		return "fielddef{" + q(one(k[0])) + " " + one(k[1]) + " args[" + one(k[2]) + "] " + one(k[4]) + " default() dirs[" + one(k[5]) + "]}"
	}, opt(nt("Desc")), tm(tName), opt(nt("ArgsDef")), tm(pColon), nt("Type"), dc))
	g.rule("ArgsDef", alt(func(k [][]string) string { return join(k[1]) }, tm(pParenL), plus(nt("ArgDef")), tm(pParenR)))
	g.rule("ArgDef", alt(func(k [][]string) string {
		return "argdef{" + q(one(k[0])) + " " + one(k[1]) + " " + one(k[3]) + " default(" + one(k[4]) + ") dirs[" + one(k[5]) + "]}"
	}, opt(nt("Desc")), tm(tName), tm(pColon), nt("Type"), opt(nt("Default")), dc))
	g.rule("InputFieldDef", alt(func(k [][]string) string {
		return "fielddef{" + q(one(k[0])) + " " + one(k[1]) + " args[] " + one(k[3]) + " default(" + one(k[4]) + ") dirs[" + one(k[5]) + "]}"
	}, opt(nt("Desc")), tm(tName), tm(pColon), nt("Type"), opt(nt("Default")), dc))
	g.rule("InputFieldsDef", alt(func(k [][]string) string { return join(k[1]) }, tm(pBraceL), plus(nt("InputFieldDef")), tm(pBraceR)))
	for _, c := range []struct{ rule, word, kind string }{{"Object", "type", "OBJECT"}, {"Interface", "interface", "INTERFACE"}} {
		g.rule(c.rule+"Def", alt(def("def", c.kind, 0, 2, 3, 4, 5, -1, -1),
			opt(nt("Desc")), tm(kw(c.word)), tm(tName), opt(nt("Implements")), dc, opt(nt("FieldsDef"))))
		g.rule(c.rule+"Ext",
			alt(def("ext", c.kind, -1, 2, 3, 4, 5, -1, -1), ext, tm(kw(c.word)), tm(tName), opt(nt("Implements")), dc, nt("FieldsDef")),
			alt(def("ext", c.kind, -1, 2, 3, 4, -1, -1, -1), ext, tm(kw(c.word)), tm(tName), opt(nt("Implements")), nt("DirectivesConst")),
			alt(def("ext", c.kind, -1, 2, 3, -1, -1, -1, -1), ext, tm(kw(c.word)), tm(tName), nt("Implements")),
		)
	}
	g.rule("PipeName", alt(pass(1), tm(pPipe), tm(tName)))
	g.rule("Members", alt(func(k [][]string) string {
		return join(append([]string{one(k[2])}, k[3]...))
	}, tm(pEquals), opt(tm(pPipe)), tm(tName), opt(plus(nt("PipeName")))))
	g.rule("UnionDef", alt(def("def", "UNION", 0, 2, -1, 3, -1, 4, -1), opt(nt("Desc")), tm(kw("union")), tm(tName), dc, opt(nt("Members"))))
	g.rule("UnionExt",
		alt(def("ext", "UNION", -1, 2, -1, 3, -1, 4, -1), ext, tm(kw("union")), tm(tName), dc, nt("Members")),
		alt(def("ext", "UNION", -1, 2, -1, 3, -1, -1, -1), ext, tm(kw("union")), tm(tName), nt("DirectivesConst")),
	)
	g.rule("EnumValueDef", alt(func(k [][]string) string {
		return "enumval{" + q(one(k[0])) + " " + one(k[1]) + " dirs[" + one(k[2]) + "]}"
	}, opt(nt("Desc")), tm(enumValueTerm(df)), dc))
	g.rule("EnumValuesDef", alt(func(k [][]string) string { return join(k[1]) }, tm(pBraceL), plus(nt("EnumValueDef")), tm(pBraceR)))
	g.rule("EnumDef", alt(def("def", "ENUM", 0, 2, -1, 3, -1, -1, 4), opt(nt("Desc")), tm(kw("enum")), tm(tName), dc, opt(nt("EnumValuesDef"))))
	g.rule("EnumExt",
		alt(def("ext", "ENUM", -1, 2, -1, 3, -1, -1, 4), ext, tm(kw("enum")), tm(tName), dc, nt("EnumValuesDef")),
		alt(def("ext", "ENUM", -1, 2, -1, 3, -1, -1, -1), ext, tm(kw("enum")), tm(tName), nt("DirectivesConst")),
	)
	g.rule("InputDef", alt(def("def", "INPUT_OBJECT", 0, 2, -1, 3, 4, -1, -1), opt(nt("Desc")), tm(kw("input")), tm(tName), dc, opt(nt("InputFieldsDef"))))
	g.rule("InputExt",
		alt(def("ext", "INPUT_OBJECT", -1, 2, -1, 3, 4, -1, -1), ext, tm(kw("input")), tm(tName), dc, nt("InputFieldsDef")),
		alt(def("ext", "INPUT_OBJECT", -1, 2, -1, 3, -1, -1, -1), ext, tm(kw("input")), tm(tName), nt("DirectivesConst")),
	)
	tLoc := &Term{Name: "DirectiveLocation", Match: func(t Tok) bool { return t.Kind == "Name" && Locations[t.Value] }, Text: func(t Tok) string { return t.Value }}
	g.rule("PipeLoc", alt(pass(1), tm(pPipe), tm(tLoc)))
	g.rule("Locations", alt(func(k [][]string) string {
		return join(append([]string{one(k[1])}, k[2]...))
	}, opt(tm(pPipe)), tm(tLoc), opt(plus(nt("PipeLoc")))))
	g.rule("DirectiveDef", alt(func(k [][]string) string {
		rep := "false"
		if len(k[5]) > 0 {
			rep = "true"
		}
		return "dirdef{" + q(one(k[0])) + " " + one(k[3]) + " args[" + one(k[4]) + "] repeatable=" + rep + " on[" + one(k[7]) + "]}"
	}, opt(nt("Desc")), tm(kw("directive")), tm(pAt), tm(tName), opt(nt("ArgsDef")), opt(tm(kw("repeatable"))), tm(kw("on")), nt("Locations")))
	g.check()
	return g
}

func enumValueTerm(df Defects) *Term {
	if df.EnumValueAnyName {
		return tName
	}
	return tEnum
}
