package props

import (
	"encoding/json"
	"fmt"
	"math"
	"strings"
	"time"

	"github.com/vektah/gqlparser/v2/ast"
	"github.com/vektah/gqlparser/v2/parser"

	"verif/mc/explore"
	"verif/mc/gen"
	"verif/mc/ref/reflex"
)

// C16: the token limit is exact, monotone and bounds the work done on hostile input.

func init() {
	register(&Prop{ID: "C16", Run: runC16, Replay: func(c *explore.Ctx, s *explore.SubStats, v explore.Violation) {
		if v.Sub == "families" {
			var in famInput
			if json.Unmarshal(v.Input, &in) == nil {
				if f := findFamily(gen.ParseFamilies, in.Family); f != nil {
					c16FamilyCase(c, s, f, in.N, in.Limit)
				}
			}
			return
		}
		var in c16Input
		if json.Unmarshal(v.Input, &in) == nil {
			c16Case(c, s, in.Text, in.SDL)
		}
	}, Assumptions: []string{
		"the token count N of an input is computed by ref/reflex (comments counted, end of input not)",
		"negative limits are outside the property (limits range over 0..N+2); limit 0 means unlimited",
		"'work proportional to L' is decided as a deterministic step count (function entries + loop iterations of the instrumented repository code) and the maximum call depth, on inputs whose individual tokens (with the ignored characters before them) are short; one multi-megabyte token or run of ignored characters is scanned in full before it can be counted, by construction of any lexer",
		"for several sources the limit applies to each source separately (the library's documented behaviour); the sequences explored are single sources",
	}})
}

type c16Input struct {
	Text string `json:"text"`
	SDL  bool   `json:"sdl"`
}

func c16Parse(text string, sdl bool, limit int, unlimitedEntry bool) (proj string, err error, r callResult) {
	r = guarded(stepBudgetShort(len(text))*4, 0, func() {
		src := &ast.Source{Input: text, Name: "f"}
		if sdl {
			var d *ast.SchemaDocument
			if unlimitedEntry {
				d, err = parser.ParseSchema(src)
			} else {
				d, err = parser.ParseSchemaWithLimit(src, limit)
			}
			if err == nil {
				proj = projSDL(d)
			}
		} else {
			var d *ast.QueryDocument
			if unlimitedEntry {
				d, err = parser.ParseQuery(src)
			} else {
				d, err = parser.ParseQueryWithTokenLimit(src, limit)
			}
			if err == nil {
				proj = projExec(d)
			}
		}
	})
	return
}

func c16Case(c *explore.Ctx, s *explore.SubStats, text string, sdl bool) {
	explore.Crumb(s.Name, text)
	in := c16Input{text, sdl}
	bad := func(key, detail string) {
		c.Report(s, explore.Violation{Key: key, Input: explore.J(in), Rendered: text, Detail: detail})
	}
	lx := reflex.Lex(text, reflex.Defects{})
	if lx.Undecided {
		s.Undecided++
		return
	}
	n := len(lx.Tokens) // comments counted; when lexing fails: the tokens before the failure
	lexFails := lx.FailAt >= 0
	uproj, uerr, ur := c16Parse(text, sdl, 0, true)
	if ur.Panicked {
		bad("panic site="+ur.Site, ur.PanicVal)
		return
	}
	prevOK := false
	for limit := -2; limit <= n+2; limit++ { // negative limits: no input has that few tokens
		if limit < 0 && n == 0 {
			continue // no token is ever consumed: nothing for a limit to act on (outside the property's 0 … N+2)
		}
		s.Executions++
		s.Transitions++
		proj, err, r := c16Parse(text, sdl, limit, false)
		if r.Panicked {
			bad("panic site="+r.Site, fmt.Sprintf("limit %d: %s", limit, r.PanicVal))
			continue
		}
		s.Validated++
		ok := err == nil
		want := uerr == nil && (limit == 0 || n <= limit)
		rel := "N<=L"
		if limit != 0 && n > limit {
			rel = "N>L"
		}
		if limit == 0 {
			rel = "L=0"
		}
		if limit < 0 {
			rel = "L<0"
		}
		switch {
		case ok && !want:
			if uerr != nil {
				bad("limit/accepts-what-unlimited-rejects "+rel, fmt.Sprintf("limit %d (N=%d): limited parse succeeds but the unlimited parse fails: %v", limit, n, uerr))
			} else {
				bad("limit/not-enforced "+rel, fmt.Sprintf("limit %d but the input has N=%d tokens (comments counted) and the limited parse succeeds", limit, n))
			}
		case !ok && want:
			bad("limit/false-reject "+rel, fmt.Sprintf("limit %d, N=%d tokens, the unlimited parse succeeds, but the limited parse fails: %v", limit, n, err))
		case ok && proj != uproj:
			bad("limit/tree-differs "+rel, fmt.Sprintf("limit %d: the limited parse builds a different tree\nunlimited: %s\nlimited:   %s", limit, uproj, proj))
		}
		if limit > 0 {
			if prevOK && limit > 1 && !ok && uerr == nil {
				// monotone in L (limit 0 is 'unlimited' and sits outside the order)
				bad("limit/not-monotone", fmt.Sprintf("succeeds with limit %d but fails with limit %d", limit-1, limit))
			}
			prevOK = ok
		}
		if !lexFails && limit > 0 && n > limit && !ok {
			// the failure must be the limit, reached after at most L+1 tokens worth of work
			s.MaxOf("steps_per_limit_short", r.Steps/int64(limit+2))
		}
		s.Outcome(fmt.Sprintf("%s unlimited=%v limited=%v", rel, uerr == nil, ok))
	}
	if uerr == nil {
		s.Nontrivial++
	}
	s.Sample(func() any { return in })
}

// Step and depth bounds for limited parsing of inputs with N > L tokens: measured maxima
// on the unchanged tree are ≈ 30 steps and ≈ 3.5 call levels per token of the limit; the bounds
// allow 20× that plus a constant. They do not mention the input size.
func c16StepBound(limit int) int64 { return 4000 + 600*int64(limit) }
func c16DepthBound(limit int) int  { return 200 + 70*limit }

var c16Excluded = map[string]string{
	"giant-name": "one giant token", "giant-int": "one giant token", "giant-string": "one giant token", "giant-escapes": "one giant token",
	"giant-blockstring": "one giant token", "blockstring-quotes": "one giant token", "giant-comment": "one giant token", "unterminated-string": "one giant token",
	"comma-flood": "one run of ignored characters", "crlf-flood": "one run of ignored characters", "bom-flood": "one run of ignored characters",
	"invalid-bytes":              "fails at the first byte",
	"nonascii-string-unexpected": "one giant token", "nonascii-blockstring-unexpected": "one giant token", "nonascii-string-after-fragment-name": "one giant token",
	"sdl-nonascii-description-extend": "one giant token", "sdl-nonascii-two-descriptions": "one giant token",
}

func c16FamilyCase(c *explore.Ctx, s *explore.SubStats, f *gen.Family, n, limit int) {
	text := f.Make(n)
	rendered := fmt.Sprintf("family=%s n=%d limit=%d bytes=%d", f.Name, n, limit, len(text))
	explore.Crumb(s.Name, rendered)
	in := famInput{f.Name, n, limit}
	bad := func(key, detail string) {
		c.Report(s, explore.Violation{Key: key, Input: explore.J(in), Rendered: rendered, Detail: detail})
	}
	// token count: cheap exact count for these families via the reference lexer on small n,
	// otherwise known to exceed the limit because every family has ≥ n tokens.
	for _, sdl := range []bool{false, true} {
		s.Executions++
		var err error
		lb := limit
		if lb < 0 {
			lb = 0
		}
		r := guarded(c16StepBound(lb), c16DepthBound(lb), func() {
			src := &ast.Source{Input: text, Name: "f"}
			if sdl {
				_, err = parser.ParseSchemaWithLimit(src, limit)
			} else {
				_, err = parser.ParseQueryWithTokenLimit(src, limit)
			}
		})
		s.Validated++
		s.MaxOf("steps_per_limit_x1", r.Steps/int64(lb+2))
		s.MaxOf("depth_per_limit_x100", int64(r.MaxDepth)*100/int64(lb+2))
		entry := map[bool]string{false: "query", true: "schema"}[sdl]
		if r.Panicked {
			if r.Budget {
				bad("limit/work-not-bounded family="+f.Name+" entry="+entry, fmt.Sprintf("%s with limit %d on %d bytes (≥ %d tokens): %s; bound: %d steps, depth %d — independent of the input size", entry, limit, len(text), n, r.PanicVal, c16StepBound(lb), c16DepthBound(lb)))
			} else {
				bad("panic site="+r.Site, r.PanicVal+"\n"+trimStack(r.Stack))
			}
			continue
		}
		if err == nil {
			bad("limit/not-enforced family="+f.Name+" entry="+entry, fmt.Sprintf("%s with limit %d on an input of ≥ %d tokens succeeds", entry, limit, n))
		}
		s.Outcome(f.Name + ":" + entry + ":" + map[bool]string{true: "err", false: "ok"}[err != nil])
	}
	s.Nontrivial++
	s.Sample(func() any { return rendered })
}

func runC16(c *explore.Ctx) {
	defer histSub(c) // limited and unlimited entry points in every order: each call equals the call on its own
	seqs := func(name string, alpha []gen.Tok, sdl bool, n int) {
		s := c.Sub(name, fmt.Sprintf("every token sequence of ≤ %d tokens over %d token classes (comments and an invalid token included) × every limit −2 … N+2", n, len(alpha)),
			"limited parse succeeds ⇔ unlimited succeeds ∧ (L = 0 ∨ N ≤ L), with N counted by the reference lexer (comments included); identical tree on success; monotone in L", "sequences the unlimited parser accepts")
		if s == nil {
			return
		}
		t0 := time.Now()
		st, tr, complete := explore.Seqs(len(alpha), n, c.Shard, c.NShards, c.Expired, func(sym []int) bool {
			c16Case(c, s, gen.Render(alpha, sym), sdl)
			return true
		})
		s.States += st
		_ = tr
		if !complete {
			s.Cap("deadline")
		}
		s.WallS = time.Since(t0).Seconds()
	}
	seqs("limits-exec", gen.SigmaExec, false, c.Pick(4, 5))
	seqs("limits-sdl", gen.SigmaSDL, true, c.Pick(4, 5))

	// valid sentences (longer than the raw sweep reaches) with comments at every gap
	sent := func(name string, side *gramSide, sdl bool, n int) {
		s := c.Sub(name, fmt.Sprintf("every sentence of ≤ %d tokens of the %s grammar over the core alphabet, plain, with a comment inserted at every single gap, and with commas / a BOM / blank characters behind the last and before the first token, × every limit −2 … N+2", n, side.name),
			"as above (exactness at the boundary N = L, N = L+1 with comments counted)", "every case")
		if s == nil {
			return
		}
		t0 := time.Now()
		g := side.grammar()
		ss := language(side, g, "core", side.core, n, false)
		for i, se := range ss {
			if i%c.NShards != c.Shard {
				continue
			}
			if i&15 == 0 && c.Expired() {
				s.Cap("deadline")
				break
			}
			s.States++
			toks := make([]string, len(se.Classes))
			for j, x := range se.Classes {
				toks[j] = side.core[x].Text
			}
			c16Case(c, s, strings.Join(toks, " "), sdl)
			for gpos := 0; gpos <= len(toks); gpos++ {
				c16Case(c, s, renderGapsSep(toks, map[int]string{gpos: " #c\n"}), sdl)
			}
			// ignored characters behind the last token (and before the first) are no tokens
			for _, ign := range []string{",", "\ufeff", " ,\n", "\t\r\n,,"} {
				c16Case(c, s, strings.Join(toks, " ")+ign, sdl)
				c16Case(c, s, ign+strings.Join(toks, " "), sdl)
			}
		}
		s.WallS = time.Since(t0).Seconds()
	}
	sent("sentences-exec", execSide, false, c.Pick(7, 9))
	sent("sentences-sdl", sdlSide, true, c.Pick(6, 7))

	// the long profile documents (every construct of both grammars, the keywords the core alphabet leaves out:
	// directive definitions with `repeatable`, enums, scalars, descriptions, block strings) × every limit
	if sp := c.Sub("limits-profiles", fmt.Sprintf("the %d executable and %d type-system profile documents × every limit −2 … N+2", len(gen.ExecProfiles), len(gen.SDLProfiles)),
		"as above (exactness at the boundary N = L, N = L+1; every token of every construct is charged once)", "every case"); sp != nil {
		t0 := time.Now()
		idx := 0
		for _, set := range []struct {
			docs []string
			sdl  bool
		}{{gen.ExecProfiles, false}, {gen.SDLProfiles, true}} {
			for _, d := range set.docs {
				idx++
				if idx%c.NShards != c.Shard {
					continue
				}
				sp.States++
				c16Case(c, sp, d, set.sdl)
				c16Case(c, sp, d+",", set.sdl)
				c16Case(c, sp, d+"\ufeff", set.sdl)
			}
		}
		sp.WallS = time.Since(t0).Seconds()
	}

	// several sources: the limit applies to each source
	s0 := c.Sub("limits-sources", "every ordered pair of type-system sentences of ≤ 3 tokens (core alphabet; schema definitions / extensions one token longer) as two sources × every assignment of the built-in flag × every limit −1 … max(N₁,N₂)+1 through ParseSchemasWithLimit",
		"succeeds ⇔ every source parses without a limit ∧ (L = 0 ∨ every source has at most L tokens); identical tree on success; the slice the caller hands in holds the same sources afterwards (empty and comment-only sources included)", "pairs that parse")
	if s0 != nil {
		t0 := time.Now()
		g := sdlSide.grammar()
		var texts []string
		for _, sent := range language(sdlSide, g, "core", sdlSide.core, 4, false) {
			if len(sent.Classes) <= 3 || (strings.Contains(sent.Tree, "defs[]") && strings.Contains(sent.Tree, "exts[]") && strings.Contains(sent.Tree, "directives[]")) {
				texts = append(texts, renderClasses(sdlSide.core, sent.Classes, " "))
			}
		}
		texts = append(texts, "type a { a : a } # c\n", "? a")
		texts = append(texts, sourcesExtras...)
		texts = append(texts, "", "# only a comment\n")
		idx := 0
		for _, a := range texts {
			for _, b := range texts {
				idx++
				if idx%c.NShards != c.Shard {
					continue
				}
				s0.States++
				na, nb := len(reflex.Lex(a, reflex.Defects{}).Tokens), len(reflex.Lex(b, reflex.Defects{}).Tokens)
				_, ea := parser.ParseSchema(&ast.Source{Input: a, Name: "a"})
				_, eb := parser.ParseSchema(&ast.Source{Input: b, Name: "b"})
				for flags := 0; flags < 4; flags++ {
					srcs := func() []*ast.Source {
						return []*ast.Source{{Input: a, Name: "a", BuiltIn: flags&1 != 0}, {Input: b, Name: "b", BuiltIn: flags&2 != 0}}
					}
					if flags == 0 && ea == nil && eb == nil {
						// the same *Source listed twice, and two sources that carry the same name: a source list is a
						// list, every element is parsed (as the unlimited entry point does)
						fresh := []*ast.Source{{Input: a, Name: "a"}, {Input: b, Name: "b"}, {Input: a, Name: "a2"}}
						want3, werr := parser.ParseSchemas(fresh...)
						sa, sb := &ast.Source{Input: a, Name: "a"}, &ast.Source{Input: b, Name: "b"}
						for _, variant := range []struct {
							name string
							srcs []*ast.Source
						}{{"same-pointer-twice", []*ast.Source{sa, sb, sa}}, {"same-name", []*ast.Source{{Input: a, Name: "same.graphql"}, {Input: b, Name: "same.graphql"}, {Input: a, Name: "same.graphql"}}}} {
							for _, limit := range []int{0, na + nb + 1} {
								s0.Executions++
								d3, err3 := parser.ParseSchemasWithLimit(limit, variant.srcs...)
								in := sourcesInput{Sources: []string{a, b, a}, BuiltIn: []bool{false, false, false}}
								if (err3 == nil) != (werr == nil) || (err3 == nil && projSDL(d3) != projSDL(want3)) {
									c.Report(s0, explore.Violation{Key: "limit/sources-tree-differs " + variant.name, Input: explore.J(in), Rendered: fmt.Sprintf("%s\n---\n%s\n---\n%s   %s limit=%d", a, b, a, variant.name, limit),
										Detail: fmt.Sprintf("ParseSchemasWithLimit(%d, s, t, s) [%s] does not build the tree ParseSchemas builds from three separate sources with these texts (err=%v)", limit, variant.name, err3)})
								}
							}
						}
					}
					ud, uerr := parser.ParseSchemas(srcs()...)
					max := na
					if nb > max {
						max = nb
					}
					for limit := -1; limit <= max+1; limit++ {
						s0.Executions++
						s0.Transitions++
						given := srcs()
						handed := append([]*ast.Source{}, given...)
						d, err := parser.ParseSchemasWithLimit(limit, handed...)
						s0.Validated++
						for i := range given {
							if handed[i] != given[i] || given[i].Input != []string{a, b}[i] || given[i].Name != []string{"a", "b"}[i] {
								c.Report(s0, explore.Violation{Key: "limit/sources-callers-slice-changed", Input: explore.J(sourcesInput{Sources: []string{a, b}, BuiltIn: []bool{flags&1 != 0, flags&2 != 0}}),
									Rendered: fmt.Sprintf("%s\n---\n%s   limit=%d", a, b, limit), Detail: fmt.Sprintf("after ParseSchemasWithLimit element %d of the slice the caller handed in is another source (or its content changed)", i)})
								break
							}
						}
						// (a source without any token never meets the limit, also not a negative one)
						want := ea == nil && eb == nil && (limit == 0 || ((na <= limit || na == 0) && (nb <= limit || nb == 0)))
						in := sourcesInput{Sources: []string{a, b}, BuiltIn: []bool{flags&1 != 0, flags&2 != 0}}
						rendered := fmt.Sprintf("%s\n---\n%s   builtin=%v limit=%d", a, b, in.BuiltIn, limit)
						switch {
						case err == nil && !want:
							c.Report(s0, explore.Violation{Key: "limit/sources-not-enforced", Input: explore.J(in), Rendered: rendered, Detail: fmt.Sprintf("ParseSchemasWithLimit(%d) succeeds although a source has more tokens (N=%d,%d) or does not parse", limit, na, nb)})
						case err != nil && want:
							c.Report(s0, explore.Violation{Key: "limit/sources-false-reject", Input: explore.J(in), Rendered: rendered, Detail: fmt.Sprintf("ParseSchemasWithLimit(%d) fails (%v) although both sources parse and have N=%d,%d tokens", limit, err, na, nb)})
						case err == nil && uerr == nil && projSDL(d) != projSDL(ud):
							c.Report(s0, explore.Violation{Key: "limit/sources-tree-differs", Input: explore.J(in), Rendered: rendered, Detail: "the limited parse of the sources builds a different tree"})
						case err == nil && uerr == nil && builtinSig(d) != builtinSig(ud):
							c.Report(s0, explore.Violation{Key: "limit/sources-builtin-flags-differ", Input: explore.J(in), Rendered: rendered, Detail: "the limited parse marks other definitions / extensions built-in than the unlimited parse", Expected: builtinSig(ud), Observed: builtinSig(d)})
						}
						if err == nil {
							s0.Nontrivial++
						}
					}
				}
			}
		}
		s0.Outcome("checked")
		s0.WallS = time.Since(t0).Seconds()
	}

	// limit 0 and a limit above the token count behave like the unlimited entry point, at every size
	s1 := c.Sub("families-unlimited", fmt.Sprintf("%d size families × n = 2^k up to 64 KiB, through the limited entry points with limit 0 and with limits 2³⁰, 2³¹, 2³²−1, 2³², 2³²+1, 2⁴⁰+3 and the largest int, and (inputs that parse) with the exact token count N of ref/reflex, N−1 and N+1 (tokens of up to 64 KiB count once)", len(gen.ParseFamilies)),
		"the limited entry point with limit 0 (unlimited) or a limit above the token count succeeds exactly when the unlimited entry point does", "every case")
	if s1 != nil {
		t0 := time.Now()
		idx := 0
		for fi := range gen.ParseFamilies {
			f := &gen.ParseFamilies[fi]
			for n := 1; len(f.Make(n)) <= 64<<10; n *= 2 {
				idx++
				if idx%c.NShards != c.Shard {
					continue
				}
				if c.Expired() {
					s1.Cap("deadline")
					break
				}
				text := f.Make(n)
				s1.States++
				for _, sdl := range []bool{false, true} {
					_, uerr, ur := c16Parse(text, sdl, 0, true)
					if ur.Panicked {
						continue
					}
					// the exact token count of the input (ref/reflex) is enough, one less is not, whatever the size of the tokens
					if lx := reflex.Lex(text, reflex.Defects{}); uerr == nil && lx.FailAt < 0 && !lx.Undecided {
						nt := len(lx.Tokens)
						for _, limit := range []int{nt, nt - 1, nt + 1} {
							if limit <= 0 {
								continue
							}
							s1.Executions++
							s1.Transitions++
							_, err, r := c16Parse(text, sdl, limit, false)
							if r.Panicked {
								continue
							}
							s1.Validated++
							if (err == nil) != (limit >= nt) {
								c.Report(s1, explore.Violation{Key: fmt.Sprintf("limit/exact-count-differs L=N%+d", limit-nt), Input: explore.J(famInput{f.Name, n, limit}), Rendered: fmt.Sprintf("family=%s n=%d limit=%d tokens=%d bytes=%d sdl=%v", f.Name, n, limit, nt, len(text), sdl),
									Detail: fmt.Sprintf("the input has %d tokens and parses without a limit; with limit %d: %v", nt, limit, err)})
							}
						}
					}
					for _, limit := range []int{0, 1 << 30, 1 << 31, 1<<32 - 1, 1 << 32, 1<<32 + 1, 1<<40 + 3, math.MaxInt} {
						s1.Executions++
						s1.Transitions++
						_, err, r := c16Parse(text, sdl, limit, false)
						if r.Panicked {
							continue
						}
						s1.Validated++
						if (err == nil) != (uerr == nil) {
							c.Report(s1, explore.Violation{Key: fmt.Sprintf("limit/unlimited-differs L=%d", limit), Input: explore.J(famInput{f.Name, n, limit}), Rendered: fmt.Sprintf("family=%s n=%d limit=%d bytes=%d sdl=%v", f.Name, n, limit, len(text), sdl),
								Detail: fmt.Sprintf("unlimited entry point: %v; limited entry point with limit %d: %v", uerr, limit, err)})
						}
					}
				}
				s1.Nontrivial++
			}
		}
		s1.Outcome("checked")
		s1.WallS = time.Since(t0).Seconds()
	}

	// size families under small limits: work must not depend on the input size
	s := c.Sub("families", fmt.Sprintf("%d size families with short tokens (nesting of [ { ( and selection sets, token / comment / definition floods) × n = 2^k up to %s × limits {−1, 1, 16, 1024, 65536} (only n > limit), both parsers", len(gen.ParseFamilies)-len(c16Excluded), map[bool]string{false: "1 MiB", true: "8 MiB"}[c.Thorough()]),
		"the limited parse fails, within 4000+600·L steps and call depth 200+70·L — bounds that do not mention the input size (a parser that does work before checking the limit exceeds them as n doubles)", "every case")
	if s == nil {
		return
	}
	t0 := time.Now()
	maxBytes := 1 << 20
	if c.Thorough() {
		maxBytes = 8 << 20
	}
	idx := 0
	for fi := range gen.ParseFamilies {
		f := &gen.ParseFamilies[fi]
		if _, ex := c16Excluded[f.Name]; ex {
			continue
		}
		for _, limit := range []int{-1, 1, 16, 1024, 65536} {
			for n := 1; ; n *= 2 {
				if len(f.Make(1))*n > maxBytes*2 || len(f.Make(n)) > maxBytes {
					break
				}
				if n <= limit+2 {
					continue
				}
				idx++
				if idx%c.NShards != c.Shard {
					continue
				}
				if c.Expired() {
					s.Cap("deadline")
					return
				}
				s.States++
				s.Transitions++
				c16FamilyCase(c, s, f, n, limit)
			}
		}
	}
	s.Extra["excluded_families"] = c16Excluded
	s.WallS = time.Since(t0).Seconds()
}

// builtinSig lists the built-in flag of every definition, extension and directive of a schema document.
func builtinSig(d *ast.SchemaDocument) string {
	var b strings.Builder
	for _, x := range d.Definitions {
		fmt.Fprintf(&b, "def %s=%v;", x.Name, x.BuiltIn)
	}
	for _, x := range d.Extensions {
		fmt.Fprintf(&b, "ext %s=%v;", x.Name, x.BuiltIn)
	}
	return b.String()
}
