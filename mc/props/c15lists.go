package props

import (
	"encoding/json"
	"fmt"
	"reflect"
	"strings"

	"github.com/vektah/gqlparser/v2"
	"github.com/vektah/gqlparser/v2/ast"
	"github.com/vektah/gqlparser/v2/parser"
	"github.com/vektah/gqlparser/v2/validator"

	"verif/mc/explore"
)

// list-depth: a variable of type [[[Int]]] feeding a field and a directive argument of that
// type. Input coercion wraps a value that is not a list into a list of one at every level, so
// the value the argument gets is fully determined by the literal / JSON written.

const c15ListSDL = `directive @dir(ll: [[[Int]]]) on FIELD
type Query { f(ll: [[[Int]]], l2: [[Int]] = [[5]]): Int g: Int }
`

type c15ListCase struct {
	Default  string `json:"default"`  // literal text, "" = none
	Supplied string `json:"supplied"` // JSON text, "" = absent
}

// c15ListValues: literal text (also valid JSON) → the Go value written.
var c15ListValues = []string{"[[[1]]]", "[[1, 2], [[3]]]", "[1]", "7", "[[1], 2]", "[]", "[[]]", "null", "[null, [null, [null]]]", "[[[1, 2], 3], 4]", "[[1, null]]"}

// coerceToDepth: list input coercion of the specification (§3.11 result coercion table) for a
// nullable-everywhere list type of the given depth.
func coerceToDepth(v any, depth int) any {
	if v == nil || depth == 0 {
		return v
	}
	if xs, ok := v.([]any); ok {
		out := make([]any, len(xs))
		for i, x := range xs {
			out[i] = coerceToDepth(x, depth-1)
		}
		return out
	}
	return []any{coerceToDepth(v, depth-1)}
}

func parseJSONValue(s string) any {
	var v any
	if err := json.Unmarshal([]byte(s), &v); err != nil {
		panic(err)
	}
	return v
}

func c15ListRun(c *explore.Ctx, s *explore.SubStats, schema *ast.Schema, cs c15ListCase) {
	decl := "$v: [[[Int]]]"
	if cs.Default != "" {
		decl += " = " + cs.Default
	}
	q := "query Q(" + decl + ") { f(ll: $v) g @dir(ll: $v) }"
	raw := map[string]any{}
	if cs.Supplied != "" {
		raw["v"] = parseJSONValue(cs.Supplied)
	}
	rendered := q + "   variables=" + goRepr(raw)
	explore.Crumb(s.Name, rendered)
	s.Executions++
	bad := func(key, detail, exp, obs string) {
		c.Report(s, explore.Violation{Key: key, Input: explore.J(cs), Rendered: rendered, Detail: detail, Expected: exp, Observed: obs})
	}
	doc, errs := gqlparser.LoadQuery(schema, q)
	if errs != nil {
		s.Skipped++
		s.Outcome("invalid-document")
		return
	}
	var coerced map[string]any
	var cerr error
	r := guarded(0, 0, func() { coerced, cerr = validator.VariableValues(schema, doc.Operations[0], raw) })
	if r.Panicked || cerr != nil {
		s.Skipped++
		s.Outcome("coercion-refused")
		return
	}
	s.Validated++
	// expectation from the case alone
	var want any
	has := false
	switch {
	case cs.Supplied != "":
		want, has = coerceToDepth(parseJSONValue(cs.Supplied), 3), true
	case cs.Default != "":
		want, has = coerceToDepth(parseJSONValue(cs.Default), 3), true
	}
	wantMap := map[string]any{}
	if has {
		wantMap["ll"] = want
	}
	f := doc.Operations[0].SelectionSet[0].(*ast.Field)
	g := doc.Operations[0].SelectionSet[1].(*ast.Field)
	for _, site := range []struct {
		name  string
		get   func() map[string]any
		extra map[string]any
	}{
		{"field", func() map[string]any { return f.ArgumentMap(coerced) }, map[string]any{"l2": []any{[]any{int64(5)}}}},
		{"directive", func() map[string]any { return g.Directives[0].ArgumentMap(coerced) }, nil},
	} {
		var got map[string]any
		r := guarded(0, 0, func() { got = site.get() })
		s.Transitions++
		if r.Panicked {
			bad("args/panic list-depth site="+r.Site, "ArgumentMap panicked: "+r.PanicVal, "", "")
			continue
		}
		w := map[string]any{}
		for k, v := range wantMap {
			w[k] = v
		}
		for k, v := range site.extra {
			w[k] = v
		}
		if !reflect.DeepEqual(normNum(normAny(got)), normNum(normAny(w))) {
			src := "default"
			if cs.Supplied != "" {
				src = "supplied"
			}
			bad("args/value list-depth "+site.name+" src="+src, fmt.Sprintf("a [[[Int]]] variable written as %s / supplied as %s must reach the argument coerced to depth 3", cs.Default, cs.Supplied), goRepr(w), goRepr(got))
		}
	}
	s.Nontrivial++
	s.Outcome("ok")
	s.Sample(func() any { return rendered })
}

func init() {
	prev := registry["C15"].Run
	registry["C15"].Run = func(c *explore.Ctx) {
		prev(c)
		s := c.Sub("list-depth", fmt.Sprintf("a [[[Int]]] variable feeding a field and a directive argument: every default literal of %d (none included) × every supplied JSON value of %d (absent included)", len(c15ListValues)+1, len(c15ListValues)+1),
			"ArgumentMap gives the argument the supplied value, else the default, coerced to list depth 3 (a non-list value becomes a list of one at every level); an argument default that is omitted is applied", "cases that validate and coerce")
		if s == nil {
			return
		}
		schema, err := gqlparser.LoadSchema(&ast.Source{Name: "c15l.graphql", Input: c15ListSDL})
		if err != nil {
			panic(err)
		}
		idx := 0
		for _, d := range append([]string{""}, c15ListValues...) {
			for _, sup := range append([]string{""}, c15ListValues...) {
				idx++
				if idx%c.NShards != c.Shard {
					continue
				}
				s.States++
				c15ListRun(c, s, schema, c15ListCase{d, sup})
			}
		}
	}
}

// directive-sites: directives on fragment spreads (also a spread repeated in one operation) and
// inline fragments, and a built-in directive the schema declares itself with other defaults.

const c15SiteSDL = `directive @dir(n: Int, d: Int = 7) repeatable on FIELD | FRAGMENT_SPREAD | INLINE_FRAGMENT | FRAGMENT_DEFINITION | QUERY
directive @defer(if: Boolean = false, label: String = "main") on FRAGMENT_SPREAD | INLINE_FRAGMENT | FRAGMENT_DEFINITION | QUERY
directive @include(if: Boolean! = false, why: String = "w") on FIELD | FRAGMENT_SPREAD | INLINE_FRAGMENT | FRAGMENT_DEFINITION | QUERY
type Query { g: Int q: Query }
`

type c15SiteCase struct {
	Query string           `json:"query"`
	Vars  map[string]any   `json:"vars"`
	Want  []map[string]any `json:"want"` // per directive, in document order (operations first, then fragments)
}

var c15SiteCases = []c15SiteCase{
	{`query Q($n: Int) { ...F @dir(n: $n) ...F @dir(n: 2) ...F @dir } fragment F on Query { g }`, map[string]any{"n": 5},
		[]map[string]any{{"n": 5, "d": 7}, {"n": 2, "d": 7}, {"d": 7}}},
	{`query Q($n: Int = 3) { q { ...F @dir(n: $n, d: 1) } ...F @dir(d: $n) } fragment F on Query { g @dir(n: 9) }`, map[string]any{},
		[]map[string]any{{"n": 3, "d": 1}, {"d": 3}, {"n": 9, "d": 7}}},
	{`{ ... @defer { g } ... @defer(label: "x") { g } ...F @defer(if: true) } fragment F on Query { g }`, map[string]any{},
		[]map[string]any{{"if": false, "label": "main"}, {"if": false, "label": "x"}, {"if": true, "label": "main"}}},
	{`{ g @include ... @include(if: true) { g } }`, map[string]any{},
		[]map[string]any{{"if": false, "why": "w"}, {"if": true, "why": "w"}}},
	{`query Q($c: Boolean!) { ...F @include(if: $c) @dir ...F @include(if: $c, why: "again") @dir(n: 1) @dir(n: 2) } fragment F on Query { g }`, map[string]any{"c": true},
		[]map[string]any{{"if": true, "why": "w"}, {"d": 7}, {"if": true, "why": "again"}, {"n": 1, "d": 7}, {"n": 2, "d": 7}}},
}

func c15DirectivesInOrder(doc *ast.QueryDocument) []*ast.Directive {
	var out []*ast.Directive
	var sel func(ss ast.SelectionSet)
	sel = func(ss ast.SelectionSet) {
		for _, x := range ss {
			switch n := x.(type) {
			case *ast.Field:
				out = append(out, n.Directives...)
				sel(n.SelectionSet)
			case *ast.FragmentSpread:
				out = append(out, n.Directives...)
			case *ast.InlineFragment:
				out = append(out, n.Directives...)
				sel(n.SelectionSet)
			}
		}
	}
	for _, op := range doc.Operations {
		out = append(out, op.Directives...)
		sel(op.SelectionSet)
	}
	for _, f := range doc.Fragments {
		out = append(out, f.Directives...)
		sel(f.SelectionSet)
	}
	return out
}

func c15SiteRun(c *explore.Ctx, s *explore.SubStats, schema *ast.Schema, cs c15SiteCase) {
	rendered := cs.Query + "   variables=" + goRepr(cs.Vars)
	explore.Crumb(s.Name, rendered)
	s.Executions++
	bad := func(key, detail, exp, obs string) {
		c.Report(s, explore.Violation{Key: key, Input: explore.J(cs), Rendered: rendered, Detail: detail, Expected: exp, Observed: obs})
	}
	doc, errs := gqlparser.LoadQuery(schema, cs.Query)
	if errs != nil {
		s.Skipped++
		s.Outcome("invalid-document: " + errs[0].Message)
		return
	}
	coerced, cerr := validator.VariableValues(schema, doc.Operations[0], cs.Vars)
	if cerr != nil {
		s.Skipped++
		s.Outcome("coercion-refused")
		return
	}
	s.Validated++
	ds := c15DirectivesInOrder(doc)
	if len(ds) != len(cs.Want) {
		bad("args/directive-count", fmt.Sprintf("the document has %d directives, the case lists %d", len(ds), len(cs.Want)), "", "")
		return
	}
	for i, d := range ds {
		var got map[string]any
		r := guarded(0, 0, func() { got = d.ArgumentMap(coerced) })
		s.Transitions++
		if r.Panicked {
			bad("args/panic directive-site site="+r.Site, fmt.Sprintf("ArgumentMap of directive %d (@%s) panicked on a validated document: %s", i, d.Name, r.PanicVal), goRepr(cs.Want[i]), "")
			continue
		}
		if !reflect.DeepEqual(normNum(normAny(got)), normNum(normAny(cs.Want[i]))) {
			bad("args/value directive-site @"+d.Name, fmt.Sprintf("directive %d (@%s)", i, d.Name), goRepr(cs.Want[i]), goRepr(got))
		}
	}
	s.Nontrivial++
	s.Outcome("ok")
	s.Sample(func() any { return rendered })
}

func init() {
	prev := registry["C15"].Run
	registry["C15"].Run = func(c *explore.Ctx) {
		prev(c)
		s := c.Sub("directive-sites", fmt.Sprintf("%d documents with several directives each, and the product {field, first / second / third (nested) spread of one fragment, inline fragment, inline fragment inside a fragment} × {@dir, @defer, @include — the latter two declared by the schema itself with other defaults and an extra argument} × {argument omitted, literal, variable with default, variable supplied, variable without value}", len(c15SiteCases)),
			"ArgumentMap of every directive of the document returns normally and equals literal > variable > the default of the schema's own declaration", "cases that validate and coerce")
		if s == nil || c.Shard != 0 {
			return
		}
		schema, err := gqlparser.LoadSchema(&ast.Source{Name: "c15s.graphql", Input: c15SiteSDL})
		if err != nil {
			panic(err)
		}
		for _, cs := range c15SiteCases {
			s.States++
			c15SiteRun(c, s, schema, cs)
		}
		// the product: site × directive × source of its first argument
		type dirSpec struct {
			name, arg, argType, lit string
			litVal                  any
			defaults                map[string]any
			onField                 bool
		}
		dirs := []dirSpec{
			{"dir", "n", "Int", "4", 4, map[string]any{"d": 7}, true},
			{"defer", "label", "String", `"L"`, "L", map[string]any{"if": false, "label": "main"}, false},
			{"include", "why", "String", `"y"`, "y", map[string]any{"if": false, "why": "w"}, true},
		}
		sites := []struct{ name, tmpl string }{
			{"field", `{ g § }`},
			{"first-spread", `{ ...F § ...F } fragment F on Query { g }`},
			{"second-spread", `{ ...F ...F § } fragment F on Query { g }`},
			{"third-spread-nested", `{ ...F q { ...F q { ...F § } } } fragment F on Query { g }`},
			{"inline", `{ ... § { g } }`},
			{"inline-in-fragment", `{ ...F } fragment F on Query { ... on Query § { g } }`},
			{"fragment-definition", `{ ...F } fragment F on Query § { g }`},
			{"fragment-definition-nested", `{ q { ...F } } fragment F on Query { q { ...G } } fragment G on Query § { g }`},
			{"operation", `§ { g }`},
		}
		for _, site := range sites {
			for _, d := range dirs {
				if site.name == "field" && !d.onField {
					continue
				}
				for _, src := range []string{"omitted", "literal", "variable-default", "variable-supplied", "variable-absent"} {
					want := map[string]any{}
					for k, v := range d.defaults {
						want[k] = v
					}
					head, use, vars := "query Q ", "@"+d.name, map[string]any{}
					switch src {
					case "literal":
						use += "(" + d.arg + ": " + d.lit + ")"
						want[d.arg] = d.litVal
					case "variable-default":
						head = "query Q($v: " + d.argType + " = " + d.lit + ") "
						use += "(" + d.arg + ": $v)"
						want[d.arg] = d.litVal
					case "variable-supplied":
						head = "query Q($v: " + d.argType + ") "
						use += "(" + d.arg + ": $v)"
						vars["v"] = d.litVal
						want[d.arg] = d.litVal
					case "variable-absent":
						head = "query Q($v: " + d.argType + ") "
						use += "(" + d.arg + ": $v)" // no value at all: the argument's default, if any
					}
					q := head + strings.Replace(site.tmpl, "§", use, 1)
					if strings.HasPrefix(site.tmpl, "§") {
						q = strings.TrimSpace(head) + " " + use + strings.TrimPrefix(site.tmpl, "§")
					}
					s.States++
					c15SiteRun(c, s, schema, c15SiteCase{Query: q, Vars: vars, Want: []map[string]any{want}})
				}
			}
		}
	}
}

// schema-versions: one parsed document validated against one version of a schema and then
// against another (a reload with other argument defaults, an argument added, a default removed):
// argument resolution follows the schema last validated against.
const c15V1 = `directive @page(size: Int = 10, lang: String = "en") on FIELD
type Query { list(first: Int = 10, order: String = "ASC", lang: String = "en"): Int g: Int }
`
const c15V2 = `directive @page(size: Int = 25, after: String = "start", lang: String) on FIELD
type Query { list(first: Int = 25, order: String = "DESC", after: String = "start", lang: String): Int g: Int }
`

func init() {
	prev := registry["C15"].Run
	registry["C15"].Run = func(c *explore.Ctx) {
		prev(c)
		s := c.Sub("schema-versions", "4 documents (arguments omitted, literal, variable, in a fragment) validated against schema version 1 then 2, and 2 then 1; field and directive argument maps after each validation", "ArgumentMap uses the argument definitions and defaults of the schema the document was last validated against", "every validation")
		if s == nil || c.Shard != 0 {
			return
		}
		v1, err1 := gqlparser.LoadSchema(&ast.Source{Name: "v1.graphql", Input: c15V1})
		v2, err2 := gqlparser.LoadSchema(&ast.Source{Name: "v2.graphql", Input: c15V2})
		if err1 != nil || err2 != nil {
			panic(fmt.Sprint(err1, err2))
		}
		want := map[*ast.Schema][2]map[string]any{
			v1: {{"first": 10, "order": "ASC", "lang": "en"}, {"size": 10, "lang": "en"}},
			v2: {{"first": 25, "order": "DESC", "after": "start"}, {"size": 25, "after": "start"}},
		}
		docs := []string{
			`{ list @page }`,
			`{ ...F } fragment F on Query { list @page }`,
			`query Q($o: String) { list(order: $o) @page(lang: $o) }`,
			`{ a: list b: list @page g @page }`,
		}
		for _, q := range docs {
			for _, order := range [][]*ast.Schema{{v1, v2}, {v2, v1}, {v1, v2, v1}} {
				doc, perr := parser.ParseQuery(&ast.Source{Name: "q.graphql", Input: q})
				if perr != nil {
					panic(perr)
				}
				s.States++
				for step, sch := range order {
					s.Executions++
					if errs := validator.Validate(sch, doc); len(errs) > 0 {
						s.Skipped++
						continue
					}
					s.Validated++
					var fields []*ast.Field
					var collect func(ss ast.SelectionSet)
					collect = func(ss ast.SelectionSet) {
						for _, x := range ss {
							if f, ok := x.(*ast.Field); ok {
								fields = append(fields, f)
								collect(f.SelectionSet)
							}
						}
					}
					collect(doc.Operations[0].SelectionSet)
					for _, fr := range doc.Fragments {
						collect(fr.SelectionSet)
					}
					for _, f := range fields {
						check := func(what string, got, w map[string]any, hasVar bool) {
							exp := map[string]any{}
							for k, v := range w {
								exp[k] = v
							}
							s.Transitions++
							_ = hasVar
							if !reflect.DeepEqual(normNum(normAny(got)), normNum(normAny(exp))) {
								c.Report(s, explore.Violation{Key: "args/value schema-versions " + what, Input: explore.J(map[string]any{"query": q, "step": step}), Rendered: fmt.Sprintf("%s   validated against version %s (validation %d of this document)", q, sch.Types["Query"].Position.Src.Name, step+1),
									Detail: what + " of " + f.Alias + ": the argument map does not follow the schema validated against last", Expected: goRepr(exp), Observed: goRepr(got)})
							}
						}
						if f.Name == "list" && len(f.Arguments) == 0 {
							var got map[string]any
							if r := guarded(0, 0, func() { got = f.ArgumentMap(map[string]any{}) }); !r.Panicked {
								check("field", got, want[sch][0], false)
							}
						}
						for _, d := range f.Directives {
							if len(d.Arguments) == 0 {
								var got map[string]any
								if r := guarded(0, 0, func() { got = d.ArgumentMap(map[string]any{}) }); !r.Panicked {
									check("directive", got, want[sch][1], false)
								}
							}
						}
					}
				}
				s.Nontrivial++
			}
		}
	}
}

// abstract-scope: a field selected inside a type condition takes its definition (argument list
// and defaults) from the type the condition names, also when that is an interface inside an
// implementing object whose own field declares other defaults.
const c15ScopeSDL = `interface Paged { items(first: Int = 10): Int }
interface Sorted implements Paged { items(first: Int = 11, by: String = "k"): Int }
type Shelf implements Paged & Sorted { items(first: Int = 25, by: String = "name", reverse: Boolean = false): Int self: Shelf }
union Any = Shelf
type Query { shelf: Shelf paged: Paged sorted: Sorted any: Any }
`

func init() {
	prev := registry["C15"].Run
	registry["C15"].Run = func(c *explore.Ctx) {
		prev(c)
		s := c.Sub("abstract-scope", "an interface, an interface implementing it and an object implementing both, each declaring other defaults and arguments for one field; the field selected under every (enclosing type, type condition) combination through inline fragments and named fragments, nested twice", "ArgumentMap applies the defaults of the field definition of the type the innermost type condition names", "every document")
		if s == nil || c.Shard != 0 {
			return
		}
		schema, err := gqlparser.LoadSchema(&ast.Source{Name: "scope.graphql", Input: c15ScopeSDL})
		if err != nil {
			panic(err)
		}
		want := map[string]map[string]any{
			"Paged":  {"first": 10},
			"Sorted": {"first": 11, "by": "k"},
			"Shelf":  {"first": 25, "by": "name", "reverse": false},
		}
		roots := map[string]string{"shelf": "Shelf", "paged": "Paged", "sorted": "Sorted", "any": "Any"}
		conds := []string{"", "Paged", "Sorted", "Shelf"}
		for root, rootType := range roots {
			for _, c1 := range conds {
				for _, c2 := range conds {
					for _, named := range []bool{false, true} {
						scope := rootType
						open1, close1 := "", ""
						if c1 != "" {
							open1, close1, scope = "... on "+c1+" { ", " }", c1
						}
						inner := "items"
						if c2 != "" {
							inner, scope = "... on "+c2+" { items }", c2
						}
						q := "{ " + root + " { " + open1 + inner + close1 + " } }"
						if named && c2 != "" {
							q = "{ " + root + " { " + open1 + "...F" + close1 + " } } fragment F on " + c2 + " { items }"
						}
						if scope == "Any" {
							continue // a union has no fields
						}
						doc, errs := gqlparser.LoadQuery(schema, q)
						s.Executions++
						if errs != nil {
							s.Skipped++
							continue
						}
						s.States++
						s.Validated++
						var items []*ast.Field
						var collect func(ss ast.SelectionSet)
						collect = func(ss ast.SelectionSet) {
							for _, x := range ss {
								switch n := x.(type) {
								case *ast.Field:
									if n.Name == "items" {
										items = append(items, n)
									}
									collect(n.SelectionSet)
								case *ast.InlineFragment:
									collect(n.SelectionSet)
								}
							}
						}
						collect(doc.Operations[0].SelectionSet)
						for _, fr := range doc.Fragments {
							collect(fr.SelectionSet)
						}
						for _, f := range items {
							var got map[string]any
							r := guarded(0, 0, func() { got = f.ArgumentMap(map[string]any{}) })
							s.Transitions++
							if r.Panicked {
								c.Report(s, explore.Violation{Key: "args/panic abstract-scope", Input: explore.J(q), Rendered: q, Detail: r.PanicVal})
								continue
							}
							if !reflect.DeepEqual(normNum(normAny(got)), normNum(normAny(want[scope]))) {
								c.Report(s, explore.Violation{Key: "args/value abstract-scope enclosing=" + rootType + " condition=" + scope, Input: explore.J(q), Rendered: q,
									Detail: "items is selected on " + scope + ": its omitted arguments take the defaults of " + scope + ".items", Expected: goRepr(want[scope]), Observed: goRepr(got)})
							}
						}
						s.Nontrivial++
					}
				}
			}
		}
	}
}
