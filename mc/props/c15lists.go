package props

import (
	"encoding/json"
	"fmt"
	"reflect"

	"github.com/vektah/gqlparser/v2"
	"github.com/vektah/gqlparser/v2/ast"
	"github.com/vektah/gqlparser/v2/validator"

	"verif/mc/explore"
)

// list-depth: a variable of type [[[Int]]] feeding a field and a directive argument of that
// type. Input coercion wraps a value that is not a list into a list of one at every level, so
// the value the argument gets is fully determined by the literal / JSON written.

const c15ListSDL = `directive @dir(ll: [[[Int]]]) on FIELD
type Query { f(ll: [[[Int]]], l2: [[Int]] = [[5]]): Int g: Int }
`

type c15ListCase struct {
	Default  string `json:"default"`  // literal text, "" = none
	Supplied string `json:"supplied"` // JSON text, "" = absent
}

// c15ListValues: literal text (also valid JSON) → the Go value written.
var c15ListValues = []string{"[[[1]]]", "[[1, 2], [[3]]]", "[1]", "7", "[[1], 2]", "[]", "[[]]", "null", "[null, [null, [null]]]", "[[[1, 2], 3], 4]", "[[1, null]]"}

// coerceToDepth: list input coercion of the specification (§3.11 result coercion table) for a
// nullable-everywhere list type of the given depth.
func coerceToDepth(v any, depth int) any {
	if v == nil || depth == 0 {
		return v
	}
	if xs, ok := v.([]any); ok {
		out := make([]any, len(xs))
		for i, x := range xs {
			out[i] = coerceToDepth(x, depth-1)
		}
		return out
	}
	return []any{coerceToDepth(v, depth-1)}
}

func parseJSONValue(s string) any {
	var v any
	if err := json.Unmarshal([]byte(s), &v); err != nil {
		panic(err)
	}
	return v
}

func c15ListRun(c *explore.Ctx, s *explore.SubStats, schema *ast.Schema, cs c15ListCase) {
	decl := "$v: [[[Int]]]"
	if cs.Default != "" {
		decl += " = " + cs.Default
	}
	q := "query Q(" + decl + ") { f(ll: $v) g @dir(ll: $v) }"
	raw := map[string]any{}
	if cs.Supplied != "" {
		raw["v"] = parseJSONValue(cs.Supplied)
	}
	rendered := q + "   variables=" + goRepr(raw)
	explore.Crumb(s.Name, rendered)
	s.Executions++
	bad := func(key, detail, exp, obs string) {
		c.Report(s, explore.Violation{Key: key, Input: explore.J(cs), Rendered: rendered, Detail: detail, Expected: exp, Observed: obs})
	}
	doc, errs := gqlparser.LoadQuery(schema, q)
	if errs != nil {
		s.Skipped++
		s.Outcome("invalid-document")
		return
	}
	var coerced map[string]any
	var cerr error
	r := guarded(0, 0, func() { coerced, cerr = validator.VariableValues(schema, doc.Operations[0], raw) })
	if r.Panicked || cerr != nil {
		s.Skipped++
		s.Outcome("coercion-refused")
		return
	}
	s.Validated++
	// expectation from the case alone
	var want any
	has := false
	switch {
	case cs.Supplied != "":
		want, has = coerceToDepth(parseJSONValue(cs.Supplied), 3), true
	case cs.Default != "":
		want, has = coerceToDepth(parseJSONValue(cs.Default), 3), true
	}
	wantMap := map[string]any{}
	if has {
		wantMap["ll"] = want
	}
	f := doc.Operations[0].SelectionSet[0].(*ast.Field)
	g := doc.Operations[0].SelectionSet[1].(*ast.Field)
	for _, site := range []struct {
		name  string
		get   func() map[string]any
		extra map[string]any
	}{
		{"field", func() map[string]any { return f.ArgumentMap(coerced) }, map[string]any{"l2": []any{[]any{int64(5)}}}},
		{"directive", func() map[string]any { return g.Directives[0].ArgumentMap(coerced) }, nil},
	} {
		var got map[string]any
		r := guarded(0, 0, func() { got = site.get() })
		s.Transitions++
		if r.Panicked {
			bad("args/panic list-depth site="+r.Site, "ArgumentMap panicked: "+r.PanicVal, "", "")
			continue
		}
		w := map[string]any{}
		for k, v := range wantMap {
			w[k] = v
		}
		for k, v := range site.extra {
			w[k] = v
		}
		if !reflect.DeepEqual(normNum(normAny(got)), normNum(normAny(w))) {
			src := "default"
			if cs.Supplied != "" {
				src = "supplied"
			}
			bad("args/value list-depth "+site.name+" src="+src, fmt.Sprintf("a [[[Int]]] variable written as %s / supplied as %s must reach the argument coerced to depth 3", cs.Default, cs.Supplied), goRepr(w), goRepr(got))
		}
	}
	s.Nontrivial++
	s.Outcome("ok")
	s.Sample(func() any { return rendered })
}

func init() {
	prev := registry["C15"].Run
	registry["C15"].Run = func(c *explore.Ctx) {
		prev(c)
		s := c.Sub("list-depth", fmt.Sprintf("a [[[Int]]] variable feeding a field and a directive argument: every default literal of %d (none included) × every supplied JSON value of %d (absent included)", len(c15ListValues)+1, len(c15ListValues)+1),
			"ArgumentMap gives the argument the supplied value, else the default, coerced to list depth 3 (a non-list value becomes a list of one at every level); an argument default that is omitted is applied", "cases that validate and coerce")
		if s == nil {
			return
		}
		schema, err := gqlparser.LoadSchema(&ast.Source{Name: "c15l.graphql", Input: c15ListSDL})
		if err != nil {
			panic(err)
		}
		idx := 0
		for _, d := range append([]string{""}, c15ListValues...) {
			for _, sup := range append([]string{""}, c15ListValues...) {
				idx++
				if idx%c.NShards != c.Shard {
					continue
				}
				s.States++
				c15ListRun(c, s, schema, c15ListCase{d, sup})
			}
		}
	}
}
