// Package refschema is the reference semantics of the type-system rules named by
// property C07, over a merged view of all definitions and extensions of a parsed
// (not loaded) schema document. It only reads syntactic fields of the parsed document
// (names, kinds, type references, lists of members); it builds its own tables and never
// consults the library's loader.
//
// Rules (DESIGN.md Appendix A.2): unique type / directive / field names; every referenced
// type, interface, union member, directive and root exists with the right kind; output
// positions hold output types and input positions input types; implementers provide every
// interface field covariantly with every interface argument at the identical type, no
// additional required arguments, and the transitive interfaces; no empty object, interface,
// input or enum; no user-defined name starting with "__"; directives only where declared
// and with their required arguments; plus three loader rules (an extension has the kind of
// its base, at most one schema definition, enum values are not true/false/null).
package refschema

import (
	"fmt"
	"sort"
	"strings"

	"github.com/vektah/gqlparser/v2/ast"
)

type Broken struct {
	Rule     string
	Detail   string
	Involved []string // names of the top-level definitions involved ("type:Pet", "directive:tag", "schema")
}

type TypeInfo struct {
	Kind       ast.DefinitionKind
	Name       string
	BuiltIn    bool
	Fields     []*ast.FieldDefinition
	Interfaces []string
	Members    []string
	Values     []*ast.EnumValueDefinition
	Directives []*ast.Directive
	Defined    bool // has a (non-extension) definition
}

type Model struct {
	Types      map[string]*TypeInfo
	TypeOrder  []string
	Directives map[string]*ast.DirectiveDefinition
	Roots      map[ast.Operation]string // explicit (schema / extend schema)
	HasSchema  bool
	// RootAmbiguous: operations given a root more than once
	RootAmbiguous map[ast.Operation]bool
	Broken        []Broken
}

func (m *Model) Valid() bool { return len(m.Broken) == 0 }

func (m *Model) Rules() []string {
	var out []string
	seen := map[string]bool{}
	for _, b := range m.Broken {
		if !seen[b.Rule] {
			seen[b.Rule] = true
			out = append(out, b.Rule)
		}
	}
	sort.Strings(out)
	return out
}

func (m *Model) bad(rule, detail string, involved ...string) {
	m.Broken = append(m.Broken, Broken{rule, detail, involved})
}

var builtinDirectives = map[string]bool{"include": true, "skip": true, "deprecated": true, "specifiedBy": true, "defer": true, "oneOf": true}

// Build merges the document and evaluates every rule.
func Build(doc *ast.SchemaDocument) *Model {
	m := &Model{Types: map[string]*TypeInfo{}, Directives: map[string]*ast.DirectiveDefinition{}, Roots: map[ast.Operation]string{}}
	tkey := func(n string) string { return "type:" + n }
	// definitions
	for _, d := range doc.Definitions {
		if old, dup := m.Types[d.Name]; dup && old.Defined {
			m.bad("unique-type-names", "type "+d.Name+" is defined more than once", tkey(d.Name))
			continue
		}
		m.Types[d.Name] = &TypeInfo{Kind: d.Kind, Name: d.Name, BuiltIn: d.BuiltIn, Fields: append([]*ast.FieldDefinition{}, d.Fields...), Interfaces: append([]string{}, d.Interfaces...),
			Members: append([]string{}, d.Types...), Values: append([]*ast.EnumValueDefinition{}, d.EnumValues...), Directives: append([]*ast.Directive{}, d.Directives...), Defined: true}
		m.TypeOrder = append(m.TypeOrder, d.Name)
	}
	for _, e := range doc.Extensions {
		t := m.Types[e.Name]
		if t == nil {
			// an extension of an undefined type creates the base (the library's documented behaviour)
			t = &TypeInfo{Kind: e.Kind, Name: e.Name, BuiltIn: false}
			m.Types[e.Name] = t
			m.TypeOrder = append(m.TypeOrder, e.Name)
		}
		if t.Kind != e.Kind {
			m.bad("extension-kind", fmt.Sprintf("extend %s %s but the type is a %s", e.Kind, e.Name, t.Kind), tkey(e.Name))
			continue
		}
		t.Fields = append(t.Fields, e.Fields...)
		t.Interfaces = append(t.Interfaces, e.Interfaces...)
		t.Members = append(t.Members, e.Types...)
		t.Values = append(t.Values, e.EnumValues...)
		t.Directives = append(t.Directives, e.Directives...)
	}
	for _, d := range doc.Directives {
		if old := m.Directives[d.Name]; old != nil {
			if builtinDirectives[d.Name] {
				// a built-in directive may be declared again; the document's own declaration
				// then replaces the prelude's (the library's behaviour: the last one wins) and is
				// checked like any other definition
				m.Directives[d.Name] = d
				continue
			}
			m.bad("unique-directive-names", "directive @"+d.Name+" is defined more than once", "directive:"+d.Name)
			continue
		}
		m.Directives[d.Name] = d
	}
	if len(doc.Schema) > 1 {
		m.bad("single-schema-definition", "more than one schema definition", "schema")
	}
	for i, s := range doc.Schema {
		if i > 0 {
			break
		}
		m.HasSchema = true
		for _, o := range s.OperationTypes {
			m.root(o)
		}
		m.dirs(s.Directives, ast.LocationSchema, "schema")
	}
	for _, s := range doc.SchemaExtension {
		for _, o := range s.OperationTypes {
			m.root(o)
		}
		m.dirs(s.Directives, ast.LocationSchema, "schema")
	}
	names := append([]string{}, m.TypeOrder...)
	sort.Strings(names)
	for _, n := range names {
		m.checkType(m.Types[n])
	}
	var dnames []string
	for n := range m.Directives {
		dnames = append(dnames, n)
	}
	sort.Strings(dnames)
	for _, n := range dnames {
		d := m.Directives[n]
		self := "directive:" + n
		if strings.HasPrefix(n, "__") {
			m.bad("reserved-name", "directive @"+n, self)
		}
		m.args(d.Arguments, self, n)
	}
	// root operation types are object types (spec 3.3.1), whether named explicitly or taken by default name
	for _, op := range []ast.Operation{ast.Query, ast.Mutation, ast.Subscription} {
		if n := m.Root(op); n != "" {
			if t := m.Types[n]; t != nil && t.Kind != ast.Object {
				m.bad("root-kind", fmt.Sprintf("root %s is the %s %s, not an object type", op, t.Kind, n), "schema", "type:"+n)
			}
		}
	}
	return m
}

// root records one root operation type definition; every one of them must name an
// existing type. An operation given more than once has no root implied by the definitions
// (the specification forbids it, the property does not list it): RootAmbiguous.
func (m *Model) root(o *ast.OperationTypeDefinition) {
	if m.Types[o.Type] == nil {
		m.bad("root-exists", fmt.Sprintf("root %s refers to the undefined type %s", o.Operation, o.Type), "schema", "type:"+o.Type)
	}
	if _, dup := m.Roots[o.Operation]; dup {
		if m.RootAmbiguous == nil {
			m.RootAmbiguous = map[ast.Operation]bool{}
		}
		m.RootAmbiguous[o.Operation] = true
	}
	m.Roots[o.Operation] = o.Type
}

func isOutput(k ast.DefinitionKind) bool {
	return k == ast.Scalar || k == ast.Object || k == ast.Interface || k == ast.Union || k == ast.Enum
}
func isInput(k ast.DefinitionKind) bool {
	return k == ast.Scalar || k == ast.Enum || k == ast.InputObject
}

func (m *Model) dirs(ds []*ast.Directive, loc ast.DirectiveLocation, owner string) {
	for _, d := range ds {
		def := m.Directives[d.Name]
		if def == nil {
			m.bad("directive-defined", "directive @"+d.Name+" is not defined", owner, "directive:"+d.Name)
			continue
		}
		ok := false
		for _, l := range def.Locations {
			if l == loc {
				ok = true
			}
		}
		if !ok {
			m.bad("directive-location", fmt.Sprintf("directive @%s is not declared for %s", d.Name, loc), owner, "directive:"+d.Name)
		}
		for _, a := range def.Arguments {
			if a.Type.NonNull && a.DefaultValue == nil {
				given := d.Arguments.ForName(a.Name)
				if given == nil || given.Value == nil || given.Value.Kind == ast.NullValue {
					m.bad("directive-required-argument", fmt.Sprintf("directive @%s needs argument %s", d.Name, a.Name), owner, "directive:"+d.Name)
				}
			}
		}
	}
}

func (m *Model) args(as ast.ArgumentDefinitionList, owner string, ofDirective string) {
	for _, a := range as {
		if strings.HasPrefix(a.Name, "__") {
			m.bad("reserved-name", "argument "+a.Name, owner)
		}
		t := m.Types[a.Type.Name()]
		if t == nil {
			m.bad("type-exists", "argument "+a.Name+" has the undefined type "+a.Type.Name(), owner, "type:"+a.Type.Name())
		} else if !isInput(t.Kind) {
			m.bad("input-position", fmt.Sprintf("argument %s has the non-input type %s (%s)", a.Name, t.Name, t.Kind), owner, "type:"+t.Name)
		}
		m.dirs(a.Directives, ast.LocationArgumentDefinition, owner)
	}
}

func (m *Model) checkType(t *TypeInfo) {
	self := "type:" + t.Name
	if !t.BuiltIn && strings.HasPrefix(t.Name, "__") {
		m.bad("reserved-name", "type "+t.Name, self)
	}
	m.dirs(t.Directives, ast.DirectiveLocation(t.Kind), self)
	seen := map[string]bool{}
	for _, f := range t.Fields {
		if seen[f.Name] {
			m.bad("unique-field-names", "field "+t.Name+"."+f.Name+" is defined more than once", self)
		}
		seen[f.Name] = true
		if strings.HasPrefix(f.Name, "__") {
			m.bad("reserved-name", "field "+t.Name+"."+f.Name, self)
		}
		ft := m.Types[f.Type.Name()]
		switch {
		case ft == nil:
			m.bad("type-exists", "field "+t.Name+"."+f.Name+" has the undefined type "+f.Type.Name(), self, "type:"+f.Type.Name())
		case t.Kind == ast.InputObject && !isInput(ft.Kind):
			m.bad("input-position", fmt.Sprintf("input field %s.%s has the non-input type %s (%s)", t.Name, f.Name, ft.Name, ft.Kind), self, "type:"+ft.Name)
		case (t.Kind == ast.Object || t.Kind == ast.Interface) && !isOutput(ft.Kind):
			m.bad("output-position", fmt.Sprintf("field %s.%s has the non-output type %s (%s)", t.Name, f.Name, ft.Name, ft.Kind), self, "type:"+ft.Name)
		}
		m.args(f.Arguments, self, "")
		loc := ast.LocationFieldDefinition
		if t.Kind == ast.InputObject {
			loc = ast.LocationInputFieldDefinition
		}
		m.dirs(f.Directives, loc, self)
	}
	switch t.Kind {
	case ast.Object, ast.Interface, ast.InputObject:
		if len(t.Fields) == 0 {
			m.bad("non-empty", fmt.Sprintf("%s %s has no fields", t.Kind, t.Name), self)
		}
	case ast.Enum:
		if len(t.Values) == 0 {
			m.bad("non-empty", "enum "+t.Name+" has no values", self)
		}
		for _, v := range t.Values {
			if v.Name == "true" || v.Name == "false" || v.Name == "null" {
				m.bad("enum-value-name", "enum value "+v.Name, self)
			}
			m.dirs(v.Directives, ast.LocationEnumValue, self)
		}
	}
	for _, mem := range t.Members {
		mt := m.Types[mem]
		switch {
		case mt == nil:
			m.bad("union-member-exists", "union "+t.Name+" has the undefined member "+mem, self, "type:"+mem)
		case mt.Kind != ast.Object:
			m.bad("union-member-object", fmt.Sprintf("union %s has the member %s which is a %s", t.Name, mem, mt.Kind), self, "type:"+mem)
		}
	}
	for _, in := range t.Interfaces {
		it := m.Types[in]
		switch {
		case it == nil:
			m.bad("interface-exists", t.Name+" implements the undefined "+in, self, "type:"+in)
			continue
		case it.Kind != ast.Interface:
			m.bad("interface-kind", fmt.Sprintf("%s implements %s which is a %s", t.Name, in, it.Kind), self, "type:"+in)
			continue
		}
		m.implements(t, it)
	}
}

func fieldNamed(fs []*ast.FieldDefinition, n string) *ast.FieldDefinition {
	for _, f := range fs {
		if f.Name == n {
			return f
		}
	}
	return nil
}

func (m *Model) implements(t, it *TypeInfo) {
	self, other := "type:"+t.Name, "type:"+it.Name
	for _, rf := range it.Fields {
		f := fieldNamed(t.Fields, rf.Name)
		if f == nil {
			m.bad("implements-field", fmt.Sprintf("%s lacks field %s of %s", t.Name, rf.Name, it.Name), self, other)
			continue
		}
		if !m.covariant(rf.Type, f.Type) {
			m.bad("implements-covariant", fmt.Sprintf("%s.%s: %s is not a subtype of %s required by %s", t.Name, f.Name, f.Type.String(), rf.Type.String(), it.Name), self, other)
		}
		for _, ra := range rf.Arguments {
			a := f.Arguments.ForName(ra.Name)
			if a == nil {
				m.bad("implements-argument", fmt.Sprintf("%s.%s lacks argument %s of %s", t.Name, f.Name, ra.Name, it.Name), self, other)
				continue
			}
			if a.Type.String() != ra.Type.String() {
				m.bad("implements-argument-type", fmt.Sprintf("%s.%s(%s: %s) must be %s as in %s", t.Name, f.Name, a.Name, a.Type.String(), ra.Type.String(), it.Name), self, other)
			}
		}
		for _, a := range f.Arguments {
			if rf.Arguments.ForName(a.Name) == nil && a.Type.NonNull && a.DefaultValue == nil {
				m.bad("implements-extra-required-argument", fmt.Sprintf("%s.%s has the additional required argument %s", t.Name, f.Name, a.Name), self, other)
			}
		}
	}
	for _, tr := range it.Interfaces {
		found := false
		for _, x := range t.Interfaces {
			if x == tr {
				found = true
			}
		}
		if !found {
			m.bad("implements-transitive", fmt.Sprintf("%s implements %s but not %s, which %s implements", t.Name, it.Name, tr, it.Name), self, other, "type:"+tr)
		}
	}
}

// covariant: IsValidImplementationFieldType of the specification.
func (m *Model) covariant(required, actual *ast.Type) bool {
	if actual.NonNull && !required.NonNull {
		// a non-null field type may implement a nullable one
		a := *actual
		a.NonNull = false
		return m.covariant(required, &a)
	}
	if required.NonNull != actual.NonNull {
		return false
	}
	if required.Elem != nil || actual.Elem != nil {
		if required.Elem == nil || actual.Elem == nil {
			return false
		}
		return m.covariant(required.Elem, actual.Elem)
	}
	if required.NamedType == actual.NamedType {
		return true
	}
	rt, at := m.Types[required.NamedType], m.Types[actual.NamedType]
	if rt == nil || at == nil {
		return false
	}
	switch rt.Kind {
	case ast.Union:
		for _, mem := range rt.Members {
			if mem == at.Name && at.Kind == ast.Object {
				return true
			}
		}
	case ast.Interface:
		if at.Kind == ast.Object || at.Kind == ast.Interface {
			for _, in := range at.Interfaces {
				if in == rt.Name {
					return true
				}
			}
		}
	}
	return false
}

// ---- expected relations and roots of a valid type system -----------------------------------

// PossibleTypes of an abstract or object type: union members; implementers (objects and
// interfaces) of an interface; the object itself.
func (m *Model) PossibleTypes(name string) []string {
	t := m.Types[name]
	if t == nil {
		return nil
	}
	set := map[string]bool{}
	switch t.Kind {
	case ast.Union:
		for _, x := range t.Members {
			set[x] = true
		}
	case ast.Interface:
		for _, o := range m.Types {
			for _, in := range o.Interfaces {
				if in == name {
					set[o.Name] = true
				}
			}
		}
	case ast.Object:
		set[name] = true
	}
	return sorted(set)
}

// Implements of a type: the interfaces it lists and the unions it is a member of.
func (m *Model) Implements(name string) []string {
	t := m.Types[name]
	if t == nil {
		return nil
	}
	set := map[string]bool{}
	for _, in := range t.Interfaces {
		set[in] = true
	}
	for _, u := range m.Types {
		if u.Kind == ast.Union {
			for _, x := range u.Members {
				if x == name {
					set[u.Name] = true
				}
			}
		}
	}
	return sorted(set)
}

// Root: the root operation type, explicit or (without a schema definition) by default name.
func (m *Model) Root(op ast.Operation) string {
	if n, ok := m.Roots[op]; ok {
		return n
	}
	if m.HasSchema {
		return ""
	}
	def := map[ast.Operation]string{ast.Query: "Query", ast.Mutation: "Mutation", ast.Subscription: "Subscription"}[op]
	if m.Types[def] != nil {
		return def
	}
	return ""
}

func sorted(set map[string]bool) []string {
	var out []string
	for k := range set {
		out = append(out, k)
	}
	sort.Strings(out)
	return out
}
