package props

import (
	"encoding/json"
	"fmt"
	"regexp"
	"sort"
	"strings"
	"time"

	gqlparser "github.com/vektah/gqlparser/v2"
	"github.com/vektah/gqlparser/v2/ast"
	"github.com/vektah/gqlparser/v2/parser"
	"github.com/vektah/gqlparser/v2/validator"

	"verif/mc/explore"
	"verif/mc/gen"
	"verif/mc/ref/refschema"
)

// C07: a loaded schema is closed and consistent; ill-formed type systems are rejected.

func init() {
	register(&Prop{ID: "C07", Run: runC07, Replay: func(c *explore.Ctx, s *explore.SubStats, v explore.Violation) {
		var in kitInput
		if json.Unmarshal(v.Input, &in) == nil {
			c07Case(c, s, in)
		}
	}, Assumptions: []string{
		"reference: ref/refschema evaluates exactly the rules the property lists (plus: an extension has the kind of its base, at most one schema definition, enum values are not true/false/null) over a merged view of the parsed document; it reads only syntactic fields of the parser's output (C06 decides that those are what was written)",
		"rules the specification has but the property does not list (unique enum values / argument names / union members, root types being objects, default-value typing, non-empty unions, unknown directive arguments, directive self-reference) are not demanded: the kit contains no item that would only break one of those",
		"built-ins demanded of every loaded schema: scalars Int Float String Boolean ID, directives include skip deprecated specifiedBy, introspection types __Schema __Type __Field __InputValue __EnumValue __Directive __TypeKind __DirectiveLocation, and __schema / __type on the query root",
		"possible-type entries of input objects are not judged (the library lists an input object as its own possible type; nothing in the property implies or forbids it)",
	}})
}

type kitInput struct {
	Items []int    `json:"items"`           // indices into gen.KitMenu
	Extra []string `json:"extra,omitempty"` // additional literal definitions (replays of other sub-checks)
}

func (k kitInput) defs() []string {
	out := append([]string{}, gen.KitBase...)
	for _, i := range k.Items {
		if i >= 0 && i < len(gen.KitMenu) {
			out = append(out, gen.KitMenu[i])
		}
	}
	return append(out, k.Extra...)
}

// schemaModel parses the sources afresh (with the prelude) and builds the reference model.
func schemaModel(srcs ...*ast.Source) (*refschema.Model, error) {
	all := append([]*ast.Source{validator.Prelude}, srcs...)
	doc, err := parser.ParseSchemas(all...)
	if err != nil {
		return nil, err
	}
	return refschema.Build(doc), nil
}

var quotedRe = regexp.MustCompile(`"[^"]*"`)
var identRe = regexp.MustCompile(`\b[A-Za-z_][A-Za-z0-9_]*\b`)

// msgTemplate: an error message with quoted parts, numbers and schema names normalised.
func msgTemplate(msg string, names map[string]bool) string {
	msg = quotedRe.ReplaceAllString(msg, "Q")
	msg = identRe.ReplaceAllStringFunc(msg, func(w string) string {
		if names[w] {
			return "N"
		}
		return w
	})
	return normMsg(msg)
}

func kitNames(m *refschema.Model) map[string]bool {
	names := map[string]bool{}
	for n, t := range m.Types {
		names[n] = true
		for _, f := range t.Fields {
			names[f.Name] = true
			for _, a := range f.Arguments {
				names[a.Name] = true
			}
		}
	}
	for n := range m.Directives {
		names[n] = true
	}
	for _, x := range []string{"Missing", "nope", "x", "a"} {
		names[x] = true
	}
	return names
}

func c07Case(c *explore.Ctx, s *explore.SubStats, in kitInput) {
	defs := in.defs()
	text := strings.Join(defs, "\n")
	explore.Crumb(s.Name, text)
	s.Executions++
	rendered := strings.Join(defs[len(gen.KitBase):], "\n")
	bad := func(key, detail, exp, obs string) {
		c.Report(s, explore.Violation{Key: key, Input: explore.J(in), Rendered: "base + " + rendered, Detail: detail, Expected: exp, Observed: obs})
	}
	model, perr := schemaModel(&ast.Source{Name: "kit.graphql", Input: text})
	if perr != nil {
		s.Skipped++
		s.Outcome("kit-does-not-parse")
		return
	}
	var sch *ast.Schema
	var err error
	r := guarded(2000000, 0, func() { sch, err = gqlparser.LoadSchema(&ast.Source{Name: "kit.graphql", Input: text}) })
	if r.Panicked {
		bad("panic site="+r.Site+" msg="+normMsg(r.PanicVal)+" rules="+strings.Join(model.Rules(), ","), "LoadSchema panicked: "+r.PanicVal+"\n"+trimStack(r.Stack), "", "")
		s.Outcome("panic")
		return
	}
	s.Validated++
	switch {
	case err == nil && !model.Valid():
		b := model.Broken[0]
		bad("load/false-accept rule="+strings.Join(model.Rules(), ","), "the type system breaks a rule but loads: "+b.Detail, "rejected: "+b.Rule, "loaded")
		s.Outcome("false-accept")
		return
	case err != nil && model.Valid():
		bad("load/false-reject msg="+msgTemplate(err.Error(), kitNames(model)), "the type system satisfies every listed rule but is rejected: "+err.Error(), "loads", err.Error())
		s.Outcome("false-reject")
		return
	case err != nil:
		s.Outcome("rejected " + strings.Join(model.Rules(), ","))
		return
	}
	if sch == nil {
		bad("load/nil-schema", "nil schema with nil error", "", "")
		return
	}
	s.Nontrivial++
	s.Outcome("loaded")
	for _, p := range schemaGraphProblems(sch, model) {
		bad("graph/"+p[0], p[1], "", "")
	}
	s.Sample(func() any { return in })
}

// schemaGraphProblems checks the closure and consistency of a loaded schema against the
// reference model: (class, detail) per problem.
func schemaGraphProblems(sch *ast.Schema, m *refschema.Model) [][2]string {
	var out [][2]string
	add := func(class, f string, a ...any) { out = append(out, [2]string{class, fmt.Sprintf(f, a...)}) }
	for _, n := range []string{"Int", "Float", "String", "Boolean", "ID"} {
		if d := sch.Types[n]; d == nil || d.Kind != ast.Scalar {
			add("builtin-scalar", "built-in scalar %s missing", n)
		}
	}
	for _, n := range []string{"__Schema", "__Type", "__Field", "__InputValue", "__EnumValue", "__Directive", "__TypeKind", "__DirectiveLocation"} {
		if sch.Types[n] == nil {
			add("builtin-introspection-type", "introspection type %s missing", n)
		}
	}
	for _, n := range []string{"include", "skip", "deprecated", "specifiedBy"} {
		if sch.Directives[n] == nil {
			add("builtin-directive", "built-in directive @%s missing", n)
		}
	}
	// roots
	rootName := func(d *ast.Definition) string {
		if d == nil {
			return ""
		}
		return d.Name
	}
	for _, r := range []struct {
		op  ast.Operation
		def *ast.Definition
	}{{ast.Query, sch.Query}, {ast.Mutation, sch.Mutation}, {ast.Subscription, sch.Subscription}} {
		if want := m.Root(r.op); rootName(r.def) != want && !m.RootAmbiguous[r.op] {
			add("root", "%s root is %q, the definitions imply %q", r.op, rootName(r.def), want)
		}
		if r.def != nil && sch.Types[r.def.Name] != r.def {
			add("root-identity", "%s root is not the definition stored under its name", r.op)
		}
	}
	if sch.Query != nil {
		if f := sch.Query.Fields.ForName("__schema"); f == nil || f.Type.String() != "__Schema!" {
			add("introspection-field", "query root lacks __schema: __Schema!")
		}
		if f := sch.Query.Fields.ForName("__type"); f == nil || f.Type.String() != "__Type" || f.Arguments.ForName("name") == nil || f.Arguments.ForName("name").Type.String() != "String!" {
			add("introspection-field", "query root lacks __type(name: String!): __Type")
		}
	}
	// the set of types is the model's
	for n := range m.Types {
		if sch.Types[n] == nil {
			add("type-missing", "type %s is defined but missing from the schema", n)
		}
	}
	for n, d := range sch.Types {
		if d == nil {
			add("nil-type", "Types[%s] is nil", n)
			continue
		}
		mt := m.Types[n]
		if mt == nil {
			add("type-extra", "schema has type %s which no definition declares", n)
			continue
		}
		if d.Name != n || d.Kind != mt.Kind {
			add("type-kind", "Types[%s] is %s %s, definitions say %s", n, d.Kind, d.Name, mt.Kind)
		}
		checkRef := func(t *ast.Type, where string) {
			if t == nil {
				add("nil-typeref", "%s has no type", where)
				return
			}
			if sch.Types[t.Name()] == nil {
				add("dangling-type", "%s refers to %s which is not in Types", where, t.Name())
			}
		}
		checkDirs := func(ds ast.DirectiveList, where string) {
			for _, x := range ds {
				if x.Definition == nil {
					add("directive-unlinked", "%s: use of @%s has no Definition", where, x.Name)
				} else if sch.Directives[x.Name] != x.Definition {
					add("directive-link", "%s: use of @%s is linked to a different definition", where, x.Name)
				}
			}
		}
		checkDirs(d.Directives, n)
		{
			var got, want []string
			for _, x := range d.Directives {
				got = append(got, x.Name)
			}
			for _, x := range mt.Directives {
				want = append(want, x.Name)
			}
			sort.Strings(got)
			sort.Strings(want)
			if strings.Join(got, ",") != strings.Join(want, ",") {
				add("type-directives", "%s carries directives [%s], its definition and extensions give [%s]", n, strings.Join(got, ","), strings.Join(want, ","))
			}
			var gv, wv []string
			for _, x := range d.EnumValues {
				gv = append(gv, x.Name)
			}
			for _, x := range mt.Values {
				wv = append(wv, x.Name)
			}
			sort.Strings(gv)
			sort.Strings(wv)
			if strings.Join(gv, ",") != strings.Join(wv, ",") {
				add("enum-values", "%s has values [%s], its definition and extensions give [%s]", n, strings.Join(gv, ","), strings.Join(wv, ","))
			}
		}
		// fields: names as a set equal the model's (introspection fields on the query root excepted)
		var got, want []string
		for _, f := range d.Fields {
			if f == nil {
				add("nil-field", "%s has a nil field", n)
				continue
			}
			if d == sch.Query && (f.Name == "__schema" || f.Name == "__type") {
				continue
			}
			got = append(got, f.Name)
			checkRef(f.Type, n+"."+f.Name)
			checkDirs(f.Directives, n+"."+f.Name)
			for _, a := range f.Arguments {
				checkRef(a.Type, n+"."+f.Name+"("+a.Name+")")
				checkDirs(a.Directives, n+"."+f.Name+"("+a.Name+")")
			}
		}
		for _, f := range mt.Fields {
			want = append(want, f.Name)
		}
		sort.Strings(got)
		sort.Strings(want)
		if strings.Join(got, ",") != strings.Join(want, ",") {
			add("fields", "%s has fields [%s], definitions and extensions give [%s]", n, strings.Join(got, ","), strings.Join(want, ","))
		}
		for _, v := range d.EnumValues {
			checkDirs(v.Directives, n+"."+v.Name)
		}
		for _, in := range d.Interfaces {
			if x := sch.Types[in]; x == nil || x.Kind != ast.Interface {
				add("interfaces-entry", "%s lists interface %s which is not an interface in Types", n, in)
			}
		}
		for _, u := range d.Types {
			if x := sch.Types[u]; x == nil || x.Kind != ast.Object {
				add("union-entry", "%s lists member %s which is not an object in Types", n, u)
			}
		}
		// relations
		names := func(ds []*ast.Definition, rel string) ([]string, bool) {
			set := map[string]bool{}
			ok := true
			for _, x := range ds {
				if x == nil {
					add("relation-nil", "%s[%s] contains nil", rel, n)
					ok = false
					continue
				}
				if sch.Types[x.Name] != x {
					add("relation-identity", "%s[%s] holds a %s that is not the definition in Types", rel, n, x.Name)
				}
				set[x.Name] = true
			}
			var out []string
			for k := range set {
				out = append(out, k)
			}
			sort.Strings(out)
			return out, ok
		}
		if d.Kind != ast.InputObject {
			if got, ok := names(sch.PossibleTypes[n], "PossibleTypes"); ok {
				if want := m.PossibleTypes(n); strings.Join(got, ",") != strings.Join(want, ",") {
					add("possible-types", "PossibleTypes[%s] = [%s], definitions imply [%s]", n, strings.Join(got, ","), strings.Join(want, ","))
				}
			}
		}
		if got, ok := names(sch.Implements[n], "Implements"); ok {
			if want := m.Implements(n); strings.Join(got, ",") != strings.Join(want, ",") {
				add("implements", "Implements[%s] = [%s], definitions imply [%s]", n, strings.Join(got, ","), strings.Join(want, ","))
			}
		}
	}
	for n := range sch.PossibleTypes {
		if sch.Types[n] == nil {
			add("possible-types-key", "PossibleTypes has the key %s which is not a type", n)
		}
	}
	for n := range sch.Implements {
		if sch.Types[n] == nil {
			add("implements-key", "Implements has the key %s which is not a type", n)
		}
	}
	for n, d := range sch.Directives {
		if d == nil {
			add("nil-directive", "Directives[%s] is nil", n)
			continue
		}
		for _, a := range d.Arguments {
			if a.Type == nil || sch.Types[a.Type.Name()] == nil {
				add("dangling-type", "directive @%s(%s) refers to a type not in Types", n, a.Name)
			}
		}
	}
	for n := range m.Directives {
		if sch.Directives[n] == nil {
			add("directive-missing", "directive @%s is defined but missing from the schema", n)
		}
	}
	for _, x := range sch.SchemaDirectives {
		if x.Definition == nil {
			add("directive-unlinked", "schema directive @%s has no Definition", x.Name)
		}
	}
	return out
}

func runC07(c *explore.Ctx) {
	// the sentences first: the kit sub-check of the thorough tier runs until the deadline
	sentSub := func() {
		// arbitrary (mostly ill-formed) type systems: every type-system sentence of the grammar
		n := c.Pick(5, 7)
		s := c.Sub("sentences", fmt.Sprintf("every sentence of ≤ %d tokens of the type-system grammar over the core alphabet, loaded on top of `type Query { q: Int }`", n),
			"as above (these are arbitrary, mostly ill-formed type systems)", "type systems that load")
		if s == nil {
			return
		}
		t0 := time.Now()
		ss := language(sdlSide, sdlSide.grammar(), "core", sdlSide.core, n, false)
		for i, se := range ss {
			if i%c.NShards != c.Shard {
				continue
			}
			if i&63 == 0 && c.Expired() {
				s.Cap("deadline")
				break
			}
			s.States++
			s.Transitions++
			c07Sentence(c, s, renderClasses(sdlSide.core, se.Classes, " "))
		}
		s.WallS = time.Since(t0).Seconds()
	}
	sentSub()
	// the caller's slice of sources: a load is judged on the sources handed in, whatever the slice's spare capacity,
	// and leaves the slice as it was, so that a second load of it — or of it with one more source — is judged alike
	if s := c.Sub("caller-slices", fmt.Sprintf("base + each of %d menu items cut into k = 1 … 7 sources, held in a slice with spare capacity 0 … 3: loaded, loaded again, and loaded once more after appending a further source", len(gen.KitMenu)),
		"every load returns what a load of a freshly built, exactly sized slice of the same sources returns (loads ⇔, same error text, same schema dump); the slice holds the same sources afterwards", "every case"); s != nil {
		t0 := time.Now()
		outcome := func(srcs []*ast.Source) string {
			var sch *ast.Schema
			var err error
			r := guarded(4000000, 0, func() { sch, err = gqlparser.LoadSchema(srcs...) })
			if r.Panicked {
				return "panic: " + r.PanicVal
			}
			if err != nil {
				return "error: " + err.Error()
			}
			return schemaDump(sch)
		}
		for it := -1; it < len(gen.KitMenu); it++ {
			if (it+1)%c.NShards != c.Shard {
				continue
			}
			defs := append([]string{}, gen.KitBase...)
			if it >= 0 {
				defs = append(defs, gen.KitMenu[it])
			}
			extra := "type ExtraModule { x: Int }"
			for k := 1; k <= 7; k++ {
				mk := func() []*ast.Source {
					var out []*ast.Source
					for j := 0; j < k; j++ {
						lo, hi := j*len(defs)/k, (j+1)*len(defs)/k
						out = append(out, &ast.Source{Name: fmt.Sprintf("m%d.graphql", j), Input: strings.Join(defs[lo:hi], "\n")})
					}
					return out
				}
				want := outcome(mk())
				want2 := outcome(append(mk(), &ast.Source{Name: "extra.graphql", Input: extra}))
				// one of the caller's sources flagged built-in (a legitimate option, e.g. for injected directives): the
				// type system loads as before and still holds the library's own built-ins
				for _, fi := range []int{0, k - 1} {
					fl := mk()
					fl[fi].BuiltIn = true
					var fsch *ast.Schema
					var ferr error
					fr := guarded(4000000, 0, func() { fsch, ferr = gqlparser.LoadSchema(fl...) })
					s.Transitions++
					fin := kitInput{Items: []int{it}}
					frend := fmt.Sprintf("%s\n(k=%d sources, source %d flagged built-in)", strings.Join(defs[len(gen.KitBase):], "\n"), k, fi)
					switch {
					case fr.Panicked:
						c.Report(s, explore.Violation{Key: "panic site=" + fr.Site + " msg=" + normMsg(fr.PanicVal), Input: explore.J(fin), Rendered: frend, Detail: "LoadSchema panicked with a source flagged built-in: " + fr.PanicVal})
					case ferr != nil && !strings.HasPrefix(want, "error"):
						// (the other direction is no defect: definitions of a built-in source may use reserved names)
						c.Report(s, explore.Violation{Key: "load/false-reject with-builtin-flagged-source", Input: explore.J(fin), Rendered: frend, Detail: "a type system that loads is rejected when one of its sources is flagged built-in", Expected: "loads", Observed: fmt.Sprint(ferr)})
					case ferr == nil && (fsch.Types["Int"] == nil || fsch.Types["__Schema"] == nil || fsch.Directives["skip"] == nil || fsch.Query == nil || fsch.Query.Fields.ForName("__schema") == nil):
						c.Report(s, explore.Violation{Key: "graph/builtins-missing with-builtin-flagged-source", Input: explore.J(fin), Rendered: frend, Detail: "a schema loaded from sources one of which is flagged built-in lacks the library's built-in scalars, directives, introspection types or root fields"})
					}
				}
				for spare := 0; spare <= 3; spare++ {
					s.States++
					s.Executions++
					orig := mk()
					held := make([]*ast.Source, len(orig), len(orig)+spare)
					copy(held, orig)
					got1 := outcome(held)
					got2 := outcome(held)
					same := len(held) == len(orig)
					for j := range orig {
						same = same && held[j] == orig[j]
					}
					grown := append(held, &ast.Source{Name: "extra.graphql", Input: extra})
					got3 := outcome(grown)
					s.Transitions += 3
					s.Validated++
					in := kitInput{Items: []int{it}}
					rendered := fmt.Sprintf("%s\n(k=%d sources, spare capacity %d)", strings.Join(defs[len(gen.KitBase):], "\n"), k, spare)
					switch {
					case !same:
						c.Report(s, explore.Violation{Key: "load/callers-slice-changed", Input: explore.J(in), Rendered: rendered, Detail: "after LoadSchema(slice...) the caller's slice holds other sources than before"})
					case got1 != want:
						c.Report(s, explore.Violation{Key: "load/depends-on-slice-capacity first-load", Input: explore.J(in), Rendered: rendered, Detail: "the first load of a slice with spare capacity differs from the load of an exactly sized slice", Expected: want, Observed: got1})
					case got2 != want:
						c.Report(s, explore.Violation{Key: "load/depends-on-earlier-load second-load", Input: explore.J(in), Rendered: rendered, Detail: "loading the same slice of sources a second time gives another result", Expected: want, Observed: got2})
					case got3 != want2:
						c.Report(s, explore.Violation{Key: "load/depends-on-earlier-load after-append", Input: explore.J(in), Rendered: rendered, Detail: "loading the slice after appending one more source differs from loading a fresh slice of the same sources", Expected: want2, Observed: got3})
					}
					if strings.HasPrefix(want, "error") {
						s.Outcome("rejected")
					} else {
						s.Outcome("loads")
						s.Nontrivial++
					}
				}
			}
		}
		s.WallS = time.Since(t0).Seconds()
	}
	kitSub := func() {
		k := c.Pick(3, 4)
		s := c.Sub("kit", fmt.Sprintf("every type system = base (%d definitions) + ≤ %d of %d menu items (good variants and one bad variant per rule: duplicate names, dangling references, wrong kinds in every position, interface field/argument/transitivity violations incl. list covariance at depth, empty bodies, reserved names, misplaced directives, missing required directive arguments, roots, extension kinds)", len(gen.KitBase), k, len(gen.KitMenu)),
			"LoadSchema succeeds ⇔ ref/refschema finds no broken rule; on success the schema graph is closed and consistent (built-ins, introspection fields, every type reference / interface / member / directive use resolves, fields = definitions ∪ extensions, PossibleTypes and Implements equal the relations implied by the definitions, roots)", "type systems that load")
		if s == nil {
			return
		}
		t0 := time.Now()
		idx := 0
		explore.Subsets(len(gen.KitMenu), k, func(items []int) {
			idx++
			if idx%c.NShards != c.Shard {
				return
			}
			if idx&255 == 0 && c.Expired() {
				s.Cap("deadline")
			}
			if !s.Exhaustive {
				return
			}
			s.States++
			s.Transitions++
			c07Case(c, s, kitInput{Items: append([]int{}, items...)})
		})
		s.WallS = time.Since(t0).Seconds()

	}
	kitSub()
}

// c07Sentence: like c07Case for a free-standing SDL text on a minimal base.
func c07Sentence(c *explore.Ctx, s *explore.SubStats, sdl string) {
	text := "type Query { q: Int }\n" + sdl
	explore.Crumb(s.Name, text)
	s.Executions++
	in := kitInput{Items: []int{-1}, Extra: []string{sdl}}
	bad := func(key, detail string) {
		c.Report(s, explore.Violation{Key: key, Input: explore.J(map[string]string{"sdl": text}), Rendered: sdl, Detail: detail})
	}
	_ = in
	model, perr := schemaModel(&ast.Source{Name: "s.graphql", Input: text})
	if perr != nil {
		s.Skipped++
		return
	}
	var sch *ast.Schema
	var err error
	r := guarded(2000000, 0, func() { sch, err = gqlparser.LoadSchema(&ast.Source{Name: "s.graphql", Input: text}) })
	if r.Panicked {
		bad("panic site="+r.Site+" msg="+normMsg(r.PanicVal)+" rules="+strings.Join(model.Rules(), ","), "LoadSchema panicked: "+r.PanicVal+"\n"+trimStack(r.Stack))
		return
	}
	s.Validated++
	switch {
	case err == nil && !model.Valid():
		bad("load/false-accept rule="+strings.Join(model.Rules(), ","), "the type system breaks a rule but loads: "+model.Broken[0].Detail)
		s.Outcome("false-accept")
	case err != nil && model.Valid():
		bad("load/false-reject msg="+msgTemplate(err.Error(), kitNames(model)), "the type system satisfies every listed rule but is rejected: "+err.Error())
		s.Outcome("false-reject")
	case err != nil:
		s.Outcome("rejected " + strings.Join(model.Rules(), ","))
	default:
		s.Nontrivial++
		s.Outcome("loaded")
		for _, p := range schemaGraphProblems(sch, model) {
			bad("graph/"+p[0], p[1])
		}
	}
}
