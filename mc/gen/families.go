package gen

import "strings"

// Family is a size-parametrised adversarial input family; Make(n) has Θ(n) bytes.
type Family struct {
	Name string
	SDL  bool // meant for the type-system grammar (both parsers are run anyway)
	Make func(n int) string
}

func rep(s string, n int) string { return strings.Repeat(s, n) }

// ParseFamilies: inputs aimed at the lexer and both parsers.
var ParseFamilies = []Family{
	{"nest-list", false, func(n int) string { return "{a(x:" + rep("[", n) + rep("]", n) + ")}" }},
	{"nest-object", false, func(n int) string { return "{a(x:" + rep("{a:", n) + "1" + rep("}", n) + ")}" }},
	{"nest-selection", false, func(n int) string { return rep("{a", n) + rep("}", n) }},
	{"nest-inline-fragment", false, func(n int) string { return "{" + rep("...{", n) + "a" + rep("}", n) + "}" }},
	{"nest-type", false, func(n int) string { return "query($v:" + rep("[", n) + "Int" + rep("]", n) + "){a}" }},
	{"unclosed-list", false, func(n int) string { return "{a(x:" + rep("[", n) }},
	{"unclosed-object", false, func(n int) string { return "{a(x:" + rep("{a:", n) }},
	{"unclosed-selection", false, func(n int) string { return rep("{a", n) }},
	{"unclosed-paren", false, func(n int) string { return rep("(", n) }},
	{"token-flood", false, func(n int) string { return "{" + rep("a ", n) + "}" }},
	{"operation-flood", false, func(n int) string { return rep("{a}", n) }},
	{"comment-flood", false, func(n int) string { return rep("#c\n", n) + "{a}" }},
	{"comma-flood", false, func(n int) string { return rep(",", n) + "{a}" }},
	{"crlf-flood", false, func(n int) string { return rep("\r\n", n) + "{a}" }},
	{"bom-flood", false, func(n int) string { return rep("\xef\xbb\xbf", n) + "{a}" }},
	{"giant-name", false, func(n int) string { return "{" + rep("a", n) + "}" }},
	{"giant-int", false, func(n int) string { return "{a(x:1" + rep("0", n) + ")}" }},
	{"giant-string", false, func(n int) string { return `{a(x:"` + rep("s", n) + `")}` }},
	{"giant-escapes", false, func(n int) string { return `{a(x:"` + rep(`é`, n) + `")}` }},
	{"giant-blockstring", false, func(n int) string { return `{a(x:"""` + rep(" s\n", n) + `""")}` }},
	{"blockstring-quotes", false, func(n int) string { return `{a(x:"""` + rep(`""\"`, n) + `""")}` }},
	{"giant-comment", false, func(n int) string { return "#" + rep("c", n) }},
	{"unterminated-string", false, func(n int) string { return `{a(x:"` + rep("s", n) }},
	{"directive-flood", false, func(n int) string { return "{a" + rep(" @d", n) + "}" }},
	{"argument-flood", false, func(n int) string { return "{a(" + rep("x:1 ", n) + ")}" }},
	{"variable-flood", false, func(n int) string { return "query(" + rep("$v:Int ", n) + "){a}" }},
	{"alias-chain", false, func(n int) string { return "{" + rep("a:", n) + "a}" }},
	{"spread-flood", false, func(n int) string { return "{" + rep("...a ", n) + "b}" }},
	{"inline-fragment-flood", false, func(n int) string { return "{" + rep("...{a}", n) + "b}" }},
	{"typed-inline-fragment-operations", false, func(n int) string { return rep("{...on a{b}...c ...@d{e}}", n) + "{f}" }},
	{"fragment-definition-flood", false, func(n int) string { return rep("fragment a on b{...c}", n) + "{d}" }},
	{"list-item-flood", false, func(n int) string { return "{a(x:[" + rep("1 [2] {k:3} ", n) + "])}" }},
	// a long string of multi-byte characters where no string may stand (the parser names the token it did not expect)
	{"nonascii-string-unexpected", false, func(n int) string { return `"` + rep("é", n) + `" {a}` }},
	{"nonascii-blockstring-unexpected", false, func(n int) string { return `{a} """` + rep("日", n) + `"""` }},
	{"nonascii-string-after-fragment-name", false, func(n int) string { return `fragment a "` + rep("ж", n) + `" b{c}` }},
	{"invalid-bytes", false, func(n int) string { return rep("\x00", n) }},
	{"sdl-nest-type", true, func(n int) string { return "type A{f:" + rep("[", n) + "Int" + rep("]", n) + "}" }},
	{"sdl-nest-default", true, func(n int) string { return "input A{f:Int=" + rep("[", n) + rep("]", n) + "}" }},
	{"sdl-nest-directive-arg", true, func(n int) string { return "scalar A @d(x:" + rep("{a:", n) + "1" + rep("}", n) + ")" }},
	{"sdl-definition-flood", true, func(n int) string { return rep("type A{f:Int} ", n) }},
	{"sdl-extension-flood", true, func(n int) string { return rep("extend type A{f:Int} ", n) }},
	{"sdl-field-flood", true, func(n int) string { return "type A{" + rep("f(a:Int):Int ", n) + "}" }},
	{"sdl-description-flood", true, func(n int) string { return rep(`"d" `, n) + "scalar A" }},
	{"sdl-union-flood", true, func(n int) string { return "union U=" + rep("A|", n) + "A" }},
	{"sdl-implements-flood", true, func(n int) string { return "type A implements " + rep("I&", n) + "I{f:Int}" }},
	{"sdl-enum-flood", true, func(n int) string { return "enum E{" + rep("A ", n) + "}" }},
	{"sdl-location-flood", true, func(n int) string { return "directive @d on " + rep("FIELD|", n) + "FIELD" }},
	{"sdl-nonascii-description-extend", true, func(n int) string { return `"` + rep("é", n) + `" extend type A{f:Int}` }},
	{"sdl-nonascii-two-descriptions", true, func(n int) string { return `"d" "` + rep("é", n) + `" scalar A` }},
	{"sdl-unclosed-args", true, func(n int) string { return "type A{f" + rep("(a:Int=[", n) }},
}

// ValidFamilies: size-parametrised documents against ValidSchemas[0], aimed at the validator.
// Make(n) has Θ(n) bytes (Θ(n·log n) for numbered names).
var ValidFamilies = []Family{
	{"frag-fanout", false, func(n int) string { return "query Q { ...F0 } " + fanout(n, "Query", "id") }},
	{"frag-fanout-introspection", false, func(n int) string { return "query Q { __schema { types { ...F0 } } } " + fanout(n, "__Type", "name") }},
	{"frag-fanout-introspection-deep", false, func(n int) string {
		return "query Q { __schema { types { ...F0 } } } " + fanoutVia(n, "__Type", "fields { type {", "} }", "name")
	}},
	{"frag-fanout-introspection-undefined", false, func(n int) string {
		return "query Q { __schema { types { ...F0 } } } " + fanout(n, "__Type", "name ...Nope")
	}},
	{"frag-fanout-introspection-cycle", false, func(n int) string {
		return "query Q { __schema { types { ...F0 } } } " + fanout(n, "__Type", "name ...F0")
	}},
	{"frag-fanout-introspection-deep-undefined", false, func(n int) string {
		return "query Q { __type(name: \"a\") { ...F0 } } " + fanoutVia(n, "__Type", "fields { type {", "} }", "name ...Nope ...Nope2")
	}},
	{"frag-fanout-introspection-two-depths", false, func(n int) string {
		return "query Q { __schema { types { ...F0 fields { type { ...F0 } } } } } " + fanout(n, "__Type", "name")
	}},
	{"frag-fanout-introspection-three-depths", false, func(n int) string {
		return "query Q { __type(name: \"a\") { ...F0 interfaces { ...F0 possibleTypes { ...F0 } } } a: __schema { types { ...F0 } } } " + fanout(n, "__Type", "name")
	}},
	{"frag-fanout-undefined", false, func(n int) string { return "query Q { ...F0 } " + fanout(n, "Query", "id ...Nope") }},
	{"frag-fanout-subscription", false, func(n int) string { return "subscription S { ...F0 } " + fanout(n, "Subscription", "tick") }},
	{"frag-fanout-overlap", false, func(n int) string { return "query Q { pet { ...F0 } pet { ...F0 } } " + fanout(n, "Pet", "id") }},
	{"frag-fanout-overlap-conflict", false, func(n int) string {
		return "query Q { pet { ...F0 n: name } pet { ...F0 n: nick } } " + fanout(n, "Pet", "id")
	}},
	{"frag-fanout-variables", false, func(n int) string {
		return "query Q($v: Int) { ...F0 } " + fanout(n, "Query", "search(n: $v) { __typename }")
	}},
	{"frag-fanout-undefined-variable", false, func(n int) string { return "query Q { ...F0 } " + fanout(n, "Query", "search(n: $v) { __typename }") }},
	{"frag-cycle-through-fields", false, func(n int) string {
		var b strings.Builder
		b.WriteString("query Q { pet { ...F0 } } ")
		for i := 0; i < n; i++ {
			b.WriteString("fragment F" + itoa2(i) + " on Pet { owner { pets { ...F" + itoa2((i+1)%n) + " } } } ")
		}
		return b.String()
	}},
	{"frag-cycle-direct", false, func(n int) string {
		var b strings.Builder
		b.WriteString("query Q { ...F0 } ")
		for i := 0; i < n; i++ {
			b.WriteString("fragment F" + itoa2(i) + " on Query { ...F" + itoa2((i+1)%n) + " ...F" + itoa2((i+2)%n) + " id } ")
		}
		return b.String()
	}},
	// a fragment cycle whose members all select the same composite field with a sub selection that spreads a fragment
	{"frag-cycle-overlap-sub", false, func(n int) string {
		var b strings.Builder
		b.WriteString("query Q { pet { ...H } ...F0 } ")
		for i := 0; i < n; i++ {
			b.WriteString("fragment F" + itoa2(i) + " on Query { pet { ...H } ...F" + itoa2((i+1)%n) + " } ")
		}
		b.WriteString("fragment H on Pet { id }")
		return b.String()
	}},
	{"frag-cycle-overlap-sub-nested", false, func(n int) string {
		var b strings.Builder
		b.WriteString("query Q { person { friend { ...H } ...F0 } } ")
		for i := 0; i < n; i++ {
			b.WriteString("fragment F" + itoa2(i) + " on Person { friend { ...H friend { ...F" + itoa2((i+2)%n) + " } } ...F" + itoa2((i+1)%n) + " } ")
		}
		b.WriteString("fragment H on Person { id ...F0 }")
		return b.String()
	}},
	{"frag-chain-overlap-sub", false, func(n int) string {
		var b strings.Builder
		b.WriteString("query Q { pet { ...H } ...F0 } ")
		for i := 0; i < n; i++ {
			b.WriteString("fragment F" + itoa2(i) + " on Query { pet { ...H ...H" + itoa2(i) + " } ...F" + itoa2(i+1) + " } fragment H" + itoa2(i) + " on Pet { id } ")
		}
		b.WriteString("fragment F" + itoa2(n) + " on Query { id } fragment H on Pet { id }")
		return b.String()
	}},
	{"frag-chain", false, func(n int) string {
		var b strings.Builder
		b.WriteString("query Q { ...F0 } ")
		for i := 0; i < n; i++ {
			b.WriteString("fragment F" + itoa2(i) + " on Query { id ...F" + itoa2(i+1) + " } ")
		}
		b.WriteString("fragment F" + itoa2(n) + " on Query { id }")
		return b.String()
	}},
	{"frag-unused-flood", false, func(n int) string {
		var b strings.Builder
		b.WriteString("query Q { id } ")
		for i := 0; i < n; i++ {
			b.WriteString("fragment U" + itoa2(i) + " on Query { id } ")
		}
		return b.String()
	}},
	{"deep-selection", false, func(n int) string {
		return "query Q { person { " + rep("pets { owner { ", n) + "id" + rep(" } }", n) + " } }"
	}},
	{"deep-selection-overlap", false, func(n int) string {
		d := "person { " + rep("pets { owner { ", n) + "id" + rep(" } }", n) + " }"
		return "query Q { " + d + " " + d + " }"
	}},
	{"deep-inline-fragments", false, func(n int) string { return "query Q { " + rep("... on Query { ", n) + "id" + rep(" }", n) + " }" }},
	{"wide-same-field", false, func(n int) string { return "query Q { pet { " + rep("id ", n) + "} }" }},
	{"wide-same-alias", false, func(n int) string { return "query Q { pet { " + rep("a: id ", n) + "} }" }},
	{"wide-alias-conflict", false, func(n int) string { return "query Q { pet { " + rep("a: id a: name ", n) + "} }" }},
	{"wide-distinct-aliases", false, func(n int) string {
		var b strings.Builder
		b.WriteString("query Q { pet { ")
		for i := 0; i < n; i++ {
			b.WriteString("a" + itoa2(i) + ": id ")
		}
		b.WriteString("} }")
		return b.String()
	}},
	{"wide-arguments-unknown", false, func(n int) string {
		var b strings.Builder
		b.WriteString("query Q { node(id: 1")
		for i := 0; i < n; i++ {
			b.WriteString(", x" + itoa2(i) + ": 1")
		}
		b.WriteString(") { id } }")
		return b.String()
	}},
	{"wide-variables", false, func(n int) string {
		var a, u strings.Builder
		for i := 0; i < n; i++ {
			a.WriteString("$v" + itoa2(i) + ": Int ")
			u.WriteString("s" + itoa2(i) + ": search(n: $v" + itoa2(i) + ") { __typename } ")
		}
		return "query Q(" + a.String() + ") { " + u.String() + "}"
	}},
	{"wide-variables-unused", false, func(n int) string {
		var a strings.Builder
		for i := 0; i < n; i++ {
			a.WriteString("$v" + itoa2(i) + ": Int ")
		}
		return "query Q(" + a.String() + ") { id }"
	}},
	{"wide-directives", false, func(n int) string { return "query Q { id" + rep(` @tag(name: "a")`, n) + " }" }},
	{"wide-directives-nonrepeatable", false, func(n int) string { return "query Q { id" + rep(" @once", n) + " }" }},
	{"wide-operations", false, func(n int) string {
		var b strings.Builder
		for i := 0; i < n; i++ {
			b.WriteString("query Q" + itoa2(i) + " { id } ")
		}
		return b.String()
	}},
	{"wide-operations-same-name", false, func(n int) string { return rep("query Q { id } ", n) }},
	{"nested-list-value", false, func(n int) string { return "query Q { list(xs: " + rep("[", n) + "1" + rep("]", n) + ") }" }},
	{"nested-input-object", false, func(n int) string {
		return "query Q { search(f: " + rep("{req: true, sub: ", n) + "{req: true}" + rep("}", n) + ") { __typename } }"
	}},
	{"nested-custom-scalar-value", false, func(n int) string { return "query Q { date(d: " + rep("{a: [", n) + "1" + rep("]}", n) + ") }" }},
	{"wide-list-value", false, func(n int) string { return "query Q { search(ks: [" + rep("DOG, ", n) + "CAT]) { __typename } }" }},
	{"wide-object-value-dup", false, func(n int) string {
		return "query Q { search(f: {req: true" + rep(", name: \"a\"", n) + "}) { __typename } }"
	}},
	{"unknown-names-suggestions", false, func(n int) string {
		var b strings.Builder
		b.WriteString("query Q { ")
		for i := 0; i < n; i++ {
			b.WriteString("nam" + itoa2(i) + " ")
		}
		b.WriteString("}")
		return b.String()
	}},
	{"subscription-wide", false, func(n int) string { return "subscription S { " + rep("tick ", n) + "}" }},
	{"possible-spreads-wide", false, func(n int) string {
		return "query Q { search { " + rep("... on Pet { id } ... on Person { id } ", n) + "} }"
	}},
}

func fanout(n int, typ, leaf string) string { return fanoutVia(n, typ, "", "", leaf) }

// fanoutVia: F0 … Fn-1 each spread the next one twice (2^n paths), Fn selects the leaf.
func fanoutVia(n int, typ, open, close, leaf string) string {
	var b strings.Builder
	for i := 0; i < n; i++ {
		nx := "...F" + itoa2(i+1)
		b.WriteString("fragment F" + itoa2(i) + " on " + typ + " { " + open + " " + nx + " " + nx + " " + close + " } ")
	}
	b.WriteString("fragment F" + itoa2(n) + " on " + typ + " { " + leaf + " }")
	return b.String()
}

func itoa2(i int) string {
	if i == 0 {
		return "0"
	}
	var d []byte
	for i > 0 {
		d = append([]byte{byte('0' + i%10)}, d...)
		i /= 10
	}
	return string(d)
}

// SchemaFamilies: size-parametrised type systems, aimed at the schema loader.
var SchemaFamilies = []Family{
	// n layers of two interfaces, every interface implementing all interfaces of the lower layers, one object implementing all
	{"iface-layers", true, func(n int) string {
		var b strings.Builder
		var lower []string
		for l := 0; l < n; l++ {
			var here []string
			for k := 0; k < 2; k++ {
				name := "I" + itoa2(l) + "x" + itoa2(k)
				b.WriteString("interface " + name)
				if len(lower) > 0 {
					b.WriteString(" implements " + strings.Join(lower, " & "))
				}
				b.WriteString(" { id: ID }\n")
				here = append(here, name)
			}
			lower = append(lower, here...)
		}
		b.WriteString("type Query implements " + strings.Join(lower, " & ") + " { id: ID }\n")
		return b.String()
	}},
	// n interfaces that all implement each other (cyclic) — accepted or rejected, but in bounded work
	{"iface-clique", true, func(n int) string {
		var names []string
		for i := 0; i < n; i++ {
			names = append(names, "C"+itoa2(i))
		}
		var b strings.Builder
		for _, nm := range names {
			b.WriteString("interface " + nm + " implements " + strings.Join(names, " & ") + " { id: ID }\n")
		}
		b.WriteString("type Query implements " + strings.Join(names, " & ") + " { id: ID }\n")
		return b.String()
	}},
	// a chain of interfaces, each implementing the previous one only (transitivity violated from the third on)
	{"iface-chain", true, func(n int) string {
		var b strings.Builder
		b.WriteString("interface J0 { id: ID }\n")
		for i := 1; i <= n; i++ {
			b.WriteString("interface J" + itoa2(i) + " implements J" + itoa2(i-1) + " { id: ID }\n")
		}
		b.WriteString("type Query { id: ID }\n")
		return b.String()
	}},
	// an input object chain of required self references through lists, unions of many members, wide enums
	{"input-chain", true, func(n int) string {
		var b strings.Builder
		for i := 0; i < n; i++ {
			b.WriteString("input N" + itoa2(i) + " { next: [N" + itoa2((i+1)%n) + "!]! = [] v: Int = " + itoa2(i) + " }\n")
		}
		b.WriteString("type Query { f(a: N0): Int }\n")
		return b.String()
	}},
	{"union-wide", true, func(n int) string {
		var b strings.Builder
		var ms []string
		for i := 0; i < n; i++ {
			b.WriteString("type M" + itoa2(i) + " { id: ID }\n")
			ms = append(ms, "M"+itoa2(i))
		}
		b.WriteString("union U = " + strings.Join(ms, " | ") + "\ntype Query { u: U }\n")
		return b.String()
	}},
	// directives applied to the argument definitions of directives: a chain in which every
	// directive uses the next one on two of its arguments, and a cycle among the later ones
	{"directive-arg-fanout", true, func(n int) string {
		var b strings.Builder
		for i := 0; i < n; i++ {
			b.WriteString("directive @d" + itoa2(i) + "(a: Int @d" + itoa2(i+1) + ", b: Int @d" + itoa2(i+1) + ") on ARGUMENT_DEFINITION\n")
		}
		b.WriteString("directive @d" + itoa2(n) + " on ARGUMENT_DEFINITION\ntype Query { id: ID }\n")
		return b.String()
	}},
	{"directive-arg-cycle", true, func(n int) string {
		var b strings.Builder
		b.WriteString("directive @a0(x: Int @c0) on ARGUMENT_DEFINITION\n")
		for i := 0; i < n; i++ {
			b.WriteString("directive @c" + itoa2(i) + "(y: Int @c" + itoa2((i+1)%n) + ") on ARGUMENT_DEFINITION\n")
		}
		b.WriteString("type Query { id: ID }\n")
		return b.String()
	}},
	{"extension-flood", true, func(n int) string {
		var b strings.Builder
		b.WriteString("type Query { id: ID }\ndirective @t(a: Int) repeatable on OBJECT\n")
		for i := 0; i < n; i++ {
			b.WriteString("extend type Query @t(a: " + itoa2(i) + ") { f" + itoa2(i) + ": Int }\n")
		}
		return b.String()
	}},
}
