package props

import (
	"encoding/json"
	"fmt"
	"reflect"
	"sort"
	"strconv"
	"strings"
	"sync"
	"time"

	gqlparser "github.com/vektah/gqlparser/v2"
	"github.com/vektah/gqlparser/v2/ast"
	"github.com/vektah/gqlparser/v2/validator"

	"verif/mc/explore"
	"verif/mc/ref/reflex"
)

// C15: argument resolution is total and follows literal > variable > default order.

func init() {
	register(&Prop{ID: "C15", Run: runC15, Replay: func(c *explore.Ctx, s *explore.SubStats, v explore.Violation) {
		var in c15Case
		if json.Unmarshal(v.Input, &in) == nil {
			c15Run(c, s, in)
		}
	}, Assumptions: []string{
		"reference: CoerceArgumentValues of the specification (§6.4.1) computed from the case description itself (never from the parsed tree): the literal written, converted recursively with nested variables substituted; else the variable's value from the coerced variables; else the argument's default; else absent",
		"only documents that pass the library's own validation and variables that pass its coercion are judged (the property's precondition); the variables map handed to ArgumentMap is the one VariableValues returned",
		"undecided: a variable nested inside a list or input-object literal that is neither supplied nor defaulted (the property only says nested variables are substituted); input-object field defaults are not expected to be filled in (the property says 'the literal written')",
		"numbers are compared by value (int64 1 = int 1)",
	}})
}

const c15SDL = `scalar Any
enum Kind { DOG CAT Cat }
input In { a: Int b: String = "bd" c: [In] k: Kind any: Any l: [Int] }
directive @dir(n: Int, d: Int = 7, r: Int! = 9, s: String, o: In, l: [Int], k: Kind, any: Any, id: ID, fl: Float, b: Boolean) on FIELD
type Query { f(n: Int, d: Int = 7, r: Int! = 9, s: String, o: In, l: [Int], k: Kind, any: Any, id: ID, fl: Float, b: Boolean): Int g: Int }
`

// lit is a literal as written (the check's own model of it).
type lit struct {
	K      string // int float string block bool null enum list object var
	Raw    string
	Items  []lit
	Names  []string // object field names, parallel to Items
	VarIdx int      // for K == "var": which declared variable
}

func (l lit) text(vars []c15Var) string {
	switch l.K {
	case "string":
		return strconv.Quote(l.Raw)
	case "block":
		return `"""` + l.Raw + `"""`
	case "list":
		var xs []string
		for _, i := range l.Items {
			xs = append(xs, i.text(vars))
		}
		return "[" + strings.Join(xs, ", ") + "]"
	case "object":
		var xs []string
		for i, it := range l.Items {
			xs = append(xs, l.Names[i]+": "+it.text(vars))
		}
		return "{" + strings.Join(xs, ", ") + "}"
	case "var":
		return "$" + vars[l.VarIdx].Name
	}
	return l.Raw
}

// value: the Go value the specification prescribes for the literal; undecided when a
// nested variable has no value at all.
func (l lit) value(coerced map[string]any, vars []c15Var) (v any, undecided bool) {
	switch l.K {
	case "int":
		n, err := strconv.ParseInt(l.Raw, 10, 64)
		if err != nil {
			return nil, true
		}
		return n, false
	case "float":
		f, _ := strconv.ParseFloat(l.Raw, 64)
		return f, false
	case "block":
		return reflex.BlockStringValue(l.Raw, reflex.Defects{}), false
	case "string", "enum":
		return l.Raw, false
	case "bool":
		return l.Raw == "true", false
	case "null":
		return nil, false
	case "list":
		out := []any{}
		for _, i := range l.Items {
			x, u := i.value(coerced, vars)
			if u {
				return nil, true
			}
			out = append(out, x)
		}
		return out, false
	case "object":
		out := map[string]any{}
		for i, it := range l.Items {
			x, u := it.value(coerced, vars)
			if u {
				return nil, true
			}
			out[l.Names[i]] = x
		}
		return out, false
	case "var":
		x, ok := coerced[vars[l.VarIdx].Name]
		if !ok {
			return nil, true
		}
		return x, false
	}
	return nil, true
}

type c15Var struct {
	Name    string `json:"name"`
	Type    string `json:"type"`
	Default string `json:"default"`  // "" none, else literal text
	Supply  string `json:"supplied"` // absent | null | value
}

func (v c15Var) suppliedValue() any {
	switch strings.Trim(v.Type, "!") {
	case "Int":
		return 42
	case "String":
		return "sv"
	case "Kind":
		return "Cat" // (an enum may declare names that differ by case only: the later one, exactly as supplied)
	case "In":
		return map[string]any{"a": 3}
	case "[Int]":
		return []any{1, 2}
	case "ID":
		return "idv"
	case "Float":
		return 2.5
	case "Boolean":
		return true
	}
	return map[string]any{"x": []any{1, "two"}}
}

type c15Arg struct {
	Name string `json:"name"`
	Lit  lit    `json:"lit"`
}

type c15Case struct {
	OnDirective bool     `json:"on_directive"`
	Args        []c15Arg `json:"args"`
	Vars        []c15Var `json:"vars"`
}

func (cs c15Case) query() string {
	var decl []string
	for _, v := range cs.Vars {
		d := "$" + v.Name + ": " + v.Type
		if v.Default != "" {
			d += " = " + v.Default
		}
		decl = append(decl, d)
	}
	var args []string
	for _, a := range cs.Args {
		args = append(args, a.Name+": "+a.Lit.text(cs.Vars))
	}
	al := ""
	if len(args) > 0 {
		al = "(" + strings.Join(args, ", ") + ")"
	}
	head := "query Q"
	if len(decl) > 0 {
		head += "(" + strings.Join(decl, ", ") + ")"
	}
	if cs.OnDirective {
		return head + " { g @dir" + al + " }"
	}
	return head + " { f" + al + " }"
}

var (
	c15Once   sync.Once
	c15Schema *ast.Schema
	// argument definitions as the check's own table: name → (type, default value present?, default)
	c15Defs = []struct {
		Name    string
		Type    string
		HasDef  bool
		Default any
	}{{"n", "Int", false, nil}, {"d", "Int", true, int64(7)}, {"r", "Int!", true, int64(9)}, {"s", "String", false, nil}, {"o", "In", false, nil}, {"l", "[Int]", false, nil},
		{"k", "Kind", false, nil}, {"any", "Any", false, nil}, {"id", "ID", false, nil}, {"fl", "Float", false, nil}, {"b", "Boolean", false, nil}}
)

func c15Load() *ast.Schema {
	c15Once.Do(func() {
		s, err := gqlparser.LoadSchema(&ast.Source{Name: "c15.graphql", Input: c15SDL})
		if err != nil {
			panic("C15 schema does not load: " + err.Error())
		}
		c15Schema = s
	})
	return c15Schema
}

func c15Run(c *explore.Ctx, s *explore.SubStats, cs c15Case) {
	schema := c15Load()
	q := cs.query()
	raw := map[string]any{}
	for _, v := range cs.Vars {
		switch v.Supply {
		case "null":
			raw[v.Name] = nil
		case "value":
			raw[v.Name] = v.suppliedValue()
		}
	}
	rendered := q + "   variables=" + goRepr(raw)
	explore.Crumb(s.Name, rendered)
	s.Executions++
	bad := func(key, detail, exp, obs string) {
		c.Report(s, explore.Violation{Key: key, Input: explore.J(cs), Rendered: rendered, Detail: detail, Expected: exp, Observed: obs})
	}
	doc, errs := gqlparser.LoadQuery(schema, q)
	if errs != nil {
		s.Skipped++
		s.Outcome("invalid-document")
		return
	}
	op := doc.Operations[0]
	var coerced map[string]any
	var cerr error
	r := guarded(0, 0, func() { coerced, cerr = validator.VariableValues(schema, op, raw) })
	if r.Panicked {
		s.Skipped++ // C14's business
		s.Outcome("coercion-panic")
		return
	}
	if cerr != nil {
		s.Skipped++
		s.Outcome("coercion-error")
		return
	}
	// the variables as the specification coerces them, from the case description alone
	// (the library's own VariableValues output is what ArgumentMap is *given*, not what the
	// expectation is computed from)
	model := c15ModelVars(cs.Vars)
	// expected map
	want := map[string]any{}
	undecided := false
	for _, d := range c15Defs {
		var arg *c15Arg
		for i := range cs.Args {
			if cs.Args[i].Name == d.Name {
				arg = &cs.Args[i]
			}
		}
		has := false
		var val any
		if arg != nil {
			if arg.Lit.K == "var" {
				val, has = model[cs.Vars[arg.Lit.VarIdx].Name]
			} else {
				var u bool
				val, u = arg.Lit.value(model, cs.Vars)
				if u {
					undecided = true
				}
				has = true
			}
		}
		if !has && d.HasDef {
			val, has = d.Default, true
		}
		if has {
			want[d.Name] = val
		}
	}
	f := op.SelectionSet[0].(*ast.Field)
	var got map[string]any
	r = guarded(0, 0, func() {
		if cs.OnDirective {
			got = f.Directives[0].ArgumentMap(coerced)
		} else {
			got = f.ArgumentMap(coerced)
		}
	})
	s.Validated++
	feat := c15Feature(cs)
	if r.Panicked {
		bad("args/panic site="+r.Site+" msg="+normMsg(r.PanicVal)+" trigger="+c15PanicTrigger(cs), "ArgumentMap panicked on a validated document with coerced variables: "+r.PanicVal+"\n"+trimStack(r.Stack), goRepr(want), "")
		s.Outcome("panic")
		return
	}
	if undecided {
		s.Undecided++
		s.Outcome("undecided-nested-absent-variable")
		// keys must still be exactly the arguments that have a value
		if !sameKeys(got, want) {
			bad("args/keys "+feat, "the argument map does not contain exactly the arguments that have a value", keysOf(want), keysOf(got))
		}
		return
	}
	if !reflect.DeepEqual(normNum(normAny(got)), normNum(normAny(want))) {
		key := "args/value "
		if !sameKeys(got, want) {
			key = "args/keys "
		}
		feat := c15DiffFeature(cs, got, want)
		bad(key+feat, "ArgumentMap differs from CoerceArgumentValues", goRepr(want), goRepr(got))
		s.Outcome("differs")
		return
	}
	s.Nontrivial++
	s.Outcome("ok " + feat)
	s.Sample(func() any { return rendered })
}

// c15PanicTrigger: the input feature that explains a conversion panic: a numeric literal
// beyond int64 / float64 written where a custom scalar is expected (the validator lets any
// literal through there, as the property requires).
func c15PanicTrigger(cs c15Case) string {
	var outOfRange func(l lit) bool
	outOfRange = func(l lit) bool {
		switch l.K {
		case "int":
			_, err := strconv.ParseInt(l.Raw, 10, 64)
			return err != nil
		case "float":
			_, err := strconv.ParseFloat(l.Raw, 64)
			return err != nil
		}
		for _, i := range l.Items {
			if outOfRange(i) {
				return true
			}
		}
		return false
	}
	for _, a := range cs.Args {
		if a.Name == "any" && outOfRange(a.Lit) {
			return "out-of-range-number-literal-for-custom-scalar"
		}
		if a.Name == "o" && a.Lit.K == "object" {
			for i, n := range a.Lit.Names {
				if n == "any" && outOfRange(a.Lit.Items[i]) {
					return "out-of-range-number-literal-for-custom-scalar"
				}
			}
		}
	}
	return "none"
}

// c15DiffFeature: the first argument on which the maps differ, with its source.
func c15DiffFeature(cs c15Case, got, want map[string]any) string {
	on := "field"
	if cs.OnDirective {
		on = "directive"
	}
	for _, d := range c15Defs {
		g, gok := got[d.Name]
		w, wok := want[d.Name]
		if gok == wok && reflect.DeepEqual(normNum(normAny(g)), normNum(normAny(w))) {
			continue
		}
		src := "omitted"
		for _, a := range cs.Args {
			if a.Name == d.Name {
				src = a.Lit.K
				if src == "var" {
					v := cs.Vars[a.Lit.VarIdx]
					src = "var(default=" + map[bool]string{true: "yes", false: "no"}[v.Default != ""] + ",supplied=" + v.Supply + ")"
				} else if hasVar(a.Lit) {
					src += "+nested-var"
				}
			}
		}
		return on + " arg=" + d.Name + " src=" + src
	}
	return on
}

var c15DefaultValues = map[string]any{"5": int64(5), `"vd"`: "vd", `{a: 6}`: map[string]any{"a": int64(6)}, "[8]": []any{int64(8)}, "DOG": "DOG", `{q: 1}`: map[string]any{"q": int64(1)},
	`"i"`: "i", "0.5": 0.5, "false": false, "null": nil, `"EUR"`: "EUR"}

// c15ModelVars: CoerceVariableValues for the (conforming) values the cases supply.
func c15ModelVars(vars []c15Var) map[string]any {
	m := map[string]any{}
	for _, v := range vars {
		switch v.Supply {
		case "value":
			m[v.Name] = v.suppliedValue()
		case "null":
			m[v.Name] = nil
		default:
			if v.Default != "" {
				d, ok := c15DefaultValues[v.Default]
				if !ok {
					panic("C15: no value for default literal " + v.Default)
				}
				m[v.Name] = d
			}
		}
	}
	return m
}

// c15Shared: two operations sharing one fragment, the same variable names declared with and
// without defaults; every supply combination, both orders of the operations.
func c15Shared(c *explore.Ctx, s *explore.SubStats) {
	schema := c15Load()
	decls := [][]c15Var{
		{{Name: "n", Type: "Int"}, {Name: "c", Type: "String"}},
		{{Name: "n", Type: "Int", Default: "5"}, {Name: "c", Type: "String", Default: `"EUR"`}},
		{{Name: "n", Type: "Int", Default: "null"}, {Name: "c", Type: "String"}},
	}
	frag := `fragment F on Query { f(n: $n, d: $n, s: $c, l: [$n], o: {a: $n, b: $c}) g @dir(n: $n, d: $n, s: $c) }`
	argLits := map[string]lit{"n": vr(0), "d": vr(0), "s": vr(1), "l": lst(vr(0)), "o": obj("a", vr(0), "b", vr(1))}
	dirLits := map[string]lit{"n": vr(0), "d": vr(0), "s": vr(1)}
	idx := 0
	for a := range decls {
		for b := range decls {
			if a == b {
				continue
			}
			for _, supN := range []string{"absent", "null", "value"} {
				for _, supC := range []string{"absent", "null", "value"} {
					for which := 0; which < 2; which++ {
						idx++
						if idx%c.NShards != c.Shard {
							continue
						}
						s.States++
						s.Transitions++
						s.Executions++
						ops := []int{a, b}
						opText := func(name string, d []c15Var) string {
							var ds []string
							for _, v := range d {
								x := "$" + v.Name + ": " + v.Type
								if v.Default != "" {
									x += " = " + v.Default
								}
								ds = append(ds, x)
							}
							return "query " + name + "(" + strings.Join(ds, ", ") + ") { ...F }"
						}
						q := opText("First", decls[ops[0]]) + " " + opText("Second", decls[ops[1]]) + " " + frag
						vars := append([]c15Var{}, decls[ops[which]]...)
						vars[0].Supply, vars[1].Supply = supN, supC
						raw := map[string]any{}
						for _, v := range vars {
							switch v.Supply {
							case "null":
								raw[v.Name] = nil
							case "value":
								raw[v.Name] = v.suppliedValue()
							}
						}
						rendered := fmt.Sprintf("%s   execute=%s variables=%s", q, []string{"First", "Second"}[which], goRepr(raw))
						explore.Crumb(s.Name, rendered)
						in := map[string]any{"query": q, "operation": which, "variables": raw}
						bad := func(key, detail, exp, obs string) {
							c.Report(s, explore.Violation{Key: key, Input: explore.J(in), Rendered: rendered, Detail: detail, Expected: exp, Observed: obs})
						}
						doc, errs := gqlparser.LoadQuery(schema, q)
						if errs != nil {
							s.Skipped++
							continue
						}
						coerced, cerr := validator.VariableValues(schema, doc.Operations[which], raw)
						if cerr != nil {
							s.Skipped++
							continue
						}
						model := c15ModelVars(vars)
						expect := func(lits map[string]lit) (map[string]any, bool) {
							want := map[string]any{}
							und := false
							for _, d := range c15Defs {
								l, given := lits[d.Name]
								has := false
								var val any
								if given {
									if l.K == "var" {
										val, has = model[vars[l.VarIdx].Name]
									} else {
										var u bool
										val, u = l.value(model, vars)
										und = und || u
										has = true
									}
								}
								if !has && d.HasDef {
									val, has = d.Default, true
								}
								if has {
									want[d.Name] = val
								}
							}
							return want, und
						}
						fr := doc.Fragments[0]
						f := fr.SelectionSet[0].(*ast.Field)
						g := fr.SelectionSet[1].(*ast.Field)
						for _, t := range []struct {
							what string
							got  func() map[string]any
							lits map[string]lit
						}{{"field", func() map[string]any { return f.ArgumentMap(coerced) }, argLits}, {"directive", func() map[string]any { return g.Directives[0].ArgumentMap(coerced) }, dirLits}} {
							var got map[string]any
							r := guarded(0, 0, func() { got = t.got() })
							s.Validated++
							if r.Panicked {
								bad("args/panic shared-fragment site="+r.Site, r.PanicVal, "", "")
								continue
							}
							want, und := expect(t.lits)
							if und {
								s.Undecided++
								if !sameKeys(got, want) {
									bad("args/keys shared-fragment "+t.what, "the argument map does not contain exactly the arguments that have a value", keysOf(want), keysOf(got))
								}
								continue
							}
							if !reflect.DeepEqual(normNum(normAny(got)), normNum(normAny(want))) {
								bad("args/value shared-fragment "+t.what, "ArgumentMap in a fragment shared by two operations differs from CoerceArgumentValues for the executed operation", goRepr(want), goRepr(got))
								continue
							}
							s.Nontrivial++
						}
						s.Outcome("ok")
					}
				}
			}
		}
	}
}

func sameKeys(a, b map[string]any) bool { return keysOf(a) == keysOf(b) }

func keysOf(m map[string]any) string {
	var ks []string
	for k := range m {
		ks = append(ks, k)
	}
	sort.Strings(ks)
	return strings.Join(ks, ",")
}

// normAny converts typed containers to generic ones for comparison.
func normAny(v any) any {
	if v == nil {
		return nil
	}
	rv := reflect.ValueOf(v)
	switch rv.Kind() {
	case reflect.Slice:
		out := make([]any, rv.Len())
		for i := range out {
			out[i] = normAny(rv.Index(i).Interface())
		}
		return out
	case reflect.Map:
		out := map[string]any{}
		for _, k := range rv.MapKeys() {
			out[k.String()] = normAny(rv.MapIndex(k).Interface())
		}
		return out
	}
	return v
}

// c15Feature: the shape of the case (cause key component).
func c15Feature(cs c15Case) string {
	var parts []string
	for _, a := range cs.Args {
		src := a.Lit.K
		if src == "var" {
			v := cs.Vars[a.Lit.VarIdx]
			src = "var(default=" + map[bool]string{true: "yes", false: "no"}[v.Default != ""] + ",supplied=" + v.Supply + ")"
		} else if hasVar(a.Lit) {
			src += "+nested-var"
		}
		parts = append(parts, a.Name+"="+src)
	}
	on := "field"
	if cs.OnDirective {
		on = "directive"
	}
	return on + " " + strings.Join(parts, " ")
}

func hasVar(l lit) bool {
	if l.K == "var" {
		return true
	}
	for _, i := range l.Items {
		if hasVar(i) {
			return true
		}
	}
	return false
}

func li(k, raw string) lit { return lit{K: k, Raw: raw} }
func lst(items ...lit) lit { return lit{K: "list", Items: items} }
func obj(kv ...any) lit {
	o := lit{K: "object"}
	for i := 0; i < len(kv); i += 2 {
		o.Names = append(o.Names, kv[i].(string))
		o.Items = append(o.Items, kv[i+1].(lit))
	}
	return o
}
func vr(i int) lit { return lit{K: "var", VarIdx: i} }

// c15Literals: literals tried for every argument (the validator decides which are legal where).
func c15Literals() []lit {
	return []lit{
		li("int", "1"), li("int", "-5"), li("int", "2147483647"), li("int", "9223372036854775807"), li("int", "9223372036854775808"), li("float", "1.5"), li("float", "1e400"),
		li("string", "s"), li("string", ""), li("block", "b\n  c"), li("bool", "true"), li("bool", "false"), li("null", "null"), li("enum", "DOG"), li("enum", "BAD"),
		lst(), lst(li("int", "1"), li("int", "2")), lst(li("null", "null")), lst(lst(li("int", "1"))), li("int", "7"),
		obj(), obj("a", li("int", "1")), obj("a", li("null", "null"), "b", li("string", "x")), obj("c", lst(obj("a", li("int", "2")), obj("k", li("enum", "CAT")))),
		obj("any", obj("x", lst(li("int", "1"), li("string", "two"), obj("y", li("null", "null"))))), obj("l", li("int", "3")), obj("zz", li("int", "1")),
		// an escape sequence followed by raw non-ASCII text; text on the opening line of a block string
		li("string", "say \"grüße\" \\ 😀 ñ"), lst(li("string", "q\"é"), obj("b", li("string", "t\\ü"))), li("block", "select *\n      from t\n    where ü"),
	}
}

// nested-variable literal templates: the variable sits inside a list / object literal.
func c15Nested(vi int) []struct {
	arg string
	l   lit
	vt  string
} {
	return []struct {
		arg string
		l   lit
		vt  string
	}{
		{"l", lst(li("int", "1"), vr(vi)), "Int"},
		{"o", obj("a", vr(vi)), "Int"},
		{"o", obj("c", lst(obj("a", vr(vi)))), "Int"},
		{"o", obj("b", vr(vi)), "String"},
		{"o", obj("k", vr(vi)), "Kind"},
		{"o", obj("l", lst(vr(vi), li("int", "2"))), "Int"},
		{"o", obj("l", vr(vi)), "[Int]"},
		{"any", obj("x", lst(vr(vi))), "Int"},
		{"any", lst(vr(vi), li("string", "z")), "Any"},
		{"o", vr(vi), "In"},
	}
}

func runC15(c *explore.Ctx) {
	s := c.Sub("sources", "field f and directive @dir with 11 arguments of every flavour (nullable, default, non-null with default, input object, list, enum, custom scalar, ID, Float, Boolean); every argument × every source: omitted, each of 30 literals (incl. out-of-range numbers, nested lists/objects, arbitrary custom-scalar literals), a variable × {no default, default, default null} × {absent, null, value}, a variable nested in a list / object / custom-scalar literal × the same 9 combinations; thorough: every pair of such argument sources",
		"for documents that validate and variables that coerce: ArgumentMap returns normally and equals CoerceArgumentValues (keys exactly the arguments that have a value; literal > variable value > argument default)", "cases that validate and coerce")
	if s == nil {
		return
	}
	t0 := time.Now()
	type src struct {
		arg  string
		l    lit
		vars []c15Var
	}
	var sources []src
	varTypeOf := map[string]string{"n": "Int", "d": "Int", "r": "Int", "s": "String", "o": "In", "l": "[Int]", "k": "Kind", "any": "Any", "id": "ID", "fl": "Float", "b": "Boolean"}
	defLit := map[string]string{"Int": "5", "String": `"vd"`, "In": `{a: 6}`, "[Int]": "[8]", "Kind": "DOG", "Any": `{q: 1}`, "ID": `"i"`, "Float": "0.5", "Boolean": "false"}
	for _, d := range c15Defs {
		for _, l := range c15Literals() {
			sources = append(sources, src{d.Name, l, nil})
		}
		vt := varTypeOf[d.Name]
		for _, def := range []string{"", defLit[vt], "null"} {
			for _, sup := range []string{"absent", "null", "value"} {
				sources = append(sources, src{d.Name, vr(0), []c15Var{{"v", vt, def, sup}}})
				if d.Name == "r" || d.Name == "n" {
					sources = append(sources, src{d.Name, vr(0), []c15Var{{"v", vt + "!", def, sup}}})
				}
			}
		}
	}
	for _, nt := range c15Nested(0) {
		for _, def := range []string{"", defLit[nt.vt], "null"} {
			for _, sup := range []string{"absent", "null", "value"} {
				sources = append(sources, src{nt.arg, nt.l, []c15Var{{"v", nt.vt, def, sup}}})
			}
		}
	}
	if c.Shard == 0 {
		s.Extra["argument_sources"] = float64(len(sources))
	}
	idx := 0
	run := func(cs c15Case) {
		idx++
		if idx%c.NShards != c.Shard {
			return
		}
		s.States++
		s.Transitions++
		c15Run(c, s, cs)
	}
	for _, onDir := range []bool{false, true} {
		run(c15Case{OnDirective: onDir})
		for _, a := range sources {
			run(c15Case{OnDirective: onDir, Args: []c15Arg{{a.arg, a.l}}, Vars: a.vars})
		}
	}
	// pairs of argument sources (different arguments); variables renamed apart
	stride := 1
	if !c.Thorough() {
		stride = 1
		s.Extra["pairs_stride"] = float64(stride)
	}
	n := 0
	for _, onDir := range []bool{false, true} {
		for i, a := range sources {
			if c.Expired() {
				s.Cap("deadline")
				break
			}
			for j, b := range sources {
				if a.arg == b.arg || j < i {
					continue
				}
				n++
				if n%stride != 0 {
					continue
				}
				vars := append([]c15Var{}, a.vars...)
				bl := b.l
				if len(b.vars) > 0 {
					bv := b.vars[0]
					bv.Name = "w"
					vars = append(vars, bv)
					bl = renumber(b.l, len(a.vars))
				}
				run(c15Case{OnDirective: onDir, Args: []c15Arg{{a.arg, a.l}, {b.arg, bl}}, Vars: vars})
			}
		}
	}
	if stride > 1 {
		s.Exhaustive = true // the quick tier's space is defined as the strided subset
	}
	s.WallS = time.Since(t0).Seconds()
}

func renumber(l lit, to int) lit {
	if l.K == "var" {
		l.VarIdx = to
		return l
	}
	if len(l.Items) > 0 {
		items := make([]lit, len(l.Items))
		for i := range l.Items {
			items[i] = renumber(l.Items[i], to)
		}
		l.Items = items
	}
	return l
}

func init() {
	prev := registry["C15"].Run
	registry["C15"].Run = func(c *explore.Ctx) {
		prev(c)
		if s := c.Sub("shared-fragments", "two operations that declare the same variables with and without defaults (3 declaration sets, both orders) sharing one fragment that uses them as field and directive arguments (top level, in a list, in an input object) × every supply combination × either operation executed", "ArgumentMap = CoerceArgumentValues for the executed operation", "cases that validate and coerce"); s != nil {
			c15Shared(c, s)
		}
	}
}

var _ = fmt.Sprint
