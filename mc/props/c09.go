package props

import (
	"encoding/json"
	"fmt"
	"strings"
	"time"

	"github.com/vektah/gqlparser/v2/ast"
	"github.com/vektah/gqlparser/v2/gqlerror"
	"github.com/vektah/gqlparser/v2/parser"
	"github.com/vektah/gqlparser/v2/validator"
	"github.com/vektah/gqlparser/v2/validator/rules"

	"verif/mc/explore"
	"verif/mc/ref/refvalid"
)

// C09: validated documents are completely and correctly linked to schema definitions.

func init() {
	register(&Prop{ID: "C09", Run: runC09, Replay: func(c *explore.Ctx, s *explore.SubStats, v explore.Violation) {
		var in kitDoc
		if json.Unmarshal(v.Input, &in) == nil {
			c09Doc(c, s, in)
		}
	}, Assumptions: []string{
		"only documents that both the library and ref/refvalid accept are judged (the property's precondition 'after a document passes validation')",
		"expected links are computed top-down by the check's own traversal (parent types resolved by name through the schema structure); a link is correct when it is the very definition object stored in the schema the document was validated against (pointer identity), `__typename` being a definition named __typename of type String",
		"an argument value's expected type is the declared type at its position (the item type inside list literals, the field type inside input object literals; a single value given for a list keeps the list type), its definition the named type's definition; contents of custom-scalar literals are excepted",
		"a variable use inside a fragment must carry the variable definition of some operation that reaches the fragment",
	}})
}

type linkChecker struct {
	sch  *ast.Schema
	doc  *ast.QueryDocument
	bad  func(key, detail string)
	n    int64
	opOf *ast.OperationDefinition
}

func (l *linkChecker) typeDef(name string) *ast.Definition { return l.sch.Types[name] }

func (l *linkChecker) dirs(ds ast.DirectiveList, loc ast.DirectiveLocation, where string) {
	for _, d := range ds {
		l.n++
		def := l.sch.Directives[d.Name]
		if d.Definition == nil {
			l.bad("link/Directive.Definition missing ctx="+string(loc), where+": @"+d.Name+" has no Definition")
		} else if d.Definition != def {
			l.bad("link/Directive.Definition wrong ctx="+string(loc), where+": @"+d.Name+" is linked to another definition")
		}
		if d.Location != loc {
			l.bad("link/Directive.Location ctx="+string(loc), fmt.Sprintf("%s: @%s has Location %q, it stands at %s", where, d.Name, d.Location, loc))
		}
		if def != nil {
			for _, a := range d.Arguments {
				if ad := def.Arguments.ForName(a.Name); ad != nil {
					l.value(a.Value, ad.Type, where+" @"+d.Name+"("+a.Name+")", "directive-arg")
				}
			}
		}
	}
}

func (l *linkChecker) isCustomScalar(t *ast.Type) bool {
	d := l.typeDef(t.Name())
	return d != nil && d.Kind == ast.Scalar && d.Name != "Int" && d.Name != "Float" && d.Name != "String" && d.Name != "Boolean" && d.Name != "ID"
}

func (l *linkChecker) value(v *ast.Value, t *ast.Type, where, ctx string) {
	if v == nil || t == nil {
		return
	}
	l.n++
	if v.ExpectedType == nil {
		l.bad("link/Value.ExpectedType missing ctx="+ctx+" kind="+valueKindName(v.Kind), where+": value "+v.String()+" has no ExpectedType (declared "+t.String()+")")
	} else if v.ExpectedType.String() != t.String() {
		l.bad("link/Value.ExpectedType wrong ctx="+ctx+" kind="+valueKindName(v.Kind), fmt.Sprintf("%s: value %s has ExpectedType %s, declared type at this position is %s", where, v.String(), v.ExpectedType.String(), t.String()))
	}
	want := l.typeDef(t.Name())
	if v.Definition == nil {
		l.bad("link/Value.Definition missing ctx="+ctx+" kind="+valueKindName(v.Kind), where+": value "+v.String()+" has no Definition (type "+t.String()+")")
	} else if v.Definition != want {
		l.bad("link/Value.Definition wrong ctx="+ctx+" kind="+valueKindName(v.Kind), where+": value "+v.String()+" is linked to "+v.Definition.Name+", its type is "+t.Name())
	}
	if v.Kind == ast.Variable {
		l.variable(v, where, ctx)
		return
	}
	if l.isCustomScalar(t) && (t.Elem == nil || v.Kind != ast.ListValue) {
		// (a list literal given for a list of custom scalars is a list: its items are the custom-scalar literals)
		l.variablesInside(v, where)
		return
	}
	switch v.Kind {
	case ast.ListValue:
		if t.Elem != nil {
			for i, ch := range v.Children {
				l.value(ch.Value, t.Elem, fmt.Sprintf("%s[%d]", where, i), ctx+">list")
			}
		}
	case ast.ObjectValue:
		tt := t
		for tt.Elem != nil {
			tt = tt.Elem
		}
		d := l.typeDef(tt.NamedType)
		if d == nil {
			return
		}
		for _, ch := range v.Children {
			if f := d.Fields.ForName(ch.Name); f != nil {
				l.value(ch.Value, f.Type, where+"."+ch.Name, ctx+">object")
			}
		}
	}
}

// variablesInside: variable uses inside custom-scalar literals still need their definition.
func (l *linkChecker) variablesInside(v *ast.Value, where string) {
	if v == nil {
		return
	}
	if v.Kind == ast.Variable {
		l.variable(v, where, "custom-scalar-content")
		return
	}
	for _, ch := range v.Children {
		l.variablesInside(ch.Value, where)
	}
}

func (l *linkChecker) variable(v *ast.Value, where, ctx string) {
	l.n++
	if v.VariableDefinition == nil {
		l.bad("link/Value.VariableDefinition missing ctx="+ctx, where+": use of $"+v.Raw+" has no VariableDefinition")
		return
	}
	if l.opOf != nil {
		if v.VariableDefinition != l.opOf.VariableDefinitions.ForName(v.Raw) {
			l.bad("link/Value.VariableDefinition wrong ctx="+ctx, where+": use of $"+v.Raw+" is not linked to the definition in its operation")
		}
		return
	}
	for _, op := range l.doc.Operations {
		if op.VariableDefinitions.ForName(v.Raw) == v.VariableDefinition {
			return
		}
	}
	l.bad("link/Value.VariableDefinition wrong ctx="+ctx+" in-fragment", where+": use of $"+v.Raw+" is linked to no operation's definition")
}

func (l *linkChecker) selections(ss ast.SelectionSet, parent string, where string) {
	pdef := l.typeDef(parent)
	for _, sel := range ss {
		switch x := sel.(type) {
		case *ast.Field:
			l.n++
			w := where + "/" + x.Alias
			if x.ObjectDefinition != pdef {
				l.bad("link/Field.ObjectDefinition", fmt.Sprintf("%s: ObjectDefinition is %s, the field is selected on %s", w, defName(x.ObjectDefinition), parent))
			}
			var fd *ast.FieldDefinition
			if x.Name == "__typename" {
				if x.Definition == nil || x.Definition.Name != "__typename" || x.Definition.Type == nil || x.Definition.Type.Name() != "String" {
					l.bad("link/Field.Definition __typename", w+": __typename is not linked to a definition named __typename of type String")
				}
				fd = x.Definition
			} else {
				if pdef != nil {
					fd = pdef.Fields.ForName(x.Name)
				}
				if x.Definition == nil {
					l.bad("link/Field.Definition missing", w+": field "+x.Name+" has no Definition")
				} else if x.Definition != fd {
					l.bad("link/Field.Definition wrong", w+": field "+x.Name+" is not linked to the definition of "+parent+"."+x.Name)
				}
			}
			if fd == nil {
				continue
			}
			for _, a := range x.Arguments {
				if ad := fd.Arguments.ForName(a.Name); ad != nil {
					l.value(a.Value, ad.Type, w+"("+a.Name+")", "field-arg")
				}
			}
			l.dirs(x.Directives, ast.LocationField, w)
			l.selections(x.SelectionSet, fd.Type.Name(), w)
		case *ast.InlineFragment:
			l.n++
			tc := parent
			if x.TypeCondition != "" {
				tc = x.TypeCondition
			}
			w := where + "/...on " + tc
			if want := l.typeDef(tc); x.ObjectDefinition != want {
				key := "link/InlineFragment.ObjectDefinition wrong"
				if x.ObjectDefinition == pdef {
					key = "link/InlineFragment.ObjectDefinition is-enclosing-type"
				}
				l.bad(key, fmt.Sprintf("%s: ObjectDefinition is %s, the type condition is %s", w, defName(x.ObjectDefinition), tc))
			}
			l.dirs(x.Directives, ast.LocationInlineFragment, w)
			l.selections(x.SelectionSet, tc, w)
		case *ast.FragmentSpread:
			l.n++
			w := where + "/..." + x.Name
			if want := l.doc.Fragments.ForName(x.Name); x.Definition == nil {
				l.bad("link/FragmentSpread.Definition missing", w+": spread has no Definition")
			} else if x.Definition != want {
				l.bad("link/FragmentSpread.Definition wrong", w+": spread is linked to another fragment definition")
			}
			if x.ObjectDefinition != pdef {
				l.bad("link/FragmentSpread.ObjectDefinition", fmt.Sprintf("%s: ObjectDefinition is %s, the spread stands in %s", w, defName(x.ObjectDefinition), parent))
			}
			l.dirs(x.Directives, ast.LocationFragmentSpread, w)
		}
	}
}

func defName(d *ast.Definition) string {
	if d == nil {
		return "<nil>"
	}
	return d.Name
}

func valueKindName(k ast.ValueKind) string {
	return [...]string{"variable", "int", "float", "string", "block", "boolean", "null", "enum", "list", "object"}[k]
}

func c09Doc(c *explore.Ctx, s *explore.SubStats, d kitDoc) {
	explore.Crumb(s.Name, d.Doc)
	schema := kitSchema(d.Schema)
	model, err := parser.ParseQuery(&ast.Source{Name: "q.graphql", Input: d.Doc})
	if err != nil {
		s.Skipped++
		return
	}
	s.Executions++
	if want := refvalid.Validate(kitModelSchema(d.Schema), model); !want.Valid() || len(want.Undecided) > 0 {
		s.Skipped++
		s.Outcome("not-valid-by-reference")
		return
	}
	doc, _ := parser.ParseQuery(&ast.Source{Name: "q.graphql", Input: d.Doc})
	var errs gqlerror.List
	r := guarded(c02DocBudget, 5000, func() { errs = validator.Validate(schema, doc) })
	if r.Panicked || len(errs) > 0 {
		s.Skipped++
		s.Outcome("not-accepted-by-library")
		return
	}
	s.Validated++
	s.Nontrivial++
	c09Links(c, s, d, schema, doc, "")
	// the links are filled in by the walk, whichever rules observe it: the same document walked
	// under an explicitly empty rule list, under one rule, and by Walk with no observer at all
	for _, mode := range []string{"empty-rule-list", "single-rule", "walk-only"} {
		d2, _ := parser.ParseQuery(&ast.Source{Name: "q.graphql", Input: d.Doc})
		r := guarded(c02DocBudget, 5000, func() {
			switch mode {
			case "empty-rule-list":
				validator.Validate(schema, d2, []validator.Rule{}...)
			case "single-rule":
				validator.Validate(schema, d2, rules.ScalarLeafsRule)
			default:
				validator.Walk(schema, d2, &validator.Events{})
			}
		})
		if r.Panicked {
			c.Report(s, explore.Violation{Key: "link/panic via=" + mode + " site=" + r.Site, Input: explore.J(d), Rendered: d.Doc, Detail: r.PanicVal})
			continue
		}
		c09Links(c, s, d, schema, d2, mode)
	}
	// documents are the caller's: validated again after the caller replaced every fragment
	// definition by an equal fresh one, and validated again against another instance of the
	// schema (a reload) — the links must follow
	{
		fresh, _ := parser.ParseQuery(&ast.Source{Name: "q.graphql", Input: d.Doc})
		if len(fresh.Fragments) == len(doc.Fragments) && len(doc.Fragments) > 0 {
			doc.Fragments = fresh.Fragments
			r := guarded(c02DocBudget, 5000, func() { validator.Validate(schema, doc) })
			if !r.Panicked {
				c09Links(c, s, d, schema, doc, "second validation after the fragment definitions were replaced")
			}
		}
		// a document built by hand (or decoded from JSON without the member): the zero value of
		// Operation stands for a query
		{
			hb, _ := parser.ParseQuery(&ast.Source{Name: "q.graphql", Input: d.Doc})
			changed := false
			for _, op := range hb.Operations {
				if op.Operation == ast.Query {
					op.Operation = ""
					changed = true
				}
			}
			if changed {
				var herrs gqlerror.List
				r := guarded(c02DocBudget, 5000, func() { herrs = validator.Validate(schema, hb) })
				if !r.Panicked && len(herrs) == 0 {
					c09Links(c, s, d, schema, hb, "validation of the document with Operation left at its zero value")
				}
			}
		}
		alt := kitAltSchema(d.Schema)
		r := guarded(c02DocBudget, 5000, func() { validator.Validate(alt, doc) })
		if !r.Panicked {
			c09Links(c, s, d, alt, doc, "second validation against another instance of the schema")
		}
	}
	s.Outcome("linked")
	s.Sample(func() any { return d })
}

// c09Links checks every link of a walked document. via names the way it was walked ("" = the
// default rule set).
func c09Links(c *explore.Ctx, s *explore.SubStats, d kitDoc, schema *ast.Schema, doc *ast.QueryDocument, via string) {
	seen := map[string]bool{}
	l := &linkChecker{sch: schema, doc: doc}
	l.bad = func(key, detail string) {
		if via != "" {
			// same cause key whatever the way the document was walked
			detail = "(document walked by " + via + ") " + detail
		}
		if seen[key] {
			return
		}
		seen[key] = true
		c.Report(s, explore.Violation{Key: key, Input: explore.J(d), Rendered: d.Doc, Detail: detail})
	}
	for _, op := range doc.Operations {
		l.opOf = op
		root := map[ast.Operation]*ast.Definition{"": schema.Query, ast.Query: schema.Query, ast.Mutation: schema.Mutation, ast.Subscription: schema.Subscription}[op.Operation]
		if root == nil {
			continue
		}
		where := string(op.Operation) + " " + op.Name
		for _, vd := range op.VariableDefinitions {
			l.n++
			if want := l.typeDef(vd.Type.Name()); vd.Definition == nil {
				l.bad("link/VariableDefinition.Definition missing", where+": $"+vd.Variable+" has no Definition")
			} else if vd.Definition != want {
				l.bad("link/VariableDefinition.Definition wrong", where+": $"+vd.Variable+" is linked to "+vd.Definition.Name)
			}
			if vd.DefaultValue != nil {
				l.value(vd.DefaultValue, vd.Type, where+" default of $"+vd.Variable, "variable-default")
			}
			l.dirs(vd.Directives, ast.LocationVariableDefinition, where+" $"+vd.Variable)
		}
		opLoc := ast.DirectiveLocation(strings.ToUpper(string(op.Operation)))
		if op.Operation == "" {
			opLoc = ast.LocationQuery
		}
		l.dirs(op.Directives, opLoc, where)
		l.selections(op.SelectionSet, root.Name, where)
	}
	l.opOf = nil
	for _, f := range doc.Fragments {
		l.n++
		where := "fragment " + f.Name
		if want := l.typeDef(f.TypeCondition); f.Definition == nil {
			l.bad("link/FragmentDefinition.Definition missing", where+" has no Definition")
		} else if f.Definition != want {
			l.bad("link/FragmentDefinition.Definition wrong", where+" is linked to "+f.Definition.Name+", its type condition is "+f.TypeCondition)
		}
		l.dirs(f.Directives, ast.LocationFragmentDefinition, where)
		l.selections(f.SelectionSet, f.TypeCondition, where)
	}
	s.Transitions += l.n
	s.MaxOf("links_per_document", l.n)
}

func runC09(c *explore.Ctx) {
	s := c.Sub("profiles", fmt.Sprintf("every document of the validation-kit profiles (%d) that the library and the reference validator both accept — incl. the 'links' profile: valid documents with values nested in lists and input objects, list-coerced single values and objects, custom-scalar literals holding variables, variables through fragments reached only through fragments, __typename on unions and interfaces, introspection fields, directives in every position — every node of each", profileDocCount()),
		"every field, fragment spread, inline fragment, fragment definition, directive, variable definition, argument value (at every depth) and variable use carries the link the property states, as the very definition object of the schema validated against", "documents both sides accept")
	if s != nil {
		t0 := time.Now()
		forEachProfileDoc(c, s, "", func(d kitDoc) { c09Doc(c, s, d) })
		s.WallS = time.Since(t0).Seconds()
	}
	n := c.Pick(7, 12)
	s = c.Sub("type-blind", fmt.Sprintf("every type-blind document of ≤ %d tokens that both sides accept", n), "as above", "documents both sides accept")
	if s != nil {
		t0 := time.Now()
		forEachBlindDoc(c, s, n, func(d kitDoc) { c09Doc(c, s, d) })
		s.WallS = time.Since(t0).Seconds()
	}
}

var _ = time.Now
